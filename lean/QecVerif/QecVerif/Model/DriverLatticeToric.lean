import QecVerif.Model.DriverLattice
import QecVerif.Model.Lattice.Toric
namespace Qec.Drv
open Qec Qec.Wire

def parsePairs3? (s : String) : Option (List ((Int × Int × Int) × (Int × Int × Int))) :=
  if s == "_" then some [] else
  (s.splitOn ";").mapM fun p =>
    match p.splitOn ">" with
    | [a, b] => do let a ← parseIdx3? a; let b ← parseIdx3? b; pure (a, b)
    | _ => none

/-- sizes on the wire are accepted sizes only (rows, cols ≥ 2): the model's `%` needs positive moduli -/
def parseSize? (r c : String) : Option (Int × Int) := do
  let r ← parseInt? r; let c ← parseInt? c
  if r < 2 || c < 2 then none else pure (r, c)

/-- driver ops of the toric family -/
def toric : List String → Option String
  | ["ctor", r, c] => do let r ← parsePyVal? r; let c ← parsePyVal? c; pure (showCtor (Toric.ctor r c))
  | ["nkd", r, c] => do
      let (r, c) ← parseSize? r c
      let (n, k, d) := Toric.nkd r c; pure s!"{n} {k} {d}"
  | ["stabs", r, c] => do let (r, c) ← parseSize? r c; pure (showMat (Toric.stabilizers r c))
  | ["lx", r, c] => do let (r, c) ← parseSize? r c; pure (showMat (Toric.logicalXs r c))
  | ["lz", r, c] => do let (r, c) ← parseSize? r c; pure (showMat (Toric.logicalZs r c))
  | ["plaqidx", r, c] => do let (r, c) ← parseSize? r c; pure (showIdx3List (Toric.indices r c))
  | ["flat", r, c, i] => do
      let (r, c) ← parseSize? r c; let i ← parseIdx3? i; pure (toString (Toric.flatten r c i))
  | ["opat", r, c, v, i] => do
      let (r, c) ← parseSize? r c; let v ← parseBits? v; let i ← parseIdx3? i
      if v.length != 2 * (Toric.nQubits r c).toNat then none
      else pure (String.singleton (Toric.operator r c v i).toChar)
  | ["site", r, c, op, i] => do
      let (r, c) ← parseSize? r c; let i ← parseIdx3? i
      let op ← (match op.toList with | [ch] => P1.ofChar? ch | _ => none)
      pure (showBits (Toric.site r c op (Toric.identity r c) i))
  | ["sites", r, c, op, v, l] => do
      let (r, c) ← parseSize? r c; let op ← parseOp1? op; let v ← parseBits? v; let l ← parseIdx3List? l
      if v.length != 2 * (Toric.nQubits r c).toNat then none
      else pure (showBits (Toric.sites r c op v l))
  | ["plaq", r, c, i] => do
      let (r, c) ← parseSize? r c; let i ← parseIdx3? i
      pure (showBits (Toric.plaquette r c (Toric.identity r c) i))
  | ["trans", r, c, a, b] => do
      let (r, c) ← parseSize? r c; let a ← parseIdx3? a; let b ← parseIdx3? b
      match Toric.translation r c a b with
      | .ok t => pure (showIdx t) | .error _ => pure "IndexError"
  | ["path", r, c, a, b] => do
      let (r, c) ← parseSize? r c; let a ← parseIdx3? a; let b ← parseIdx3? b
      pure (showExB (Toric.path r c (Toric.identity r c) a b))
  | ["dist", r, c, a, b] => do
      let (r, c) ← parseSize? r c; let a ← parseIdx3? a; let b ← parseIdx3? b
      match Toric.distance r c a b with
      | .ok d => pure (toString d) | .error _ => pure "IndexError"
  | ["s2p", r, c, s] => do
      let (r, c) ← parseSize? r c; let s ← parseBits? s
      pure (showIdx3List (Toric.syndromeToPlaquettes r c s))
  | ["mates", r, c, m] => do
      let (r, c) ← parseSize? r c; let m ← parsePairs3? m
      pure (showExB (Toric.applyMates r c m))
  | _ => none

end Qec.Drv
