import QecVerif.Model.Wire
namespace Qec.Drv
open Qec Qec.Wire

/-- driver ops of property C11 (first protocol token `c11`) -/
def c11 : List String → Option String
  | _ => none

end Qec.Drv
