import QecVerif.Model.Wire
import QecVerif.Model.Tensor
namespace Qec.Drv
open Qec Qec.Wire Qec.Tensor

namespace C11

/-- tensor: `n.e.s.w:v0,v1,…` (flat numpy C order; `_` for no data) -/
def parseT4? (s : String) : Option T4 :=
  match s.splitOn ":" with
  | [sh, dat] =>
    match (sh.splitOn ".").mapM (·.toNat?) with
    | some [n, e, s', w] => do
        let d ← parseIntList? dat
        if d.length = n * e * s' * w then some { n := n, e := e, s := s', w := w, d := d.toArray } else none
    | _ => none
  | _ => none

def parseSite? (s : String) : Option Site :=
  if s == "N" then some none else (parseT4? s).map some

/-- mps: sites joined by `;`, `_` for the empty list -/
def parseMPS? (s : String) : Option MPS :=
  if s == "_" then some [] else (s.splitOn ";").mapM parseSite?

/-- network: `RxC` then an mps token holding the `R*C` sites row-major -/
def parseNet? (shape sites : String) : Option Net :=
  match (shape.splitOn "x").mapM (·.toNat?) with
  | some [r, c] => do
      let m ← parseMPS? sites
      if m.length = r * c then some { nrows := r, ncols := c, a := m.toArray } else none
  | _ => none

/-- mask: `N` or `RxC:bits` -/
def parseMask? (s : String) : Option (Option Mask) :=
  if s == "N" then some none else
  match s.splitOn ":" with
  | [shape, b] =>
    match (shape.splitOn "x").mapM (·.toNat?) with
    | some [r, c] => do
        let v ← parseBits? b
        if v.length = r * c then some (some { nrows := r, ncols := c, a := v.toArray }) else none
    | _ => none
  | _ => none

/-- tol: `N`, or a decimal / rational; only truthiness matters -/
def parseTol? (s : String) : Option Bool :=
  if s == "N" then some false else (parseRat? s).map fun r => r != 0

def showT4 (t : T4) : String :=
  s!"{t.n}.{t.e}.{t.s}.{t.w}:" ++ showIntList t.d.toList

def showSite : Site → String
  | none => "N" | some t => showT4 t

def showMPS (m : MPS) : String := if m.isEmpty then "_" else ";".intercalate (m.map showSite)

def showErr : Err → String
  | .value => "ValueError" | .type => "TypeError" | .assertion => "AssertionError" | .svd => "svd"

def showRes {α} (f : α → String) : Except Err α → String
  | .ok a => "ok " ++ f a | .error e => showErr e

def showResult : Result → String
  | .scalar v => "s " ++ toString v
  | .part none m => "p " ++ toString m ++ " None"
  | .part (some r) m => "p " ++ toString m ++ " " ++ showMPS r

end C11
open C11

/-- driver ops of property C11 (first protocol token `c11`) -/
def c11 : List String → Option String
  | ["contract", shape, sites, chi, tol, start, stop, step, mask] => do
      let tn ← parseNet? shape sites
      let chi ← parseOptInt? chi
      let tol ← parseTol? tol
      let start ← parseOptInt? start
      let stop ← parseOptInt? stop
      let step ← parseOptInt? step
      let mask ← parseMask? mask
      pure (showRes showResult (contract tn chi tol start stop step mask))
  | ["split", shape, sites, k, chi, tol, mask] => do
      let tn ← parseNet? shape sites
      let k ← k.toNat?
      let chi ← parseOptInt? chi
      let tol ← parseTol? tol
      let mask ← parseMask? mask
      pure (showRes toString (splitValue tn k chi tol mask))
  | ["transpose", shape, sites] => do
      let tn ← parseNet? shape sites
      let t := tn.transpose
      pure s!"ok {t.nrows}x{t.ncols} {showMPS t.a.toList}"
  | ["exact", shape, sites] => do
      let tn ← parseNet? shape sites
      pure (match exactValue tn with | some v => "ok " ++ toString v | none => "undefined")
  | ["nassign", shape, sites] => do
      let tn ← parseNet? shape sites
      pure (toString (nAssignments tn))
  | ["pairwise", l, r] => do
      let l ← parseMPS? l
      let r ← parseMPS? r
      pure (showRes showMPS (contractPairwise l r))
  | ["ladder", m] => do
      let m ← parseMPS? m
      pure (showRes showT4 (contractLadder m))
  | ["inner", l, r] => do
      let l ← parseMPS? l
      let r ← parseMPS? r
      pure (showRes toString (innerProduct l r))
  | ["scalar", t] => do
      let t ← parseT4? t
      pure (showRes toString (asScalar t))
  | ["startstop", m] => do
      let m ← parseMPS? m
      pure (showRes (fun (p : Nat × Nat) => s!"{p.1},{p.2}") (startStop m))
  | ["truncate", m, chi, tol, mask] => do
      let m ← parseMPS? m
      let chi ← parseOptInt? chi
      let tol ← parseTol? tol
      let mask ← if mask == "N" then some none else (parseBits? mask).map some
      pure (showRes (fun (p : MPS × Int) => s!"{p.2} {showMPS p.1}") (truncate m chi tol mask))
  | ["slice", start, stop, step, n] => do
      let start ← parseOptInt? start
      let stop ← parseOptInt? stop
      let step ← parseOptInt? step
      let n ← n.toNat?
      pure (showRes showNatList (colRange start stop step n))
  | _ => none

end Qec.Drv
