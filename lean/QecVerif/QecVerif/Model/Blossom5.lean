/-
  Model of the Blossom V path of `qecsim.graphtools`: `graphtools.mwpm_blossom5` (src/qecsim/graphtools/__init__.py)
  with `blossom5.mwpm` and `blossom5.mwpm_ids` (src/qecsim/graphtools/blossom5.py), line by line.  (The pure function
  `blossom5.weight_to_int_fn` is already modelled in Model/Matching.lean: `weightToIntKind`, `weightToInt`.)

  EXTERNAL — parameters, not modelled:
  * `clib : Clib` — the C function `lib.mwpm(n_nodes, mates_array, n_edges, nodes_a, nodes_b, weights)` of `libpypm.so`
    (Blossom V).  `clib n es` is the content of the c_int array `mates_array` after the call, `es` being the three
    parallel c_int arrays zipped (so `n_edges = es.length`).  ctypes allocates `mates_array` with exactly `n_nodes`
    zero-initialised slots, so the wrapper reads `(clib n es).getD i 0` for `i < n`.  (The slots are c_ints; under the
    contract `Blossom5.ClibContract` they are node ids, hence `Nat` here.)
  * `nodes : List Node` — the list `list(set(node for (node_a, node_b, _) in edges for node in (node_a, node_b)))` of
    `blossom5.mwpm`: the distinct endpoints in the HASH order of a Python set.  The theorems quantify over every
    duplicate-free listing of the endpoint set.
  * `infty`, `allInt`, `prod` — as in `weightToInt`: `blossom5.infty()`, `all(isinstance(wt, int) for wt in weights)`
    and the float product `weight * scaling` (used by the scaled rule only).
  Python sets are modelled as duplicate-free lists (`Dec.dedup`); nothing proved depends on their order.
  `node_to_id[node]` (KeyError for a non-node) and `nodes[id]` (IndexError out of range) are totalised by `idxOf` /
  `getD`: with `nodes` a listing of the endpoints and mates inside `[0, n)` neither exception can occur.
  Imports nothing outside core.
-/
import QecVerif.Model.Matching
import QecVerif.Model.Decoders
namespace Qec.Blossom5
open Qec Qec.Matching

/-- `(node_a, node_b, weight)` with an integer weight (over node objects or over node ids) -/
abbrev IEdge := Nat × Nat × Int

/-- the C routine: `n_nodes`, the edge arrays (zipped) ↦ the array `mates_array` it leaves behind -/
abbrev Clib := Nat → List IEdge → List Nat

/-- largest id mentioned -/
def maxId (es : List IEdge) : Nat := es.foldl (fun m e => max m (max e.1 e.2.1)) 0

/-- `node_ids = sorted(set(id for (id_a, id_b, _) in edges for id in (id_a, id_b)))` -/
def nodeIds (es : List IEdge) : List Nat :=
  (List.range (maxId es + 1)).filter fun i => es.any fun e => e.1 == i || e.2.1 == i

/-- `tuple(sorted((a, b)))` -/
def sortPair (p : Nat × Nat) : Nat × Nat := if p.1 ≤ p.2 then p else (p.2, p.1)

/-- `mates_array[i]` as the wrapper reads it -/
def mateOf (clib : Clib) (n : Nat) (es : List IEdge) (i : Nat) : Nat := (clib n es).getD i 0

/-- `blossom5.mwpm_ids(edges)`; `none` = the `assert` on contiguous ids fires -/
def mwpmIds (clib : Clib) (es : List IEdge) : Option (List (Nat × Nat)) :=
  let ids := nodeIds es
  let n := ids.length
  -- assert n_nodes == 0 or (node_ids[0] == 0 and node_ids[-1] == n_nodes - 1)
  if n == 0 || (ids.head? == some 0 && ids.getLast? == some (n - 1)) then
    -- mates = {tuple(sorted((a, b))) for a, b in enumerate(mates_array)}
    some (Dec.dedup ((List.range n).map fun i => sortPair (i, mateOf clib n es i)))
  else none

/-- `blossom5.mwpm(edges)` over node objects, `nodes` being the listing `list(set(...))` of the endpoints -/
def mwpmObjs (nodes : List Node) (clib : Clib) (edges : List IEdge) : Option (List Edge) :=
  -- node_to_id = dict((n, i) for i, n in enumerate(nodes))
  let toId := fun v => nodes.idxOf v
  -- edge_ids = [(node_to_id[node_a], node_to_id[node_b], weight) for node_a, node_b, weight in edges]
  let edgeIds := edges.map fun e => (toId e.1, toId e.2.1, e.2.2)
  -- mates = {(nodes[node_id_a], nodes[node_id_b]) for node_id_a, node_id_b in mate_ids}
  (mwpmIds clib edgeIds).map fun mateIds => Dec.dedup (mateIds.map fun p => (nodes.getD p.1 0, nodes.getD p.2 0))

/-- all results present -/
def allSome {α} : List (Option α) → Option (List α)
  | [] => some []
  | none :: _ => none
  | some x :: l => (allSome l).map (x :: ·)

/-- `graphtools.mwpm_blossom5(graph)`; `none` = an exception (a non-integer weight under the identity rule cannot
    arise in Python — there `allInt` is truthful — and the assert of `mwpm_ids`) -/
def mwpmBlossom5 (infty : Rat) (allInt : Bool) (prod : Rat → Rat) (nodes : List Node) (clib : Clib) (g : Graph) :
    Option (List Edge) :=
  -- if not graph: return set()
  if g.isEmpty then some []
  else
    -- weight_to_int_fn = blossom5.weight_to_int_fn(list(graph.values()))
    let ws := g.map (·.2)
    -- edges = list((node_a, node_b, weight_to_int_fn(weight)) for (node_a, node_b), weight in graph.items())
    match allSome (g.map fun e => (weightToInt infty allInt ws e.2 (prod e.2)).map fun z => (e.1.1, e.1.2, z)) with
    | none => none
    | some edges => mwpmObjs nodes clib edges

end Qec.Blossom5
