"""
C10 helper — the rotated planar ROTATED MPS decoder (`RotatedPlanarRMPSDecoder`): its tensor network inside the model
(Model/RotatedPlanarRmpsTn.lean, driver token `c10rprmps`).

`cases(ctx)` queues

  * `c10rprmps qnode`   — `TNC.create_q_node(dist, f, h_node, even_column, direction)` for EVERY combination of
                          h/v-node, even/odd column, the nine compass directions and the four Paulis (the 2 x 10
                          hand-written shape cases, the einsum with the four `tsr.delta` and the reshape; the v-node
                          'sw' case must raise ValueError on both sides), entries exactly as Fraction(float)·D;
  and, for rotated planar codes of every accepted small shape (R, C >= 3: 3x3, 3x4, 4x3, 4x4, 3x5, 5x3, 4x5, 5x4, ... —
  both parities of rows, of columns and of rows+cols, non-square both ways), random Paulis and the decoder's own
  `sample_recovery` samples, each with the four sample Paulis of `_coset_probabilities` (f, f·X̄, f·X̄·Z̄, f·Z̄ made by
  the REAL `RotatedPlanarPauli.logical_x / logical_z`), and several single-qubit distributions:

  * `c10rprmps tn`      — EVERY tensor of the real `RotatedPlanarRMPSDecoder.TNC().create_tn(dist, sample)` array
                          (shapes and entries) == the model network `rprmpsTn`;
  * `c10rprmps tncompat`— the model network is a C11-compatible grid;
  * `c10rprmps tnvalue` / `tnvaluer` — the model of `mps2d.contract` on that network / on its `mps2d.transpose`, and
    `c10rprmps tnvalued c|r` — the evaluation `_coset_probabilities` performs (`contract(tn, stop=-1)`, then
                          `inner_product` with the last column), exact integers, == the exact coset sums: for small
                          groups the Lean `cosetProb` on the REAL `code.stabilizers / code.logicals` (`c10 cosets`, all
                          four variants) and on the MODEL's `RotatedPlanar.stabilizers` (`c10rprmps tncoset`, the
                          statement of the theorems `rotated_planar_rmps_tn_value…`);
  * for larger groups the REAL float contraction `tt.mps2d.contract(tn)` / `…(transpose(tn))` and the REAL
    `RotatedPlanarRMPSDecoder(mode=c|r)._coset_probabilities(dist, sample)` within 1e-11 (relative) of the model value.

`evaluate_input(meta)` (family 'rplanar-rmps-tn') evaluates the PROPERTY on the real code for a recorded input:
`RotatedPlanarRMPSDecoder(mode=c|r)._coset_probabilities(dist, sample)` against the coset sums enumerated in Python.

Standalone:  QV_LEAN_DIR=<copy with the c10rprmps dispatch line> VERIF_SEED=k /venv/bin/python harness/qv/c10_rprmps.py [quick|thorough]
"""
import os
import sys
from fractions import Fraction

import numpy as np

if __name__ == '__main__':
    sys.path.insert(0, os.path.join(os.path.dirname(os.path.abspath(__file__)), '..'))

from qv import core  # noqa: E402
from qv.core import bits, mat  # noqa: E402

FAMILY = 'rplanar-rmps-tn'
OP = 'c10rprmps'
DIRECTIONS = ['', 'n', 'ne', 'e', 'se', 's', 'sw', 'w', 'nw']


def _c10():
    from qv.props import c10   # lazy: c10.py imports this module
    return c10


def plan(ctx):
    """(size, items, spec) — spec: 'cosets' = all four variants against the REAL matrices (+ the model's own
    stabilizers for the sample), 'tncoset' = the sample against the model's stabilizers, 'float' = the real float
    contraction against the model value (group too large for the enumeration)"""
    q = ctx.quick()
    P = [((3, 3), 4 if q else 16, 'cosets')]
    P += [(s, 2 if q else 8, 'cosets') for s in [(3, 4), (4, 3)]]
    P += [(s, 1 if q else 4, 'cosets') for s in [(4, 4), (3, 5), (5, 3)]]
    P += [(s, 1 if q else 3, 'tncoset') for s in [(6, 3)]]
    P += [(s, 1 if q else 3, 'float') for s in [(4, 5), (5, 4), (5, 5)]]
    if not q:
        P += [((3, 6), 2, 'tncoset')]
        P += [(s, 2, 'float') for s in [(6, 4), (7, 3), (6, 5), (7, 4)]]
    return P


def variants(code, f):
    """the four sample Paulis of `_coset_probabilities` (I, X̄, Ȳ, Z̄), made by the real RotatedPlanarPauli methods"""
    sp = code.new_pauli(np.array(f, dtype=int))
    return [sp, sp.copy().logical_x(), sp.copy().logical_x().logical_z(), sp.copy().logical_z()]


def ser_node(node, D):
    """one real tensor in the C11 wire format"""
    P = _c10()
    arr = np.empty((1, 1), dtype=object)
    arr[0, 0] = node
    s = P.ser_real_tn(arr, D)
    assert s.startswith('ok 1x1 ')
    return 'ok ' + s[len('ok 1x1 '):]


def qnode_cases(ctx, n_dists):
    """`create_q_node` itself, every argument combination"""
    from qecsim.models.rotatedplanar import RotatedPlanarRMPSDecoder
    P = _c10()
    rng = ctx.rng
    raw = P.raw_model_dists()
    for k in range(n_dists):
        if k == 0:
            kind, dist = raw[0]
        else:
            kind = P.KINDS[rng.randrange(len(P.KINDS))]
            dist = P.make_dist(rng, kind, rng.choice(P.PS))
        dist = tuple(float(x) for x in dist)
        a, D = P.numerators(dist)
        tnc = RotatedPlanarRMPSDecoder.TNC()
        for h_node in (True, False):
            for even in (True, False):
                for direction in DIRECTIONS:
                    for f in 'IXYZ':
                        meta = {'family': FAMILY, 'qnode': True, 'h_node': h_node, 'even_column': even,
                                'direction': direction, 'f': f, 'dist': [x.hex() for x in dist], 'kind': kind}
                        try:
                            impl = ser_node(tnc.create_q_node(dist, f, h_node, even, direction), D)
                        except ValueError:
                            impl = 'ValueError'
                        except Exception as ex:
                            impl = 'raised {}:{}'.format(type(ex).__name__, str(ex)[:60])
                        ctx.case('{} qnode {} {} {} {} {} {} {} {}'.format(
                            OP, int(h_node), int(even), direction or '-', f, *a), impl, nontrivial=True, meta=meta)
                        ctx.count('tn_code', 'rprmps-qnode')


def cases(ctx):
    from qecsim.models.rotatedplanar import RotatedPlanarCode, RotatedPlanarRMPSDecoder
    from qecsim import tensortools as tt
    P = _c10()
    rng = ctx.rng
    raw = P.raw_model_dists()
    qnode_cases(ctx, 1 if ctx.quick() else 3)
    items = []
    for size, n_items, spec in plan(ctx):
        code = RotatedPlanarCode(*size)
        n = code.n_k_d[0]
        for j in range(n_items):
            if j % 2 == 0:   # the decoder's own sample for a random syndrome (low weight half the time)
                i = rng.getrandbits(len(code.stabilizers))
                if j % 4 == 2:
                    i &= rng.getrandbits(len(code.stabilizers))
                syn = [(i >> k) & 1 for k in range(len(code.stabilizers))]
                f = [int(x) for x in RotatedPlanarRMPSDecoder.sample_recovery(code, np.array(syn, dtype=int)).to_bsf()]
                src = 'sample_recovery'
            else:            # any Pauli
                f = [rng.randrange(2) for _ in range(2 * n)]
                src = 'random'
            if j == 0 and size == (3, 3):
                kind, dist = raw[0]
            elif rng.random() < 0.15:
                kind, dist = raw[rng.randrange(len(raw))]
            else:
                kind = P.KINDS[rng.randrange(len(P.KINDS))]
                dist = P.make_dist(rng, kind, rng.choice(P.PS))
            items.append((size, code, f, src, kind, tuple(float(x) for x in dist), spec))
    # phase 1: the exact spec values, from the driver (Lean `cosetProb`)
    spec_lines = []
    for size, code, f, src, kind, dist, spec in items:
        a, D = P.numerators(dist)
        if spec == 'cosets':
            spec_lines.append('c10 cosets {} {} {} {} {} {} {}'.format(mat(code.stabilizers), mat(code.logicals),
                                                                      bits(f), *a))
        elif spec == 'tncoset':
            spec_lines.append('{} tncoset {} {} {} {} {} {} {}'.format(OP, size[0], size[1], bits(f), *a))
    spec_out = iter(ctx.driver.ask(spec_lines))
    # phase 2: the cases
    tnc = RotatedPlanarRMPSDecoder.TNC()
    for size, code, f, src, kind, dist, spec in items:
        a, D = P.numerators(dist)
        n = code.n_k_d[0]
        meta = {'family': FAMILY, 'size': list(size), 'sample': bits(f), 'dist': [x.hex() for x in dist],
                'kind': kind, 'sample_source': src}
        want = None
        if spec == 'cosets':
            want = next(spec_out).split()[0].split(',')
        elif spec == 'tncoset':
            want = [next(spec_out)]
        try:
            vs = variants(code, f)
        except Exception as ex:
            ctx.monitor_fail('RotatedPlanarPauli logical_x / logical_z raised ' + repr(ex)[:80], meta,
                             key='C10:rplanar-rmps-tn:variants')
            continue
        dec_vals = {}
        if spec == 'float':
            # the decoder's own evaluation (shared bra, inner product with the last column), both modes
            for mode in ('c', 'r'):
                try:
                    with core.TimeLimit(P.DECODE_LIMIT):
                        ps, _ = RotatedPlanarRMPSDecoder(mode=mode)._coset_probabilities(dist, vs[0].copy())
                    dec_vals[mode] = [P.to_fraction(p) for p in ps]
                except Exception as ex:
                    dec_vals[mode] = 'raised {}:{}'.format(type(ex).__name__, str(ex)[:60])
        for vi, sp in enumerate(vs):
            fv = bits(sp.to_bsf())
            vmeta = dict(meta, variant='IXYZ'[vi])
            real_vals = None
            try:
                tn = tnc.create_tn(dist, sp)
                impl = P.ser_real_tn(tn, D)
                if spec == 'float':
                    with core.TimeLimit(P.DECODE_LIMIT):
                        real_vals = (P.to_fraction(tt.mps2d.contract(tn)),
                                     P.to_fraction(tt.mps2d.contract(tt.mps2d.transpose(tn))))
            except Exception as ex:
                impl = 'raised {}:{}'.format(type(ex).__name__, str(ex)[:60])
            args = '{} {} {} {} {} {} {}'.format(size[0], size[1], fv, *a)
            ctx.case('{} tn {}'.format(OP, args), impl, nontrivial=True, meta=vmeta)
            ctx.extra['rprmps_tn_networks'] = ctx.extra.get('rprmps_tn_networks', 0) + 1
            ctx.count('tn_code', 'rprmps{}x{}'.format(*size)); ctx.count('tn_sample', 'rprmps-' + src)
            if vi == 0:
                ctx.case('{} tncompat {}'.format(OP, args), '1', nontrivial=True, meta=vmeta)
            for op in ('tnvalue', 'tnvaluer', 'tnvalued c', 'tnvalued r'):
                line = '{} {} {}'.format(OP, op, args)
                scalar = '' if op.startswith('tnvalued') else 's '
                if want is not None and vi < len(want):
                    # exact: contraction of the model network == cosetProb (both Lean, both integers over D^n)
                    ctx.case(line, 'ok ' + scalar + want[vi], nontrivial=True, meta=vmeta)
                elif spec == 'float' and (op in ('tnvalue', 'tnvalued r') or n <= 20):
                    if op.startswith('tnvalued'):
                        dv = dec_vals.get(op[-1])
                        rv = dv[vi] if isinstance(dv, list) else None
                    else:
                        rv = real_vals[0 if op == 'tnvalue' else 1] if real_vals else None

                    def post(reply, rv=rv, D=D, n=n, scalar=scalar):
                        toks = reply.split()
                        if toks[0] != 'ok' or (scalar and toks[1] != 's') or rv is None:
                            return 'model {} real {}'.format(reply[:40], rv)
                        exact = Fraction(int(toks[-1])) / Fraction(D) ** n
                        dev = abs(rv - exact)
                        return 'ok' if dev <= P.REL_TOL * exact or (exact == 0 and dev <= P.REL_TOL) else \
                            'real contraction {!r} differs from the model network value {:.17e}'.format(
                                float(rv), float(exact))
                    ctx.case(line, 'ok', nontrivial=True, meta=vmeta, post=post)
        if spec == 'cosets' and len(code.stabilizers) <= 15:
            # the spec on the model's own stabilizers (statement of the theorems) == the spec on the real matrices
            ctx.case('{} tncoset {} {} {} {} {} {} {}'.format(OP, size[0], size[1], bits(f), *a), want[0],
                     nontrivial=True, meta=meta)
    ctx.flush()


def evaluate_input(meta):
    """the property on the real code for a network case: `_coset_probabilities(dist, sample)` of the real
    RotatedPlanarRMPSDecoder (modes c and r) against the exact coset sums enumerated in Python; for a `create_q_node`
    case (no code / sample of its own) the smallest codes of both parities with a few fixed samples are tried"""
    from qecsim.models.rotatedplanar import RotatedPlanarCode, RotatedPlanarRMPSDecoder
    P = _c10()
    if 'size' not in meta:
        for size in [(3, 3), (3, 4), (4, 3), (4, 4)]:
            n = size[0] * size[1]
            for sample in ['0' * (2 * n), '1' + '0' * (2 * n - 1), '0' * n + '0' * (n - 1) + '1',
                           ('10' * n)[:n] + ('110' * n)[:n]]:
                r = evaluate_input(dict(meta, size=list(size), sample=sample))
                if r:
                    return r
        return None
    code = RotatedPlanarCode(*meta['size'])
    n = code.n_k_d[0]
    if len(code.stabilizers) > 19:
        return None
    dist = tuple(float.fromhex(x) for x in meta['dist'])
    f = np.array([int(c) for c in meta['sample']], dtype=int)
    a, D = P.numerators(dist)
    exact = [Fraction(x) / Fraction(D) ** n for x in P.python_exact(code, f, a)]
    for mode in ('c', 'r'):
        try:
            with core.TimeLimit(P.DECODE_LIMIT):
                ps, _ = RotatedPlanarRMPSDecoder(mode=mode)._coset_probabilities(dist, code.new_pauli(f))
        except Exception as ex:
            return {'what': 'RotatedPlanarRMPSDecoder(mode={})._coset_probabilities raised {!r}'.format(mode, ex)[:300],
                    'code': 'RotatedPlanarCode{}'.format(tuple(meta['size'])), 'sample_pauli_bsf': meta['sample'],
                    'prob_dist': list(dist)}
        for i, (p, e) in enumerate(zip(ps, exact)):
            pf = P.to_fraction(p)
            tol = P.REL_TOL * e if e > 0 else P.REL_TOL * (max(exact) if max(exact) else 1)
            if pf is None or abs(pf - e) > tol:
                return {'what': 'RotatedPlanarRMPSDecoder(mode={}, chi=None)._coset_probabilities: coset {} '
                                'probability {!r} differs from the exact coset sum {:.17e}'.format(
                                    mode, 'IXYZ'[i], p, float(e)),
                        'decoder': 'RotatedPlanarRMPSDecoder', 'mode': mode,
                        'code': 'RotatedPlanarCode{}'.format(tuple(meta['size'])),
                        'sample_pauli_bsf': meta['sample'], 'prob_dist': list(dist),
                        'real_coset_probabilities': [float(x) for x in ps],
                        'exact_coset_probabilities_IXYZ': [float(x) for x in exact]}
    return None


def search(m):
    meta = m.get('meta')
    if not meta or meta.get('family') != FAMILY:
        return None
    return evaluate_input(meta)


def _main():
    """standalone run (no evidence written): queue the cases, flush, report mismatches and — as `finish` would —
    the first failing input of the property found by `search`"""
    import logging
    import time
    logging.getLogger('qecsim').setLevel(logging.CRITICAL)
    logging.disable(logging.WARNING)
    tier = sys.argv[1] if len(sys.argv) > 1 else 'quick'
    seed = int(os.environ.get('VERIF_SEED', '0') or 0)
    core.assert_repo_binding()
    ctx = core.Ctx('C10', tier, seed)
    t0 = time.time()
    cases(ctx)
    ctx.flush()
    mis = [x for x in ctx.mismatches if x]
    if mis or ctx.counterexamples:
        found = None
        for m in mis[:50]:
            found = search(m)
            if found:
                break
        print('MISMATCHES {} monitor {}'.format(len(ctx.mismatches), len(ctx.counterexamples)))
        if mis:
            m = mis[0]
            print(' first: op={} ...\n   impl ={}\n   model={}\n   meta={}'.format(
                m['op'][:120], m['impl'][:300], m['model'][:300], m['meta']))
        print(' failing input of the property:', found)
        return 1
    print('OK c10_rprmps tier={} seed={} evaluations={} distinct={} networks={} codes={} wall={:.1f}s'.format(
        tier, seed, ctx.evaluations, len(ctx.distinct), ctx.extra.get('rprmps_tn_networks'),
        dict(ctx.hist['tn_code']), time.time() - t0))
    return 0


if __name__ == '__main__':
    sys.exit(_main())
