/*
 * STAND-IN for Blossom V's Python-wrapper library `libpypm.so` (property C13 of /verif).
 *
 * Blossom V (V. Kolmogorov) may not be redistributed and is absent from this sandbox; qecsim loads it as
 * $QECSIM_CFG/clib/libpypm.so (qecsim.util.load_clib) and talks to it through exactly two C symbols
 * (qecsim/graphtools/blossom5.py, _libpypm):
 *
 *     int  infty(void);
 *     void mwpm(int n_nodes, int *mates, int n_edges, int *nodes_a, int *nodes_b, int *weights);
 *
 * This file implements the same interface with an EXACT minimum-weight perfect matching of the int-weighted
 * multigraph it is handed (bitmask dynamic programme over node subsets, 64-bit sums, n_nodes <= QV_MAXN), so that
 * everything qecsim does before and after the C call (backend choice, weight_to_int_fn scaling, node <-> id mapping,
 * ctypes arrays, mates set) can be executed and judged.  Blossom V itself stays outside /repo and unverified.
 *
 * infty(): Blossom V's integer build uses a fixed fraction of INT_MAX as "infinity"; the harness compiles this file
 * with -DQV_INFTY=<value> (default 1 << 30, a second variant uses 1000 so that the documented threshold infty/10 is
 * met by ordinary small integers).
 *
 * Tie-breaking is a deterministic function of the arrays: nodes are matched in increasing id order, the first edge
 * (in input order) that reaches a subset with the smallest sum wins.
 * Robustness: never reads outside nodes_a/nodes_b/weights[0..n_edges) nor writes outside mates[0..n_nodes); edges with
 * an endpoint outside [0, n_nodes) and self loops are ignored; when no perfect matching exists, n_nodes is odd or
 * n_nodes > QV_MAXN every mates[i] is set to -1.
 *
 * Trace (used to tie the Lean model of the wrapper, Model/Blossom5.lean, to the real wrapper): when the environment
 * variable QV_PYPM_TRACE names a file, every call of mwpm appends ONE line to it after the answer is in place:
 *     <n_nodes> <n_edges>|<nodes_a ...>|<nodes_b ...>|<weights ...>|<mates ...>
 * (space separated ints; exactly what arrived through the C ABI and what is left in mates[0..n_nodes)).
 */
#include <stdio.h>
#include <stdlib.h>
#include <limits.h>

#ifndef QV_INFTY
#define QV_INFTY (1 << 30)
#endif
#define QV_MAXN 20

int infty(void) { return QV_INFTY; }

static void qv_mwpm(int n_nodes, int *mates, int n_edges, int *nodes_a, int *nodes_b, int *weights) {
    int i, e, ok;
    size_t s, full, n_states;
    long long *best;
    int *via, *tmp;
    if (n_nodes <= 0) return;
    for (i = 0; i < n_nodes; i++) mates[i] = -1;
    if (n_nodes > QV_MAXN || (n_nodes & 1) || n_edges <= 0) return;
    full = ((size_t)1 << n_nodes) - 1;
    n_states = full + 1;
    best = (long long *)malloc(sizeof(long long) * n_states);
    via = (int *)malloc(sizeof(int) * n_states);
    tmp = (int *)malloc(sizeof(int) * (size_t)n_nodes);
    if (!best || !via || !tmp) { free(best); free(via); free(tmp); return; }
    for (s = 0; s < n_states; s++) { best[s] = LLONG_MAX; via[s] = -1; }
    best[0] = 0;
    for (s = 0; s < full; s++) {
        if (best[s] == LLONG_MAX) continue;
        for (i = 0; i < n_nodes; i++) if (!((s >> i) & 1)) break;      /* lowest unmatched node */
        for (e = 0; e < n_edges; e++) {
            int a = nodes_a[e], b = nodes_b[e];
            size_t t;
            long long cand;
            if (a < 0 || b < 0 || a >= n_nodes || b >= n_nodes || a == b) continue;
            if (a != i && b != i) continue;
            if (((s >> a) & 1) || ((s >> b) & 1)) continue;
            t = s | ((size_t)1 << a) | ((size_t)1 << b);
            cand = best[s] + (long long)weights[e];
            if (cand < best[t]) { best[t] = cand; via[t] = e; }
        }
    }
    for (i = 0; i < n_nodes; i++) tmp[i] = -1;
    s = full; ok = 1;
    while (s) {
        int a, b;
        e = via[s];
        if (e < 0) { ok = 0; break; }
        a = nodes_a[e]; b = nodes_b[e];
        tmp[a] = b; tmp[b] = a;
        s &= ~(((size_t)1 << a) | ((size_t)1 << b));
    }
    if (ok) for (i = 0; i < n_nodes; i++) mates[i] = tmp[i];
    free(best); free(via); free(tmp);
}

static void qv_ints(FILE *f, const int *v, int n) {
    int i;
    for (i = 0; i < n; i++) fprintf(f, i ? " %d" : "%d", v[i]);
}

void mwpm(int n_nodes, int *mates, int n_edges, int *nodes_a, int *nodes_b, int *weights) {
    const char *path;
    FILE *f;
    qv_mwpm(n_nodes, mates, n_edges, nodes_a, nodes_b, weights);
    path = getenv("QV_PYPM_TRACE");
    if (!path || !*path) return;
    f = fopen(path, "a");
    if (!f) return;
    fprintf(f, "%d %d|", n_nodes, n_edges);
    qv_ints(f, nodes_a, n_edges > 0 ? n_edges : 0); fputc('|', f);
    qv_ints(f, nodes_b, n_edges > 0 ? n_edges : 0); fputc('|', f);
    qv_ints(f, weights, n_edges > 0 ? n_edges : 0); fputc('|', f);
    qv_ints(f, mates, n_nodes > 0 ? n_nodes : 0); fputc('\n', f);
    fclose(f);
}
