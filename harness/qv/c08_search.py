"""C08 helpers: GF(2) linear algebra on Python-int bitsets, a basis of N(S)/span(S) computed from the stabilizers
alone, and an independent (numpy, level-by-level) exhaustive search for light non-trivial logical operators.

Nothing here uses the Lean model; it is the independent oracle of property C08 ("minimum weight of a Pauli that
commutes with all stabilizers yet is not a product of stabilizers")."""
import math

import numpy as np


# ------------------------------------------------------------------------------------------ GF(2) on int bitsets

def to_int(row):
    v = 0
    for i, b in enumerate(row):
        if int(b) & 1:
            v |= 1 << i
    return v


def from_int(v, n):
    return [(v >> i) & 1 for i in range(n)]


class Span:
    """incremental row space (reduced echelon on lowest set bit)"""

    def __init__(self, rows=()):
        self.piv = {}  # lowest-bit position -> vector
        for r in rows:
            self.add(r)

    def reduce(self, v):
        while v:
            p = (v & -v).bit_length() - 1
            b = self.piv.get(p)
            if b is None:
                return v
            v ^= b
        return 0

    def add(self, v):
        v = self.reduce(v)
        if v:
            self.piv[(v & -v).bit_length() - 1] = v
            return True
        return False

    def contains(self, v):
        return self.reduce(v) == 0

    @property
    def rank(self):
        return len(self.piv)


def nullspace(rows, ncols):
    """basis (ints over ncols bits) of {x : parity(x & r) = 0 for every r in rows}"""
    # eliminate on the transposed system: track for every unit vector its image
    # standard approach: row-reduce `rows`, free columns give basis vectors
    piv_rows = {}  # pivot col -> row (fully reduced)
    for r in rows:
        for p, b in piv_rows.items():
            if (r >> p) & 1:
                r ^= b
        if r:
            p = (r & -r).bit_length() - 1
            for q in list(piv_rows):
                if (piv_rows[q] >> p) & 1:
                    piv_rows[q] ^= r
            piv_rows[p] = r
    basis = []
    for f in range(ncols):
        if f in piv_rows:
            continue
        x = 1 << f
        for p, b in piv_rows.items():
            if (b >> f) & 1:
                x |= 1 << p
        basis.append(x)
    return basis


def parity(v):
    return bin(v).count('1') & 1


def sym(a, b, n):
    """symplectic product of two bsf ints (x bits 0..n-1, z bits n..2n-1)"""
    m = (1 << n) - 1
    return parity(((a >> n) & b & m) ^ (a & m & (b >> n)))


def swap_halves(v, n):
    m = (1 << n) - 1
    return ((v & m) << n) | (v >> n)


def wt(v, n):
    m = (1 << n) - 1
    return bin((v | (v >> n)) & m).count('1')


def normaliser_quotient(S, n, css=True):
    """rows (ints) that, together with span S, span N(S); computed from S alone.
    With css=True every returned row is X-only or Z-only (requires S to be CSS)."""
    span = Span(S)
    out = []
    if css:
        m = (1 << n) - 1
        zh = [s >> n for s in S]
        xh = [s & m for s in S]
        for a in nullspace(zh, n):       # X-only (a|0) commutes with S iff a . z(s) = 0 for all s
            if span.add(a):
                out.append(a)
        for a in nullspace(xh, n):
            if span.add(a << n):
                out.append(a << n)
    else:
        for v in nullspace([swap_halves(s, n) for s in S], 2 * n):
            if span.add(v):
                out.append(v)
    return out


def is_nontrivial_logical(S, e, n):
    """the property's own notion: commutes with every stabilizer and is not in span S"""
    return all(sym(e, s, n) == 0 for s in S) and not Span(S).contains(e)


# ------------------------------------------------------------------------------------------ independent search

def count_ops(n, d, css=True):
    if css:
        return 2 * sum(math.comb(n, w) for w in range(d))
    return sum(math.comb(n, w) * 3 ** w for w in range(d))


def _search_one_type(cols, nstab, n, d, stored_cap):
    """cols[q] = syndrome word of the single-qubit operator on q (low nstab bits: stabilizers, above: logicals).
    Returns (qubit subset of size < d with zero stabilizer part and non-zero logical part | None, #evaluated).
    Level w is built from level w-1; entries of a level are grouped by their largest qubit (ascending), so the
    entries extendable by q form a prefix: prefix[q] = number of entries whose largest qubit is < q.  The group of
    largest qubit q in the next level is (previous level)[:prefix[q]] ^ cols[q], which also gives parent pointers
    for free (parent = index - start of group).  The last level is streamed, not stored."""
    smask = np.uint64((1 << nstab) - 1)
    sh = np.uint64(nstab)
    cols = np.array(cols, dtype=np.uint64)
    levels = [(np.zeros(1, dtype=np.uint64), np.ones(n + 1, dtype=np.int64))]
    evaluated = 1
    for w in range(1, d):
        syn, prefix = levels[-1]
        final = (w == d - 1)
        starts = np.concatenate(([0], np.cumsum(prefix[:n]))).astype(np.int64)   # start of group q in level w
        total = int(starts[n])
        if not final:
            if total > stored_cap:
                raise MemoryError('level too large to store')
            nxt = np.empty(total, dtype=np.uint64)
        for q in range(n):
            m = int(prefix[q])
            if m == 0:
                continue
            s = syn[:m] ^ cols[q]
            evaluated += m
            hit = ((s & smask) == 0) & ((s >> sh) != 0)
            if hit.any():
                i = int(np.flatnonzero(hit)[0])
                qs = [q]
                lvl = len(levels) - 1
                while lvl > 0:
                    st = levels[lvl][1]
                    l = int(np.searchsorted(st, i, side='right')) - 1
                    qs.append(l)
                    i -= int(st[l])
                    lvl -= 1
                return sorted(qs), evaluated
            if not final:
                nxt[int(starts[q]):int(starts[q]) + m] = s
        if final:
            break
        levels.append((nxt, starts))
    return None, evaluated


def py_search_css(S, L, n, d, stored_cap=8 * 10 ** 7):
    """exhaustive search over X-only and Z-only operators of weight < d for one that commutes with all of S and
    anticommutes with some row of L (ints).  Returns (operator int | None, number of operators evaluated)."""
    total = 0
    for typ in ('X', 'Z'):
        def col(q):
            g = (1 << q) if typ == 'X' else (1 << (n + q))
            return [sym(g, r, n) for r in S], [sym(g, r, n) for r in L]
        raw = [col(q) for q in range(n)]
        keep_s = [i for i in range(len(S)) if any(raw[q][0][i] for q in range(n))]
        keep_l = [i for i in range(len(L)) if any(raw[q][1][i] for q in range(n))]
        if not keep_l:
            total += count_ops(n, d) // 2
            continue
        if len(keep_s) + len(keep_l) > 63:
            raise MemoryError('syndrome does not fit one word')
        cols = []
        for q in range(n):
            v = 0
            for j, i in enumerate(keep_s):
                v |= raw[q][0][i] << j
            for j, i in enumerate(keep_l):
                v |= raw[q][1][i] << (len(keep_s) + j)
            cols.append(v)
        qs, ev = _search_one_type(cols, len(keep_s), n, d, stored_cap)
        total += ev
        if qs is not None:
            e = 0
            for q in qs:
                e |= (1 << q) if typ == 'X' else (1 << (n + q))
            return e, total
    return None, total


def py_search_any(S, L, n, d):
    """all Paulis of weight < d (small codes only), plain Python"""
    import itertools
    total = 0
    for w in range(d):
        for qs in itertools.combinations(range(n), w):
            for ops in itertools.product((1, 2, 3), repeat=w):
                e = 0
                for q, o in zip(qs, ops):
                    if o & 1:
                        e |= 1 << q
                    if o & 2:
                        e |= 1 << (n + q)
                total += 1
                if all(sym(e, s, n) == 0 for s in S) and any(sym(e, l, n) for l in L):
                    return e, total
    return None, total
