"""C07 strengthening (round 3) — SIZE as an input class beyond the exhaustive bound, cheap structural facts only.

The per-size structural cases (qv/families/*.py) and the read-back / history layer (qv/c07_access.py) compare full
matrices with the Lean model and compute dense GF(2) ranks, so they stop at a small size bound.  A defect that needs a
LARGE lattice (a tabulated formula with a wrong fallback, an integer overflow, a float formula that loses exactness)
is out of their reach.  This layer visits, for every family, sizes well past that bound — colour codes up to 31 (45
thorough), square lattices up to 20x20 (30x30), rectangles, and long strips in both orientations — and evaluates on the
REAL code only facts that cost O(n) (times a small degree):

* n_k_d against the independently stated formula of the family and the Lean `nkd`;
* the lattice-index <-> qubit map: every in-lattice site, taken in the documented enumeration order (c07_access.Fam.sites,
  stated independently of qecsim), is written with `site('X', s)` on a fresh Pauli; exactly one X bit must be set, two
  sites never share a qubit, every qubit in range(n) is used (BIJECTION — the property's own clause), the bit is the
  one at the documented position, `operator(s)` reads the write back, and the position equals the Lean model's `flat`
  (proved injective / onto for all sizes);
* plaquette count against the formula and the plaquette index list against the Lean `plaqidx`;
* every stabilizer row is pure X or pure Z and has a documented weight, with the documented number of rows of each
  (type, weight);
* SPARSE commutation, exact: two Pauli rows can only anticommute when they share a qubit, so every row (stabilizers,
  then logical Xs, then logical Zs) is tested against the rows it shares a qubit with — stabilizers commute with each
  other and with the logicals, logical X_i anticommutes with logical Z_j exactly when i = j.  No dense product, no rank.

Every access to the code goes through families/common.published (guarded: an exception is the failure 'constructible
code … raises …'), every later call into qecsim is guarded the same way.
"""
import collections
import sys

import numpy as np

from qv import c07_access as A
from qv.families import common


# ------------------------------------------------------------------------------------------------ size classes

def _rect(lo, hi, step, rng, k):
    legal = list(range(lo, hi + 1, step))
    return [(rng.choice(legal), rng.choice(legal)) for _ in range(k)]


def large_sizes(fam, tier, rng):
    """sizes past the exhaustive bound of the family: squares, random rectangles, long strips (both orientations)"""
    q = tier == 'quick'
    if fam.name == 'color666':
        return [(s,) for s in range(11, (31 if q else 45) + 1, 2)]
    lo = {'planar': 2, 'toric': 2, 'rotatedplanar': 3, 'rotatedtoric': 2}[fam.name]
    step = 2 if fam.name == 'rotatedtoric' else 1
    top = 20 if q else 30
    start = {'planar': 6, 'toric': 6, 'rotatedplanar': 7, 'rotatedtoric': 8}[fam.name]
    out = [(s, s) for s in range(start, top + 1, step)]
    out += [s for s in _rect(lo, top, step, rng, 6 if q else 16) if max(s) >= start]
    out += [(top, start + step), (start + step, top), (top - step, top), (top, top - step)]
    longs = [40, 41 if step == 1 else 42] + ([] if q else [80, 81 if step == 1 else 82])
    for l in longs:
        for narrow in (lo, lo + step):
            out += [(l, narrow), (narrow, l)]
    seen, uniq = set(), []
    for s in out:
        if s not in seen:
            seen.add(s); uniq.append(s)
    return uniq


# ------------------------------------------------------------------------------------------------ documented parameters

def expected(fam, size):
    """independent statement of (n, k, d), number of plaquette indices, number of stabilizer rows and the multiset of
    (X weight, Z weight) of the stabilizer rows"""
    W = collections.Counter()
    if fam.name == 'color666':
        L = size[0]
        n = (3 * L * L + 1) // 4
        P = (n - 1) // 2
        four = 3 * (L - 1) // 2
        W[(4, 0)] = W[(0, 4)] = four
        W[(6, 0)] = W[(0, 6)] = P - four
        return (n, 1, L), P, 2 * P, +W
    R, C = size
    if fam.name == 'planar':
        n = R * C + (R - 1) * (C - 1)
        W[(3, 0)] = 2 * (C - 1); W[(4, 0)] = R * (C - 1) - 2 * (C - 1)
        W[(0, 3)] = 2 * (R - 1); W[(0, 4)] = (R - 1) * C - 2 * (R - 1)
        return (n, 1, min(R, C)), n - 1, n - 1, +W
    if fam.name == 'rotatedplanar':
        n = R * C
        return (n, 1, min(R, C)), n - 1, n - 1, {4: (R - 1) * (C - 1), 2: R + C - 2}
    if fam.name == 'toric':
        n = 2 * R * C
        W[(4, 0)] = W[(0, 4)] = R * C
        return (n, 2, min(R, C)), n, n, +W
    if fam.name == 'rotatedtoric':
        n = R * C
        W[(4, 0)] = W[(0, 4)] = n // 2
        return (n, 2, min(R, C)), n, n, +W
    raise ValueError(fam.name)


def wire_size(size):
    return ' '.join(str(int(s)) for s in size)


def wire_idx(i):
    return ','.join(str(int(x)) for x in i)


# ------------------------------------------------------------------------------------------------ sparse commutation

def supports(M, n):
    M = np.asarray(M)
    return [(np.flatnonzero(r[:n]).tolist(), np.flatnonzero(r[n:2 * n]).tolist()) for r in M]


def odd_pairs(rows):
    """all pairs (a < b) of rows with symplectic product 1, found through shared qubits only"""
    byx, byz = collections.defaultdict(list), collections.defaultdict(list)
    for a, (xs, zs) in enumerate(rows):
        for q in xs:
            byx[q].append(a)
        for q in zs:
            byz[q].append(a)
    out = []
    for a, (xs, zs) in enumerate(rows):
        cnt = collections.Counter()
        for q in xs:
            for b in byz.get(q, ()):
                if b > a:
                    cnt[b] += 1
        for q in zs:
            for b in byx.get(q, ()):
                if b > a:
                    cnt[b] += 1
        out += [(a, b) for b, v in cnt.items() if v % 2]
    return sorted(out)


# ------------------------------------------------------------------------------------------------ one size

def one_size(ctx, mon, fam, cls, size):
    tag = fam.tag(size)
    pub = common.published(ctx, fam.name, size, lambda: cls(*size))
    if pub.code is None or 'n_k_d' in pub.failed:
        return
    code = pub.code
    base = {'family': fam.name, 'size': [int(s) for s in size], 'code': tag}
    (n, k, d), n_plaq, n_rows, weights = expected(fam, size)
    nkd = tuple(int(x) for x in code.n_k_d)
    ctx.case('{} nkd {}'.format(fam.name, wire_size(size)), '{} {} {}'.format(*nkd), meta={'tag': tag, 'part': 'large'})
    if nkd != (n, k, d):
        mon.fail(fam.name, 'large-nkd', 'n_k_d of {} differs from the documented parameters'.format(tag),
                 dict(base, n_k_d=list(nkd), documented=[n, k, d]))
        return
    # ---- lattice-index <-> qubit map
    sites = fam.sites(size)
    if len(sites) != n:
        raise AssertionError('harness: site enumeration of {} has {} sites for n = {}'.format(tag, len(sites), n))
    owner = {}
    for pos, s in enumerate(sites):
        p = code.new_pauli().site('X', s)
        v = np.asarray(p.to_bsf())
        nz = np.flatnonzero(v)
        if v.shape != (2 * n,) or len(nz) != 1 or nz[0] >= n:
            mon.fail(fam.name, 'large-site', 'site("X", s) on a fresh Pauli of {} does not set exactly one X bit'.format(tag),
                     dict(base, site=list(s), bits_set=[int(x) for x in nz[:8]], bsf_length=int(v.size)))
            continue
        q = int(nz[0])
        ctx.case('{} flat {} {}'.format(fam.name, wire_size(size), wire_idx(s)), str(q), meta={'tag': tag, 'part': 'large'})
        if q in owner:
            mon.fail(fam.name, 'large-bijection',
                     'the lattice-index <-> qubit map of {} is not a bijection: two sites share a qubit'.format(tag),
                     dict(base, site_a=list(owner[q]), site_b=list(s), qubit=q,
                          how='new_pauli().site("X", site).to_bsf() has its single bit at `qubit` for both sites'))
            continue
        owner[q] = s
        if q != pos:
            mon.fail(fam.name, 'large-position', 'site() does not toggle the bit at the flattened index (position of the '
                     'site in the documented enumeration order) in {}'.format(tag), dict(base, site=list(s), qubit=q,
                                                                                        documented=pos))
        got = A.read(p, s)
        if got != 'X':
            mon.fail(fam.name, 'large-read', 'operator(s) does not read back the X written with site("X", s) in ' + tag,
                     dict(base, site=list(s), read=got))
    unused = sorted(set(range(n)) - set(owner))
    if unused:
        mon.fail(fam.name, 'large-onto', 'the lattice-index <-> qubit map of {} is not onto range(n): some qubits belong to '
                 'no site'.format(tag), dict(base, n=n, unused_qubits=unused[:8]))
    # ---- plaquettes, stabilizer rows
    plaqs = fam.plaquettes(code)
    ctx.case('{} plaqidx {}'.format(fam.name, wire_size(size)), ';'.join(wire_idx(i) for i in plaqs) or '_',
             meta={'tag': tag, 'part': 'large'})
    if len(plaqs) != n_plaq or len(set(plaqs)) != len(plaqs):
        mon.fail(fam.name, 'large-plaq', 'number of (distinct) plaquette indices of {} differs from the documented '
                 'count'.format(tag), dict(base, plaquettes=len(plaqs), distinct=len(set(plaqs)), documented=n_plaq))
    if not pub.ok:
        return
    S = np.atleast_2d(np.asarray(code.stabilizers))
    Lx, Lz = np.atleast_2d(np.asarray(code.logical_xs)), np.atleast_2d(np.asarray(code.logical_zs))
    if S.shape != (n_rows, 2 * n) or Lx.shape != (k, 2 * n) or Lz.shape != (k, 2 * n):
        mon.fail(fam.name, 'large-shape', 'n and k of {} disagree with the matrix shapes'.format(tag),
                 dict(base, stabilizers=list(S.shape), logical_xs=list(Lx.shape), logical_zs=list(Lz.shape),
                      documented=[[n_rows, 2 * n], [k, 2 * n], [k, 2 * n]]))
        return
    rows = supports(S, n)
    got_w = collections.Counter()
    for a, (xs, zs) in enumerate(rows):
        if (xs and zs) or not (xs or zs):
            mon.fail(fam.name, 'large-mixed', 'a stabilizer row of {} is not a pure X or pure Z plaquette operator'.format(tag),
                     dict(base, row=a, x_qubits=xs[:8], z_qubits=zs[:8]))
        got_w[(len(xs), len(zs))] += 1
    if fam.name == 'rotatedplanar':     # documented per weight (which boundary carries X / Z depends on the parities)
        merged = collections.Counter()
        for (wx, wz), c in got_w.items():
            merged[wx + wz] += c
        got_w = merged
    if dict(got_w) != dict(weights):
        mon.fail(fam.name, 'large-weight', 'the stabilizer rows of {} do not have the documented weights'.format(tag),
                 dict(base, rows_per_weight={str(w): c for w, c in sorted(got_w.items(), key=str)},
                      documented={str(w): c for w, c in sorted(dict(weights).items(), key=str)}))
    # ---- sparse exact commutation: stabilizers, logical Xs, logical Zs
    allrows = rows + supports(Lx, n) + supports(Lz, n)
    want_odd = {(n_rows + i, n_rows + k + i) for i in range(k)}
    odd = set(odd_pairs(allrows))

    def name(a):
        if a < n_rows:
            return 'stabilizer {}'.format(a)
        return 'logical X{}'.format(a - n_rows) if a < n_rows + k else 'logical Z{}'.format(a - n_rows - k)
    for a, b in sorted(odd - want_odd)[:2]:
        what = 'stabilizers do not mutually commute' if b < n_rows else (
            'stabilizers do not commute with logicals' if a < n_rows else 'logical pairing is not canonical')
        mon.fail(fam.name, 'large-commute:' + what, '{} in {}'.format(what, tag),
                 dict(base, row_a=name(a), row_b=name(b), symplectic_product=1,
                      a_x_qubits=allrows[a][0], a_z_qubits=allrows[a][1],
                      b_x_qubits=allrows[b][0], b_z_qubits=allrows[b][1]))
    for a, b in sorted(want_odd - odd)[:2]:
        mon.fail(fam.name, 'large-pairing', 'logical pairing is not canonical in {}: X_i and Z_i commute'.format(tag),
                 dict(base, row_a=name(a), row_b=name(b), symplectic_product=0))
    ctx.count('c07_large_size', tag)


def run(ctx, mon, only=None):
    for fam in A.FAMS:
        if only and fam.name not in only:
            continue
        cls = fam.load()
        grid = large_sizes(fam, ctx.tier, ctx.rng)
        for size in grid:
            try:
                one_size(ctx, mon, fam, cls, size)
            except Exception as ex:
                tb = sys.exc_info()[2]
                if not common.from_qecsim(tb):
                    raise
                line, inner = common.where_raised(tb)
                common.report_raises(ctx, fam.name, size, line or 'large-size structural facts', ex, tb=tb)
            A.clear_caches(cls)
        ctx.extra.setdefault('c07_large_sizes', {})[fam.name] = {
            'sizes': len(grid), 'max_qubits': max(expected(fam, s)[0][0] for s in grid),
            'largest': 'x'.join(str(x) for x in max(grid, key=lambda s: expected(fam, s)[0][0]))}
