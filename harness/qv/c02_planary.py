"""C02 / C10 helper — the internals of `PlanarYDecoder` against Model/PlanarY.lean (driver ops `planary …`).

`cases(ctx, sizes=None)` calls, from outside and without editing /repo, the class methods the real decoder exposes
(`_snake_fill`, `_snake`, `_partial_recovery`, `_destabilizer`, `_residual_syndrome_to_recovery_map`,
`_sample_recovery`, `_y_stabilizers`, `_y_logical`, and `decode` away from ties) on `PlanarCode(R, C)` and queues one
correspondence case per call; the model reply must be identical bit for bit:

  snakefill    `_snake_fill(code, idx, down)`          every in-bounds site index, both directions, + out-of-bounds starts
  snake        `_snake(code, idx, se, full, skip)`     every in-bounds site index (thorough) / boundary + sampled sites
  partial      `_partial_recovery(code, p)`            every plaquette + one out-of-bounds index
  destab       `_destabilizer(code, p)`                every plaquette (ValueError on non-co-prime codes is compared too)
  residualmap  `_residual_syndrome_to_recovery_map`    the WHOLE dict in insertion order (keys and values unpacked)
  ystabs       `_y_stabilizers(code)` (row order kept), ylogical `_y_logical(code)`
  sample       `_sample_recovery(code, syndrome)`      syndromes of Y-only errors: all of them when n <= 8, else every
                                                       weight 0..6 (k per weight) and random heavier ones up to n
  decode       `decode(code, syndrome, BitPhaseFlip, p)` with exact arithmetic in the model (`tie` never compared)

Direct monitors (independent of the model; keys `PlanarY.<what>`): synd(sample recovery) == syndrome and the recovery
is Y-only; a `_destabilizer` anticommutes with exactly its plaquette; a `_partial_recovery` anticommutes with its
plaquette and otherwise only with plaquettes of the last row (R >= C) / last column (R < C); every `_y_stabilizers`
row is Y-only and commutes with all stabilizers and both logicals, the rows are pairwise distinct and 2^(gcd-1) many;
`_y_logical` is Y-only, commutes with the stabilizers and anticommutes with a logical; the residual map's values
reproduce their keys.

Sizes: thorough = all 2 <= R, C <= 8 plus 6x9, 9x6, 8x10, 10x8, 8x12; quick = 4x6, 6x4, 8x10 (fixed: gcd not in
{1, R, C}, the only shapes where the look-up table is consulted) + 2x2 + a seed-rotated choice of 13 more shapes.

Standalone:  QV_LEAN_DIR=… /venv/bin/python -m qv.c02_planary [--seed N] [--tier quick|thorough]   (cwd = harness)
"""
import itertools
import math

import numpy as np

from qv import core
from qv.core import bits, mat

TL = 300
EXTRA = [(6, 9), (9, 6), (8, 10), (10, 8), (8, 12)]
FIXED_QUICK = [(4, 6), (6, 4), (8, 10), (2, 2)]


def synd(S, v):
    n = S.shape[1] // 2
    v = np.asarray(v, dtype=int)
    return (S[:, :n] @ v[n:] + S[:, n:] @ v[:n]) % 2


def yonly(v, n):
    return bool(np.array_equal(v[:n], v[n:]))


def yerr(n, support):
    e = np.zeros(2 * n, dtype=int)
    for q in support:
        e[q] = 1
        e[n + q] = 1
    return e


def pick_sizes(ctx):
    allsz = [(r, c) for r in range(2, 9) for c in range(2, 9)]
    if not ctx.quick():
        return allsz + EXTRA
    rest = [s for s in allsz + EXTRA[:2] if s not in FIXED_QUICK]
    ctx.rng.shuffle(rest)
    # always some co-prime, some multiple, some constant-gcd shapes
    cop = [s for s in rest if math.gcd(*s) == 1][:6]
    mul = [s for s in rest if max(s) % min(s) == 0][:3]
    oth = [s for s in rest if math.gcd(*s) != 1 and max(s) % min(s) != 0][:4]
    return FIXED_QUICK + cop + mul + oth


def call(fn, *a, **k):
    """result as wire string: bits, matrix or exception class name"""
    try:
        with core.TimeLimit(TL):
            r = fn(*a, **k)
    except core.TimeLimit.Expired:
        return 'timeout', None
    except Exception as ex:  # noqa: BLE001
        return type(ex).__name__, None
    r = np.asarray(r, dtype=int)
    return (bits(r) if r.ndim == 1 else mat(r)), r


def cases(ctx, sizes=None):
    """queue the correspondence cases; returns a dict of counters"""
    from qecsim import paulitools as pt
    from qecsim.models.generic import BitPhaseFlipErrorModel
    from qecsim.models.planar import PlanarCode, PlanarYDecoder as D
    import random as pyrandom
    rng = ctx.rng
    quick = ctx.quick()
    acc = {'sizes': 0, 'ops': 0, 'samples': 0, 'residual_used': 0, 'decodes': 0, 'monitor': 0, 'map_entries': 0}
    sizes = sizes if sizes is not None else pick_sizes(ctx)

    def fail(what, info, key):
        acc['monitor'] += 1
        ctx.monitor_fail(what, dict(info, decoder='PlanarY'), key='PlanarY.' + key)

    for (R, C) in sizes:
        acc['sizes'] += 1
        ctx.count('planary.size', '{}x{}'.format(R, C))
        code = PlanarCode(R, C)
        S = np.array(code.stabilizers, dtype=int)
        L = np.array(code.logicals, dtype=int)
        n = S.shape[1] // 2
        plaqs = [tuple(int(x) for x in p) for p in code._plaquette_indices]
        pidx = {p: i for i, p in enumerate(plaqs)}
        maxr, maxc = code.bounds
        sites = [(r, c) for r in range(maxr + 1) for c in range(maxc + 1) if (r + c) % 2 == 0]
        big = R * C > 30
        info = {'size': [R, C]}
        hd = 'planary {} {} '.format(R, C)

        # ---- snake fills
        starts = sites if not (quick and big) else (
            [s for s in sites if s[0] in (0, 1, maxr) or s[1] in (0, 1, maxc)] + rng.sample(sites, 12))
        oob = [(-1, 1), (maxr + 1, 1), (0, maxc + 2), (maxr + 2, maxc + 2), (1, -1)]
        for idx in starts + oob:
            for down in (True, False):
                w, _ = call(D._snake_fill, code, idx, down=down)
                ctx.case(hd.replace('planary', 'planary snakefill', 1) + '{},{} {}'.format(idx[0], idx[1], int(down)), w,
                         meta=dict(info, op='snakefill', idx=list(idx), down=down))
                acc['ops'] += 1
        # ---- snakes
        sn = sites if not quick else (
            [s for s in sites if s[0] in (0, maxr) or s[1] in (0, maxc)][:: (3 if big else 1)] + rng.sample(sites, min(8, len(sites))))
        for idx in sn + oob[:2]:
            for se, full, skip in ((True, True, False), (False, False, False), (False, False, True), (True, False, True),
                                   (False, True, False)):
                w, _ = call(D._snake, code, idx, se=se, full=full, skip_first=skip)
                ctx.case(hd.replace('planary', 'planary snake', 1) + '{},{} {} {} {}'.format(
                    idx[0], idx[1], int(se), int(full), int(skip)), w,
                    meta=dict(info, op='snake', idx=list(idx), se=se, full=full, skip=skip))
                acc['ops'] += 1
        # ---- partial recoveries / destabilizers, with their direct monitors
        cop = math.gcd(R, C) == 1
        for p in plaqs + [(maxr + 1, 0), (-1, 0)]:
            w, v = call(D._partial_recovery, code, p)
            ctx.case(hd.replace('planary', 'planary partial', 1) + '{},{}'.format(*p), w,
                     meta=dict(info, op='partial', idx=list(p)))
            acc['ops'] += 1
            if v is not None and p in pidx:
                sy = synd(S, v)
                started = (p[1] + 1 <= maxc) if R < C else (p[0] + 1 <= maxr)
                bad = [plaqs[i] for i in np.flatnonzero(sy) if plaqs[i] != p and
                       (plaqs[i][1] != maxc if R < C else plaqs[i][0] != maxr)]
                if bad or (started and not sy[pidx[p]]) or not yonly(v, n):
                    fail('partial recovery does not trigger its plaquette + boundary only', dict(info, plaquette=list(p)),
                         'partial:syndrome')
            w, v = call(D._destabilizer, code, p)
            ctx.case(hd.replace('planary', 'planary destab', 1) + '{},{}'.format(*p), w,
                     meta=dict(info, op='destab', idx=list(p)))
            acc['ops'] += 1
            if cop and p in pidx:
                if v is None or not yonly(v, n) or list(np.flatnonzero(synd(S, v))) != [pidx[p]]:
                    fail('destabilizer does not anticommute with exactly its plaquette', dict(info, plaquette=list(p)),
                         'destab:syndrome')
        # ---- residual look-up table (whole dict, insertion order)
        try:
            with core.TimeLimit(TL):
                rm = D._residual_syndrome_to_recovery_map(code)
            ents = [(pt.unpack(k), pt.unpack(v)) for k, v in rm.items()]
            w = '{} {}'.format(len(ents), '|'.join(bits(k) + '>' + bits(v) for k, v in ents))
            for k, v in ents:
                if not np.array_equal(synd(S, v), k) or not yonly(v, n):
                    fail('residual map value does not reproduce its key', dict(info, key=bits(k)), 'residualmap:entry')
            acc['map_entries'] += len(ents)
        except Exception as ex:  # noqa: BLE001
            w = type(ex).__name__
        ctx.case(hd.replace('planary', 'planary residualmap', 1).rstrip(), w, meta=dict(info, op='residualmap'))
        acc['ops'] += 1
        # ---- all-Y stabilizers and logical
        w, ys = call(D._y_stabilizers, code)
        ctx.case(hd.replace('planary', 'planary ystabs', 1).rstrip(), w, meta=dict(info, op='ystabs'))
        if ys is None or len(ys) != 2 ** (math.gcd(R, C) - 1) or len({bits(y) for y in ys}) != len(ys) or any(
                not yonly(y, n) or synd(S, y).any() or synd(L, y).any() for y in ys):
            fail('_y_stabilizers is not a set of 2^(gcd-1) distinct all-Y operators commuting with stabilizers and logicals',
                 info, 'ystabs')
        w, yl = call(D._y_logical, code)
        ctx.case(hd.replace('planary', 'planary ylogical', 1).rstrip(), w, meta=dict(info, op='ylogical'))
        if yl is None or not yonly(yl, n) or synd(S, yl).any() or not synd(L, yl).any():
            fail('_y_logical is not an all-Y non-trivial logical', info, 'ylogical')
        acc['ops'] += 2
        # ---- sample recoveries on syndromes of Y-only errors
        errs = []
        if n <= 8:
            errs = [yerr(n, [q for q in range(n) if (m >> q) & 1]) for m in range(1 << n)]
        else:
            k = 4 if quick else 10
            for wgt in range(0, 7):
                if wgt == 0:
                    errs.append(yerr(n, []))
                elif wgt == 1:
                    qs = range(n) if not (quick and big) else rng.sample(range(n), 12)
                    errs += [yerr(n, [q]) for q in qs]
                else:
                    errs += [yerr(n, rng.sample(range(n), wgt)) for _ in range(k)]
            for _ in range(10 if quick else 30):
                errs.append(yerr(n, rng.sample(range(n), rng.randint(7, n))))
            errs.append(yerr(n, range(n)))
        syns, outs = [], []
        for e in errs:
            s = synd(S, e)
            w, v = call(D._sample_recovery, code, s.copy())
            syns.append(s)
            outs.append(w)
            acc['samples'] += 1
            ctx.count('planary.weight', min(int(e[:n].sum()), 7))
            if v is None or not np.array_equal(synd(S, v), s) or not yonly(v, n):
                fail('sample recovery does not reproduce the syndrome of a Y-only error',
                     dict(info, syndrome=bits(s), error=bits(e)), 'sample:syndrome')
        # residual look-ups actually exercised (informational)
        if not cop and max(R, C) % min(R, C) != 0:
            for s in syns:
                try:
                    part = np.zeros(2 * n, dtype=int)
                    for p in code.syndrome_to_plaquette_indices(s):
                        part ^= D._partial_recovery(code, tuple(int(x) for x in p))
                    acc['residual_used'] += int((synd(S, part) ^ s).any())
                except Exception:  # noqa: BLE001  (already reported through the `partial` cases)
                    pass
        for i in range(0, len(syns), 64):
            ctx.case(hd.replace('planary', 'planary sample', 1) + mat(syns[i:i + 64]), '/'.join(outs[i:i + 64]),
                     meta=dict(info, op='sample', syndromes=mat(syns[i:i + 64])))
        # ---- decode away from ties (exact arithmetic in the model on the floats' exact values)
        if R * C <= 36:
            from fractions import Fraction
            dec = D()
            for s in rng.sample(syns, min(len(syns), 4 if quick else 12)):
                p = rng.choice([0.05, 0.1, 0.2, 0.3])
                em = BitPhaseFlipErrorModel()
                p_i, _, p_y, _ = em.probability_distribution(p)
                fi, fy = Fraction(float(p_i)), Fraction(float(p_y))
                den = max(fi.denominator, fy.denominator)
                pyrandom.seed(rng.getrandbits(32))
                w, v = call(dec.decode, code, s.copy(), error_model=em, error_probability=p)
                acc['decodes'] += 1
                if v is None or not np.array_equal(synd(S, v), s):
                    fail('decode does not reproduce the syndrome', dict(info, syndrome=bits(s), p=p), 'decode:syndrome')

                def post(model, w=w):
                    return w if model == 'tie' else model
                ctx.case(hd.replace('planary', 'planary decode', 1) + '{} {} {}'.format(
                    int(fi * den), int(fy * den), bits(s)), w, meta=dict(info, op='decode', syndrome=bits(s), p=p), post=post)
    return acc


if __name__ == '__main__':
    import argparse
    import time
    ap = argparse.ArgumentParser()
    ap.add_argument('--seed', type=int, default=0)
    ap.add_argument('--tier', default='quick')
    a = ap.parse_args()
    t0 = time.time()
    ctx = core.Ctx('C02', a.tier, a.seed)
    acc = cases(ctx)
    n_cases = ctx.evaluations
    ctx.flush()
    bad = [m for m in ctx.mismatches if m]
    for m in bad[:5]:
        print('MISMATCH', m['op'][:160], '\n   impl ', m['impl'][:160], '\n   model', m['model'][:160])
    for c in ctx.counterexamples[:5]:
        print('MONITOR', c['key'], c['what'], str(c['input'])[:200])
    print('{} helper=c02_planary seed={} tier={} cases={} mismatches={} monitor={} {} wall={:.1f}s'.format(
        'OK' if not ctx.mismatches and not ctx.counterexamples else 'FAIL', a.seed, a.tier, n_cases,
        len(ctx.mismatches), len(ctx.counterexamples), acc, time.time() - t0))
