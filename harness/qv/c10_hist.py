"""
C10 helper — decoder-OBJECT histories: one tensor-network decoder instance reused across codes, distributions and syndromes; every answer compared with the exact coset sums and with a fresh instance.

A decoder object carries configuration (mode, chi, stp, tol), no simulation state: what `decode(code, syndrome,
error_model, p)` returns must not depend on what the same object decoded before.  A history is a JSON-able recipe

    {'family': fam, 'steps': [{'size': [R, C], 'dist': [hex floats], 'syndrome': bits}, …]}

run once per decoder configuration `cfg` (PlanarMPSDecoder / PlanarRMPSDecoder x modes c r a x stp None 1.0 0.5,
RotatedPlanarMPSDecoder / RotatedPlanarRMPSDecoder x modes c r a, Color666MPSDecoder; chi = tol = unset) on ONE object.
Steps of a history run over a PAIR of lattices with the SAME number of qubits and transposed shapes (planar 2x3 / 3x2,
2x4 / 4x2, 2x5 / 5x2; rotated planar 3x4 / 4x3, 3x5 / 5x3; thorough also planar 3x4 / 4x3 and, against the fresh
instance only, rotated planar 4x5 / 5x4; colour 3 / 5 have different sizes) x two distributions (one weak, one strong or
biased) x {the ZERO syndrome, one low-weight syndrome per lattice}, every combination once in shuffled order, then
three repeats of earlier steps — so the same distribution with the zero syndrome (whose sample recovery is the identity
on every lattice) is always decoded on both lattices by the same object, in both orders over the seeds.

Per step (one real `decode` on the reused object, `_coset_probabilities` recorded; one on a fresh object):
  * correspondence case `c10 cosets …` (exact Lean `cosetProb` on the REAL code.stabilizers / code.logicals, one driver
    line per distinct (lattice, sample, distribution), shared by all configurations): the four recorded coset
    probabilities within rel 1e-11, recoveries with the syndrome in four distinct cosets, decode class = exact arg-max
    where the exact relative gap > 1e-9 (`c10.verdict`, the same predicate as the single-call cases);
  * monitor (key C10:history:fresh-instance): sample, the four recoveries and the decode result identical to the fresh
    object's, coset probabilities within rel 1e-11 of the fresh object's (bit-identical ones are counted);
  * monitor (key C10:history:argument): the syndrome array passed in is unchanged.

`evaluate_input(meta)` (family 'history'; meta = {'history': h, 'cfg': cfg, 'upto': k}) replays steps 0..k on a new
object of the real code and judges step k against coset sums enumerated in Python.
"""
from fractions import Fraction

import numpy as np

from qv import core
from qv.core import bits, mat

FAMILY = 'history'


def _c10():
    from qv.props import c10   # lazy: c10.py imports this module
    return c10


def plan(ctx):
    """(family, (sizeA, sizeB), n_dists, n_cfgs or None = all, exact?)"""
    q = ctx.quick()
    if q:
        P = [('planar', ((2, 3), (3, 2)), 2, 6, True), ('planar', ((2, 4), (4, 2)), 2, 6, True),
             ('rotatedplanar', ((3, 4), (4, 3)), 2, None, True), ('color666', ((3,), (3,)), 2, None, True)]
        # one larger pair per run (exact value: 0.2 .. 0.4 s per distinct sample and distribution)
        P.append([('planar', ((2, 5), (5, 2)), 1, 6, True), ('rotatedplanar', ((3, 5), (5, 3)), 1, None, True)][
            ctx.seed % 2])
        return P
    return [('planar', ((2, 3), (3, 2)), 2, None, True), ('planar', ((2, 4), (4, 2)), 2, None, True),
            ('planar', ((2, 5), (5, 2)), 2, None, True), ('planar', ((2, 2), (3, 3)), 2, None, True),
            ('planar', ((3, 4), (4, 3)), 1, 6, True),
            ('rotatedplanar', ((3, 4), (4, 3)), 2, None, True), ('rotatedplanar', ((3, 5), (5, 3)), 2, None, True),
            ('rotatedplanar', ((3, 3), (4, 4)), 1, None, True), ('rotatedplanar', ((4, 5), (5, 4)), 2, None, False),
            ('color666', ((3,), (3,)), 3, None, True), ('color666', ((3,), (5,)), 1, None, False)]


def make_history(ctx, fam, sizes, n_dists):
    c10 = _c10()
    rng = ctx.rng
    codes = {s: c10.make_code(fam, s) for s in sizes}
    weak = rng.choice(['depolarizing', 'biasZ10', 'biasX10', 'biasY10', 'xz', 'random'])
    strong = rng.choice(c10.STRONG_KINDS)
    dists = [c10.make_dist(rng, weak, rng.choice(c10.PS[:8])), c10.make_dist(rng, strong, rng.choice(c10.PS_STRONG))]
    rng.shuffle(dists)
    dists = dists[:n_dists]
    syns = {}
    for s, code in codes.items():
        r = len(code.stabilizers)
        n = code.n_k_d[0]
        # syndrome of a random error of weight 1..2 (typical of actual errors)
        e = np.zeros(2 * n, dtype=int)
        for qb in rng.sample(range(n), rng.randint(1, 2)):
            pauli = rng.choice('XYZ')
            e[qb] ^= int(pauli in 'XY'); e[n + qb] ^= int(pauli in 'YZ')
        from qecsim import paulitools as pt
        syns[s] = [[0] * r, [int(x) for x in pt.bsp(e, code.stabilizers.T)]]
    combos = [(s, d, sy) for s in dict.fromkeys(sizes) for d in dists for sy in syns[s]]
    rng.shuffle(combos)
    combos += [rng.choice(combos) for _ in range(3)]
    return {'family': fam, 'steps': [{'size': list(s), 'dist': [float(x).hex() for x in d], 'syndrome': bits(sy)}
                                     for s, d, sy in combos]}


def run_history(h, cfg, upto=None, fresh=True):
    """run the steps on ONE decoder object; returns per step (code, syndrome, dist, r, r_fresh, syndrome_kept)"""
    c10 = _c10()
    dec = c10.make_decoder(*cfg)
    codes = {}
    out = []
    for k, st in enumerate(h['steps']):
        if upto is not None and k > upto:
            break
        size = tuple(st['size'])
        if size not in codes:
            codes[size] = c10.make_code(h['family'], size)
        code = codes[size]
        dist = tuple(float.fromhex(x) for x in st['dist'])
        syndrome = [int(c) for c in st['syndrome']]
        r = c10.run_real(code, tuple(cfg), syndrome, dist, dec=dec)
        rf = c10.run_real(code, tuple(cfg), syndrome, dist) if fresh else None
        out.append((code, syndrome, dist, r, rf))
    return out


def compare_fresh(r, rf):
    """'same' | 'close' (coset probabilities differ by at most rel 1e-11) | description of a difference"""
    c10 = _c10()
    if 'error' in r or 'error' in rf:
        return 'same' if r.get('error') == rf.get('error') else 'reused object: {} fresh object: {}'.format(
            r.get('error', 'decoded'), rf.get('error', 'decoded'))
    if not np.array_equal(r['f'], rf['f']):
        return 'sample recovery differs from the fresh object\'s'
    if len(r['recs']) != len(rf['recs']) or any(not np.array_equal(a, b) for a, b in zip(r['recs'], rf['recs'])):
        return 'coset representatives differ from the fresh object\'s'
    res = 'same'
    for i, (p, pf) in enumerate(zip(r['ps'], rf['ps'])):
        a, b = c10.to_fraction(p), c10.to_fraction(pf)
        if a is None or b is None:
            if repr(p) != repr(pf):
                return 'coset probability {} is {!r}, the fresh object\'s {!r}'.format(i, p, pf)
            continue
        if a != b:
            if abs(a - b) > c10.REL_TOL * max(abs(a), abs(b)):
                return 'coset probability {} is {!r}, the fresh object\'s {!r}'.format(i, float(a), float(b))
            res = 'close'
    if res == 'same' and not np.array_equal(r['out'], rf['out']):
        # identical coset probabilities and representatives: the arg-max (ties resolved by list order) is the same
        return 'decode result differs from the fresh object\'s'
    return res


def cases(ctx):
    c10 = _c10()
    rng = ctx.rng
    P = plan(ctx)
    if not ctx.quick():   # two recipes per pair whose exact values are cheap
        def generators(fam, s):
            return 2 * s[0] * s[1] - s[0] - s[1] if fam == 'planar' else s[0] * s[1] - 1 if fam == 'rotatedplanar' else 6
        P = [p for p in P for _ in range(2 if (p[4] and max(generators(p[0], s) for s in p[1]) <= 14) else 1)]
    for fam, sizes, n_dists, n_cfgs, exact in P:
        h = make_history(ctx, fam, sizes, n_dists)
        cfgs = c10.all_configs(fam)
        if n_cfgs is not None and n_cfgs < len(cfgs):
            k0 = rng.randrange(len(cfgs))
            # a stride co-prime to 18 walks through decoders, modes and stp values
            cfgs = [cfgs[(k0 + 5 * j) % len(cfgs)] for j in range(n_cfgs)]
        label = '{}:{}'.format(fam, '/'.join('x'.join(str(x) for x in s) for s in sizes))
        groups = {}    # driver line -> list of (cfg, k, code, syndrome, dist, r)
        for cfg in cfgs:
            steps = run_history(h, cfg)
            ctx.extra['real_decodes'] = ctx.extra.get('real_decodes', 0) + 2 * len(steps)
            ctx.extra['history_steps'] = ctx.extra.get('history_steps', 0) + len(steps)
            ctx.count('history', label); ctx.count('history_decoder', '{}/{}/{}'.format(*cfg))
            for k, (code, syndrome, dist, r, rf) in enumerate(steps):
                meta = {'family': FAMILY, 'history': h, 'cfg': list(cfg), 'upto': k}
                ctx.count('history_step', ('zero' if not any(syndrome) else 'non-zero') + ' syndrome')
                cmpf = compare_fresh(r, rf)
                ctx.count('history_vs_fresh', cmpf if cmpf in ('same', 'close') else 'DIFFERENT')
                if cmpf not in ('same', 'close'):
                    ctx.monitor_fail('{}(mode={}, stp={}) reused over a history of calls, step {} ({}{}, syndrome {}): {}'
                                     .format(cfg[0], cfg[1], cfg[2], k, fam, tuple(h['steps'][k]['size']),
                                             h['steps'][k]['syndrome'], cmpf), meta, key='C10:history:fresh-instance')
                if 'f' not in r:
                    if 'f' not in rf:      # a decoder that cannot decode at all is reported by the single-call cases
                        continue
                    ctx.monitor_fail('{} reused over a history of calls did not decode at step {}: {}'.format(
                        cfg[0], k, r.get('error')), meta, key='C10:history:raised')
                    continue
                if not exact:
                    continue
                a, D = c10.numerators(dist)
                line = 'c10 cosets {} {} {} {} {} {} {}'.format(mat(code.stabilizers), mat(code.logicals), bits(r['f']),
                                                                *a)
                groups.setdefault(line, []).append((cfg, k, code, syndrome, dist, D, r, meta))
        for line, grp in groups.items():
            labels = ['{}/{}/{}@{}'.format(cfg[0], cfg[1], cfg[2], k) for cfg, k, *_ in grp]
            impl = ' '.join(l + '=ok' for l in labels)

            def post(reply, grp=grp, labels=labels):
                nums = [int(x) for x in reply.split()[0].split(',')]
                if len(nums) != 4:
                    return 'bad-reply ' + reply[:60]
                return ' '.join(l + '=' + c10.verdict(code, syndrome, dist, D, code.n_k_d[0], r, nums)
                                for l, (cfg, k, code, syndrome, dist, D, r, meta) in zip(labels, grp))
            # meta of the case = the first member; the search re-evaluates every member (see `search`)
            ctx.case(line, impl, nontrivial=True,
                     meta={'family': FAMILY, 'members': [m[-1] for m in grp][:6]}, post=post)
        ctx.flush()


# ------------------------------------------------------------------------------------------------ search / replay

def evaluate_input(meta):
    """the property on the real code for a recorded history: replay steps 0..upto on a new object, judge step `upto`
    against coset sums enumerated in Python (and against a fresh object)"""
    c10 = _c10()
    if 'members' in meta:
        for m in meta['members']:
            f = evaluate_input(m)
            if f:
                return f
        return None
    h, cfg, k = meta['history'], tuple(meta['cfg']), int(meta['upto'])
    steps = run_history(h, cfg, upto=k, fresh=False)
    code, syndrome, dist, r, _ = steps[k]
    rf = c10.run_real(code, cfg, syndrome, dist)
    hist_txt = ['{}{} dist={} syndrome={}'.format(h['family'], tuple(st['size']),
                                                  [round(float.fromhex(x), 6) for x in st['dist']], st['syndrome'])
                for st in h['steps'][:k + 1]]
    base = {'what': None, 'decoder': cfg[0], 'mode': cfg[1], 'stp': cfg[2], 'family': FAMILY, 'history': h, 'cfg': list(cfg),
            'upto': k, 'calls_on_one_decoder_object': hist_txt,
            'failing_call': {'code': '{}{}'.format(h['family'], tuple(h['steps'][k]['size'])),
                             'syndrome': bits(syndrome), 'prob_dist': list(dist)}}
    if 'f' not in r:
        if 'f' in rf:
            return dict(base, what='{} reused over the listed calls did not decode the last one: {}'.format(
                cfg[0], r.get('error')))
        return None
    v = 'ok'
    if len(code.stabilizers) <= 17:
        a, D = c10.numerators(dist)
        nums = c10.python_exact(code, r['f'], a)
        v = c10.verdict(code, syndrome, dist, D, code.n_k_d[0], r, nums)
        base['exact_coset_probabilities_IXYZ'] = [float(Fraction(x) / Fraction(D) ** code.n_k_d[0]) for x in nums]
    if v == 'ok':
        c = compare_fresh(r, rf)
        if c not in ('same', 'close'):
            v = c
    if v == 'ok':
        return None
    base['real_coset_probabilities'] = [float(p) for p in r['ps']]
    if 'ps' in rf:
        base['fresh_object_coset_probabilities'] = [float(p) for p in rf['ps']]
    return dict(base, what='{}(mode={}, stp={}, chi=None, tol=None), one object used for the listed calls in turn, last '
                            'call: {}'.format(cfg[0], cfg[1], cfg[2], v))
