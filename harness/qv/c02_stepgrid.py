"""C02 helper — the edge weights of PlanarCMWPMDecoder (`StepGrid.set_background`, `StepGrid.distance`) against
Model/StepGrid.lean (theorems: Props/C02/StepGrid.lean).

`cases(ctx)`: random planar sizes (2x2 .. 6x7), all four box shapes, factors / initial values that keep every product and
sum exact in binary64 (3, 2, 1.5, 0.5, 1; at most 4 matched pairs), random matched pairs of same-type plaquette indices
(real and virtual, incl. both-virtual pairs, which are skipped) —
  grid   the real `_grid` after `set_background` (every cell, as an exact fraction)      == model grid
  dist   `distance(src, tgt, algorithm)` for random index pairs and all three algorithms == model distance
A disagreement is a broken correspondence; `search` (props/c02.py) then drives the real PlanarCMWPMDecoder with the same
parameters on unit / localised / random errors and reports a decode that misses its syndrome.
"""
from fractions import Fraction

import numpy as np

from qv import core


def fr(x):
    f = Fraction(float(x))
    return '{}/{}'.format(f.numerator, f.denominator)


def idx_w(i):
    return '{},{}'.format(int(i[0]), int(i[1]))


def pairs_w(ps):
    return '|'.join(idx_w(a) + '>' + idx_w(b) for a, b in ps) if ps else '.'


def plaquettes(code, primal):
    """all plaquette indices of one type, real and virtual (one step outside the lattice)"""
    mr, mc = code.bounds
    out = []
    for r in range(-1, mr + 2):
        for c in range(-1, mc + 2):
            if (r + c) % 2 == 1 and (r % 2 == 1) == primal:
                if (r in (-1, mr + 1)) and (c in (-1, mc + 1)):
                    continue
                out.append((r, c))
    return out


def cases(ctx):
    if ctx.driver.ask(['stepgrid dist 2 2 1/1 3/1 t . 4 0,1 2,1'])[0] == 'bad-op':
        ctx.count('stepgrid', 'skipped: driver without the stepgrid ops')
        return {'grids': 0, 'distances': 0}
    from qecsim.models.planar import PlanarCode, PlanarCMWPMDecoder
    rng = ctx.rng
    ng = nd = 0
    for _ in range(ctx.scale(120, 1200)):
        R, C = rng.randint(2, 6), rng.randint(2, 7)
        code = PlanarCode(R, C)
        shape = rng.choice('trfl')
        factor = rng.choice([3, 3, 2, 1.5, 0.5, 1])
        initial = rng.choice([1, 1, 2, 0.25])
        primal = rng.random() < 0.5
        pl = plaquettes(code, primal)
        matched = [tuple(rng.sample(pl, 2)) if rng.random() < 0.9 else (rng.choice(pl),) * 2
                   for _ in range(rng.choice([0, 1, 1, 2, 3, 4]))]
        g = PlanarCMWPMDecoder.StepGrid(code)
        meta = {'kind': 'stepgrid', 'code': ['planar', R, C],
                'decoder': ['PlanarCMWPM', {'factor': factor, 'box_shape': shape}], 'matched': pairs_w(matched)}
        as_set = rng.random() < 0.5
        try:
            g.set_background(frozenset(matched) if as_set else list(matched), factor=factor, initial=initial,
                             box_shape=shape)
            arr = np.array(g._grid)
            impl = '|'.join(','.join(fr(x) for x in row) for row in arr) if arr.ndim == 2 else core_describe(arr)
        except Exception as ex:   # noqa: BLE001
            impl = 'raise:' + type(ex).__name__
        # a set iterates in its own order and drops duplicates, a list keeps them: the model gets the pairs the real call
        # iterated over (their order is irrelevant: `background_order_irrelevant`)
        eff = list(dict.fromkeys(matched)) if as_set else list(matched)
        pre = 'stepgrid {} {} {} {} {} {} {}'.format('{}', R, C, fr(initial), fr(factor), shape, pairs_w(eff))
        ctx.case(pre.format('grid'), impl, nontrivial=bool(matched), meta=meta)
        ctx.count('stepgrid.shape', shape); ctx.count('stepgrid.pairs', len(eff))
        ng += 1
        other = plaquettes(code, not primal)      # the foreground is the OTHER plaquette type
        for _ in range(6):
            a, b = rng.choice(other), rng.choice(other)
            alg = rng.choice([1, 2, 4, 4])
            try:
                impl = fr(g.distance(a, b, algorithm=alg))
            except Exception as ex:   # noqa: BLE001
                impl = 'raise:' + type(ex).__name__
            ctx.case(pre.format('dist') + ' {} {} {}'.format(alg, idx_w(a), idx_w(b)), impl, meta=dict(meta, alg=alg))
            ctx.count('stepgrid.alg', alg)
            nd += 1
    return {'grids': ng, 'distances': nd}


def core_describe(a):
    return 'array of shape {}'.format(getattr(a, 'shape', None))
