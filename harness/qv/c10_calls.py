"""
C10 helper — CALL SHAPES of `decode`: which of the two optional prior arguments (error_model, error_probability) the caller supplies, and how (keyword / positional), for every decoder whose `decode` takes them; an omitted argument takes its DOCUMENTED default independently of the other one.

`decode(code, syndrome, error_model=<default model>, error_probability=0.1, **kwargs)` is the documented signature of the
five tensor-network decoders (default model: DepolarizingErrorModel()), of PlanarYDecoder and of the two
symmetry-matching decoders (default model: BitPhaseFlipErrorModel()).  These defaults are written down HERE
(`DOC_DEFAULT`, read off the signatures / docstrings of the unchanged tree), not taken from the code under test.
app.run always passes both arguments and the unit tests pass neither, so the mixed shapes are exactly what nobody runs.

Shapes (SHAPES): neither | error_model only (keyword) | error_probability only (keyword) | both keywords | error_model
positional only | error_model positional + probability keyword | both positional | both keywords plus the context
keywords app.run_once adds (error, step_errors, measurement_error_probability, step_measurement_errors).

For each call the EXPECTED prior is (supplied model or documented default, supplied probability or 0.1); its
`probability_distribution` — evaluated here — is the distribution of the case:
  * TN decoders: `c10.run_real(..., call=…)` records the `prob_dist` handed to `_coset_probabilities`; `c10.verdict`
    demands it equals the expected distribution bit for bit, the four coset probabilities within rel 1e-11 of the exact
    Lean `cosetProb` for that distribution (driver op `c10 cosets`), and the decode class = exact arg-max.  Decoders:
    default-constructed object of every class x every shape x three syndromes (zero, weight-1 error, two adjacent errors
    along the supplied model's bias axis), and every configuration of `all_configs` x the partial shapes.
  * PlanarYDecoder: same with `c10.run_real_y` / `c10 ycosets` / `c10.y_verdict`.
  * symmetry-matching decoders (not ML decoders: only the prior is observed): the (error_model, error_probability)
    `decode` hands on to `decode_ftp` must give the expected distribution bit for bit (monitor, key C10:call-shape:prior).

`evaluate_input(meta)` (family 'call-shape') repeats the call on the real code and judges it against coset sums
enumerated in Python.
"""
import inspect
from fractions import Fraction

import numpy as np

from qv import core
from qv.core import bits, mat

FAMILY = 'call-shape'

TN = ['PlanarMPSDecoder', 'PlanarRMPSDecoder', 'RotatedPlanarMPSDecoder', 'RotatedPlanarRMPSDecoder',
      'Color666MPSDecoder']
# documented defaults of the optional prior arguments (signature + ":param error_model: … (default=…)" of the unchanged tree)
DOC_DEFAULT = {n: (['dep'], 0.1) for n in TN}
DOC_DEFAULT.update({'PlanarYDecoder': (['bpf'], 0.1), 'RotatedPlanarSMWPMDecoder': (['bpf'], 0.1),
                    'RotatedToricSMWPMDecoder': (['bpf'], 0.1)})
FAMILY_OF = {'PlanarMPSDecoder': 'planar', 'PlanarRMPSDecoder': 'planar', 'RotatedPlanarMPSDecoder': 'rotatedplanar',
             'RotatedPlanarRMPSDecoder': 'rotatedplanar', 'Color666MPSDecoder': 'color666', 'PlanarYDecoder': 'planar',
             'RotatedPlanarSMWPMDecoder': 'rotatedplanar', 'RotatedToricSMWPMDecoder': 'rotatedtoric'}

# (error_model how, error_probability how, extra context keywords?)
SHAPES = [('omit', 'omit', False), ('kw', 'omit', False), ('omit', 'kw', False), ('kw', 'kw', False),
          ('pos', 'omit', False), ('pos', 'kw', False), ('pos', 'pos', False), ('kw', 'kw', True)]
PARTIAL = [s for s in SHAPES if 'omit' in s[:2]]


def _c10():
    from qv.props import c10   # lazy: c10.py imports this module
    return c10


def make_em(spec):
    from qecsim.models import generic as g
    k = spec[0]
    if k == 'dep':
        return g.DepolarizingErrorModel()
    if k == 'bdep':
        return g.BiasedDepolarizingErrorModel(spec[1], spec[2])
    if k == 'bpf':
        return g.BitPhaseFlipErrorModel()
    if k == 'bf':
        return g.BitFlipErrorModel()
    if k == 'pf':
        return g.PhaseFlipErrorModel()
    if k == 'byx':
        return g.BiasedYXErrorModel(spec[1])
    raise ValueError(spec)


def make_code(fam, size):
    if fam == 'rotatedtoric':
        from qecsim.models.rotatedtoric import RotatedToricCode
        return RotatedToricCode(*size)
    return _c10().make_code(fam, tuple(size))


def make_decoder(name, cfg):
    """cfg None = the default-constructed object (no constructor argument at all)"""
    if cfg is not None:
        return _c10().make_decoder(*cfg)
    import qecsim.models.planar as pl
    import qecsim.models.rotatedplanar as rp
    import qecsim.models.rotatedtoric as rt
    import qecsim.models.color as co
    for mod in (pl, rp, rt, co):
        if hasattr(mod, name):
            return getattr(mod, name)()
    raise ValueError(name)


def expected_dist(name, shape, em_spec, p):
    """the prior the documentation prescribes for this call shape"""
    d_em, d_p = DOC_DEFAULT[name]
    em = make_em(em_spec if shape[0] != 'omit' else d_em)
    pe = p if shape[1] != 'omit' else d_p
    return tuple(float(x) for x in em.probability_distribution(pe))


def make_call(shape, em_spec, p):
    """call(dec, code, syndrome) performing `decode` in the given shape"""
    how_em, how_p, ctx_kw = shape

    def call(dec, code, s):
        em = make_em(em_spec)
        args, kw = [code, s], {}
        if how_em == 'pos':
            args.append(em)
        elif how_em == 'kw':
            kw['error_model'] = em
        if how_p == 'pos':
            args.append(p)
        elif how_p == 'kw':
            kw['error_probability'] = p
        if ctx_kw:
            n = code.n_k_d[0]
            e = np.zeros(2 * n, dtype=int)
            kw.update(error=e, step_errors=[e], measurement_error_probability=0.0,
                      step_measurement_errors=[np.zeros(len(s), dtype=int)])
        return dec.decode(*args, **kw)
    return call


def shape_text(shape, em_spec, p):
    how_em, how_p, ctx_kw = shape
    a = ['code', 'syndrome']
    em_t = {'dep': 'DepolarizingErrorModel()', 'bpf': 'BitPhaseFlipErrorModel()', 'bf': 'BitFlipErrorModel()',
            'pf': 'PhaseFlipErrorModel()'}.get(em_spec[0]) or (
        'BiasedDepolarizingErrorModel({}, {!r})'.format(em_spec[1], em_spec[2]) if em_spec[0] == 'bdep'
        else 'BiasedYXErrorModel({})'.format(em_spec[1]))
    if how_em != 'omit':
        a.append(('error_model=' if how_em == 'kw' else '') + em_t)
    if how_p != 'omit':
        a.append(('error_probability=' if how_p == 'kw' else '') + repr(p))
    if ctx_kw:
        a.append('error=…, step_errors=…, measurement_error_probability=0.0, step_measurement_errors=…')
    return 'decode({})'.format(', '.join(a))


def syndromes(rng, code, axis):
    """zero, a weight-1 error, two adjacent errors along `axis` (flat qubits 0 and 1: neighbours on the first line)"""
    from qecsim import paulitools as pt
    n = code.n_k_d[0]
    out = [[0] * len(code.stabilizers)]
    for ops in ([(rng.randrange(n), rng.choice('XYZ'))], [(0, axis), (1, axis)]):
        e = np.zeros(2 * n, dtype=int)
        for q, o in ops:
            e[q] ^= int(o in 'XY'); e[n + q] ^= int(o in 'YZ')
        out.append([int(x) for x in pt.bsp(e, code.stabilizers.T)])
    return out


def y_syndromes(rng, code):
    from qecsim import paulitools as pt
    n = code.n_k_d[0]
    out = [[0] * len(code.stabilizers)]
    for qs in ([rng.randrange(n)], [0, 1]):
        e = np.zeros(2 * n, dtype=int)
        for q in qs:
            e[q] ^= 1; e[n + q] ^= 1
        out.append([int(x) for x in pt.bsp(e, code.stabilizers.T)])
    return out


def plan(ctx):
    """(decoder class, cfg or None, family, size, shapes, number of syndromes)"""
    c10 = _c10()
    q = ctx.quick()
    size = {'planar': (2, 3), 'rotatedplanar': (3, 3), 'color666': (3,)}
    big = {'planar': (3, 2), 'rotatedplanar': (3, 4), 'color666': (3,)}
    P = []
    for name in TN:
        fam = FAMILY_OF[name]
        P.append((name, None, fam, size[fam], SHAPES, 3))
        for cfg in c10.all_configs(fam):
            if cfg[0] == name:
                P.append((name, cfg, fam, big[fam] if not q else size[fam], PARTIAL if q else SHAPES, 1 if q else 3))
    return P


# supplied priors: a model far from the default one and a probability far from 0.1
SUPPLIED = [(['bdep', 100, 'Y'], 0.3), (['bdep', 30, 'Z'], 0.02), (['bdep', 10, 'X'], 0.45), (['byx', 3], 0.2),
            (['bdep', 1000, 'X'], 0.25), (['dep'], 0.4)]
SUPPLIED_Y = [(['bpf'], 0.3), (['bpf'], 0.02), (['bpf'], 0.55)]
SUPPLIED_SMWPM = [(['bdep', 10, 'Y'], 0.3), (['dep'], 0.02), (['bdep', 100, 'Y'], 0.2), (['bpf'], 0.3)]


def axis_of(em_spec):
    return em_spec[2] if em_spec[0] == 'bdep' else {'bf': 'X', 'pf': 'Z', 'bpf': 'Y', 'byx': 'Y'}.get(em_spec[0], 'Y')


def meta_of(name, cfg, fam, size, shape, em_spec, p, syndrome):
    return {'family': FAMILY, 'decoder': name, 'cfg': list(cfg) if cfg else None, 'code': [fam, list(size)],
            'shape': list(shape), 'em': list(em_spec), 'p': p, 'syndrome': bits(syndrome)}


def cases(ctx):
    import random
    c10 = _c10()
    rng = random.Random(ctx.seed * 8191 + 1009)        # own stream: does not shift the other parts
    groups = {}
    for name, cfg, fam, size, shapes, n_syn in plan(ctx):
        code = make_code(fam, size)
        em_spec, p = SUPPLIED[rng.randrange(len(SUPPLIED))] if cfg is not None else SUPPLIED[ctx.seed % 2]
        syns = syndromes(rng, code, axis_of(em_spec))
        syns = syns[:n_syn] if n_syn >= 3 else [syns[rng.randrange(1, 3)]]
        for shape in shapes:
            dist = expected_dist(name, shape, em_spec, p)
            a, D = c10.numerators(dist)
            for syndrome in syns:
                lab = cfg or (name, 'default-constructed', None)
                r = c10.run_real(code, tuple(lab), syndrome, dist, dec=make_decoder(name, cfg),
                                 call=make_call(shape, em_spec, p))
                ctx.extra['real_decodes'] = ctx.extra.get('real_decodes', 0) + 1
                ctx.count('call_shape', '{}/{}{}'.format(shape[0], shape[1], '+ctx' if shape[2] else ''))
                ctx.count('call_shape_decoder', name)
                meta = meta_of(name, cfg, fam, size, shape, em_spec, p, syndrome)
                if 'f' not in r:
                    ctx.monitor_fail('{}: {} did not decode: {}'.format(name, shape_text(shape, em_spec, p),
                                                                        r.get('error', '?')), meta,
                                     key='C10:call-shape:raised')
                    continue
                line = 'c10 cosets {} {} {} {} {} {} {}'.format(mat(code.stabilizers), mat(code.logicals), bits(r['f']), *a)
                groups.setdefault(line, []).append((code, syndrome, dist, D, r, meta))
    for line, grp in groups.items():
        labels = ['{}/{}@{}'.format(m['decoder'], '-'.join(str(x) for x in (m['cfg'] or ['default'])[1:]),
                                    '/'.join(str(x) for x in m['shape'])) + '#' + str(i)
                  for i, (*_, m) in enumerate(grp)]
        impl = ' '.join(l + '=ok' for l in labels)

        def post(reply, grp=grp, labels=labels):
            nums = [int(x) for x in reply.split()[0].split(',')]
            if len(nums) != 4:
                return 'bad-reply ' + reply[:60]
            return ' '.join(l + '=' + c10.verdict(code, syndrome, dist, D, code.n_k_d[0], r, nums)
                            for l, (code, syndrome, dist, D, r, meta) in zip(labels, grp))
        ctx.case(line, impl, nontrivial=True, meta={'family': FAMILY, 'members': [g[-1] for g in grp]}, post=post)
    y_cases(ctx, rng)
    smwpm_cases(ctx, rng)
    ctx.flush()


def y_cases(ctx, rng):
    c10 = _c10()
    from qecsim.models.planar import PlanarCode
    size = (2, 3)
    code = PlanarCode(*size)
    n = code.n_k_d[0]
    em_spec, p = SUPPLIED_Y[ctx.seed % len(SUPPLIED_Y)]
    for shape in SHAPES:
        dist = expected_dist('PlanarYDecoder', shape, em_spec, p)
        a, D = c10.numerators(dist)
        for syndrome in y_syndromes(rng, code):
            r = c10.run_real_y(code, syndrome, dist, call=make_call(shape, em_spec, p))
            ctx.extra['real_decodes'] = ctx.extra.get('real_decodes', 0) + 1
            ctx.count('call_shape_decoder', 'PlanarYDecoder')
            meta = meta_of('PlanarYDecoder', None, 'planar', size, shape, em_spec, p, syndrome)
            if 'f' not in r:
                ctx.monitor_fail('PlanarYDecoder: {} did not decode: {}'.format(shape_text(shape, em_spec, p),
                                                                                r.get('error', '?')), meta,
                                 key='C10:call-shape:raised')
                continue
            line = 'c10 ycosets {} {} {} {} {} {} {}'.format(mat(code.stabilizers), bits(r['ly']), bits(r['f']), *a)

            def post(reply, r=r, syndrome=syndrome, dist=dist, D=D):
                toks = reply.split()
                nums = [int(x) for x in toks[0].split(',')]
                return 'PlanarYDecoder=' + c10.y_verdict(code, syndrome, dist, D, n, r, nums, int(toks[2]))
            ctx.case(line, 'PlanarYDecoder=ok', nontrivial=any(syndrome), meta=meta, post=post)


def observe_smwpm(name, size, shape, em_spec, p, syndrome):
    """what `decode` of a symmetry-matching decoder hands on to `decode_ftp`: -> (distribution or None, error text)"""
    fam = FAMILY_OF[name]
    code = make_code(fam, size)
    dec = make_decoder(name, None)
    orig = dec.decode_ftp
    seen = []

    def proxy(*a, **k):
        try:
            b = inspect.signature(orig).bind(*a, **k)
            b.apply_defaults()
            seen.append((b.arguments.get('error_model'), b.arguments.get('error_probability')))
        except TypeError:
            seen.append((None, None))
        return orig(*a, **k)
    dec.decode_ftp = proxy
    try:
        with core.TimeLimit(60):
            make_call(shape, em_spec, p)(dec, code, np.array(syndrome, dtype=int))
    except core.TimeLimit.Expired:
        return None, 'timeout'
    except Exception as ex:  # noqa: B902
        return None, type(ex).__name__ + ':' + str(ex)[:80]
    finally:
        dec.__dict__.pop('decode_ftp', None)
    if not seen or seen[0][0] is None or seen[0][1] is None:
        return None, None          # decode no longer goes through decode_ftp: the prior cannot be observed this way
    em, pe = seen[0]
    return tuple(float(x) for x in em.probability_distribution(pe)), None


def smwpm_problem(name, size, shape, em_spec, p, syndrome):
    got, err = observe_smwpm(name, size, shape, em_spec, p, syndrome)
    want = expected_dist(name, shape, em_spec, p)
    if err:
        return '{}: {} raised {}'.format(name, shape_text(shape, em_spec, p), err)
    if got is not None and got != want:
        return ('{}: {} decodes with the prior distribution {} instead of the documented {} (an omitted argument takes '
                'its documented default, a supplied one is used)'.format(name, shape_text(shape, em_spec, p), got, want))
    return None if got is not None else 'unobserved'


def smwpm_cases(ctx, rng):
    for name, size in (('RotatedPlanarSMWPMDecoder', (3, 3)), ('RotatedToricSMWPMDecoder', (2, 4))):
        code = make_code(FAMILY_OF[name], size)
        em_spec, p = SUPPLIED_SMWPM[ctx.seed % len(SUPPLIED_SMWPM)]
        syns = y_syndromes(rng, code)
        for shape in SHAPES:
            for syndrome in syns[:2]:
                meta = meta_of(name, None, FAMILY_OF[name], size, shape, em_spec, p, syndrome)
                why = smwpm_problem(name, size, shape, em_spec, p, syndrome)
                ctx.count('call_shape_decoder', name)
                if why == 'unobserved':
                    ctx.count('call_shape_smwpm', 'prior not observable')
                elif why:
                    ctx.monitor_fail(why, meta, key='C10:call-shape:prior')


# ------------------------------------------------------------------------------------------------ search / replay

def y_exact(code, syndrome, f, a):
    """exact Y-only coset sums (classes relative to f) by enumerating all 2^n all-Y operators"""
    from qecsim import paulitools as pt
    n = code.n_k_d[0]
    nums, ysize = [0, 0], 0
    for i in range(2 ** n):
        e = np.array([(i >> (n - 1 - j)) & 1 for j in range(n)])
        v = np.concatenate((e, e))
        sv = pt.bsp(v, code.stabilizers.T)
        if not np.any(sv) and not np.any(pt.bsp(v, code.logicals.T)):
            ysize += 1
        if np.array_equal(sv, np.array(syndrome)):
            c = 1 if np.any(pt.bsp(v ^ f, code.logicals.T)) else 0
            k = int(e.sum())
            nums[c] += a[2] ** k * a[0] ** (n - k)
    return nums, ysize


def evaluate_input(meta):
    """the property on the real code for one recorded call: repeat it, judge against Python-enumerated coset sums of the
    prior the documentation prescribes for the call shape.  returns a failing-input dict or None"""
    c10 = _c10()
    if 'members' in meta:
        first = None
        for m in meta['members']:
            f = evaluate_input(m)
            if f and f.get('returned_class') != f.get('maximum_likelihood_class'):
                return f           # prefer a call whose answer is not the maximum-likelihood class
            first = first or f
        return first
    name, cfg = meta['decoder'], (tuple(meta['cfg']) if meta.get('cfg') else None)
    fam, size = meta['code'][0], tuple(meta['code'][1])
    shape, em_spec, p = tuple(meta['shape']), meta['em'], meta['p']
    syndrome = [int(c) for c in meta['syndrome']]
    dist = expected_dist(name, shape, em_spec, p)
    base = dict(meta, what=None, call='{}{}.{}'.format(name, '(mode={!r}, stp={!r})'.format(cfg[1], cfg[2]) if cfg else '()',
                                                       shape_text(shape, em_spec, p)),
                code='{}{}'.format(fam, size), documented_prior_distribution=list(dist))
    if name in ('RotatedPlanarSMWPMDecoder', 'RotatedToricSMWPMDecoder'):
        why = smwpm_problem(name, size, shape, em_spec, p, syndrome)
        return dict(base, what=why) if why and why != 'unobserved' else None
    code = make_code(fam, size)
    n = code.n_k_d[0]
    a, D = c10.numerators(dist)
    call = make_call(shape, em_spec, p)
    if name == 'PlanarYDecoder':
        r = c10.run_real_y(code, syndrome, dist, call=call)
        if 'f' not in r:
            return dict(base, what='PlanarYDecoder did not decode: ' + r.get('error', '?'))
        nums, ysize = y_exact(code, syndrome, r['f'], a)
        v = c10.y_verdict(code, syndrome, dist, D, n, r, nums, ysize)
        return dict(base, what='PlanarYDecoder: ' + v) if v != 'ok' else None
    r = c10.run_real(code, cfg or (name, 'default-constructed', None), syndrome, dist, dec=make_decoder(name, cfg),
                     call=call)
    if 'f' not in r:
        return dict(base, what='{} did not decode: {}'.format(name, r.get('error', '?')))
    nums = c10.python_exact(code, r['f'], a)
    v = c10.verdict(code, syndrome, dist, D, n, r, nums)
    if v == 'ok':
        return None
    exact = [Fraction(x) / Fraction(D) ** n for x in nums]
    base['exact_coset_probabilities_IXYZ_under_the_documented_prior'] = [float(x) for x in exact]
    base['real_coset_probabilities'] = [float(x) for x in r['ps']]
    base['prob_dist_used_by_the_decoder'] = [float(x) for x in r['pd']]
    cr = c10.logical_class(code, r['out'], r['f'])
    if cr is not None and max(exact) > 0:
        base['returned_class'] = 'IXYZ'[cr]
        base['maximum_likelihood_class'] = 'IXYZ'[exact.index(max(exact))]
        if exact[cr] < max(exact):
            v += '; the returned recovery lies in coset {} (Pr {:.6e}) while the maximum-likelihood coset under the ' \
                 'documented prior is {} (Pr {:.6e})'.format('IXYZ'[cr], float(exact[cr]),
                                                            'IXYZ'[exact.index(max(exact))], float(max(exact)))
    return dict(base, what='{}: {}'.format(base['call'], v))
