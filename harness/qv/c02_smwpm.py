"""C02 / C03 helper — the recovery construction of the symmetry-matching decoders against Model/Smwpm.lean.

`cases(ctx)` runs the REAL `RotatedPlanarSMWPMDecoder` (decode and decode_ftp) on exhaustive small and random inputs
inside the stated noise domain, RECORDS from outside (class attributes wrapped for the duration of a call, no /repo
edit) what the decoder built — the keys of the symmetry graph, the set `gt.mwpm` returned for it, the clusters, the
`_ClusterNode` objects of the cluster graph in creation order, its keys, the second matching, both stage outputs and
the returned recovery — and queues correspondence cases for the driver ops `smwpm …`:

  nodes / edges   model graph (node set, edge set as unordered pairs)      == recorded graph keys
  clusters        model `_clusters(recorded matches)`                       == recorded clusters (EXACT: the code sorts
                                                                              the column mates, so the list is a function
                                                                              of the match SET)
  cnodes / cedges model `_cluster_graph` nodes in creation order / edges    == recorded objects / keys (by creation index)
  rec1 / rec2     model `_recovery`, `_cluster_recovery`                    == recorded stage outputs (exact bits)
  decode          model decode(recorded matches, recorded cluster matches)  == 'pm=1 rec=<returned recovery>'
                  (pm = both recorded matchings are perfect matchings of the MODELLED graphs — the hypothesis of
                  the theorems in Props/C02/Smwpm.lean)
  path            `_path_operator` for ALL ordered pairs of (virtual) plaquettes of each size, incl. the ValueError.

Where run-to-run instability comes from (found by reading + experiment): `_ClusterNode` has identity hashing, so the
cluster graph handed to networkx iterates its nodes in an address-dependent order and `max_weight_matching` may return
a DIFFERENT (equal weight) perfect matching of the cluster graph from run to run; `_cluster_recovery` then fuses other
pairs and the returned recovery differs by a stabilizer/logical.  Nothing else is unstable (symmetry-graph nodes are
tuples).  The comparison here is on the recovery as a function of the RECORDED second matching, named by creation
indices, which is exact and run-independent.
"""
import contextlib

import numpy as np

from qv import core
from qv.core import bits, mat

TL = 120


# ----------------------------------------------------------------------------------------------- wire helpers

def t3(i):
    return '{},{},{}'.format(int(i[0]), int(i[1]), int(i[2]))


def node_w(n):
    return '{},{}'.format(t3(n[0]), int(bool(n[1])))


def node_key(n):
    return (int(n[0][0]), int(n[0][1]), int(n[0][2]), int(bool(n[1])))


def nodes_w(nodes):
    ns = sorted(set(node_key(n) for n in nodes))
    return ';'.join('{},{},{},{}'.format(*k) for k in ns) if ns else '.'


def edges_w(edges):
    es = sorted(set(tuple(sorted((node_key(a), node_key(b)))) for a, b in edges))
    return '|'.join('{},{},{},{}>{},{},{},{}'.format(*(a + b)) for a, b in es) if es else '.'


def matches_w(ms):
    """the matching as a list in a canonical order of the PAIRS (the real code iterates a set); the orientation of
    each pair is kept as returned"""
    es = sorted((node_key(a), node_key(b)) for a, b in ms)
    return '|'.join('{},{},{},{}>{},{},{},{}'.format(*(a + b)) for a, b in es) if es else '.'


def clusters_w(cl):
    return '|'.join(';'.join(t3(i) for i in c) for c in cl) if cl else '.'


def cnode_w(n):
    if n.cluster is None and n.x_index is None:
        return 'e'
    if n.is_virtual:
        k = 'c'
    else:
        k = None  # decided by the caller (defective / neutral)
    return k, '{}:{}'.format(t3(n.x_index), t3(n.z_index))


def flags_of(bias, p, q):
    return '{}{}{}'.format(int(bias is None), int(q in (0, 1)), int(p == 0))


# ----------------------------------------------------------------------------------------------- recording

class Rec:
    def reset(self):
        self.graphs = []      # list of dict keys lists, one per _graph call
        self.matchings = []   # (graph keys, result) per _matching call
        self.clusters = None
        self.rec1 = self.rec2 = None
        self.cgraph = None
        self.created = []

    __init__ = reset


MISSING = []


@contextlib.contextmanager
def patched(D, rec):
    saved = []

    def wrap(names, hook):
        """wrap the first of `names` the class defines (classmethods); none defined -> reported as a missing hook"""
        for name in names:
            if name in D.__dict__:
                break
        else:
            MISSING.append(D.__name__ + '.' + '/'.join(names))
            return
        orig = D.__dict__[name]
        saved.append((name, orig))
        f = orig.__func__

        def w(c, *a, **k):
            out = f(c, *a, **k)
            hook(a, out)
            return out
        setattr(D, name, classmethod(w))

    def h_graph(a, out):
        rec.graphs.append(list(out.keys()))

    def h_matching(a, out):
        rec.matchings.append((list(a[0].keys()), set(out)))

    def h_clusters(a, out):
        rec.clusters = [list(c) for c in out]

    def h_rec1(a, out):
        rec.rec1 = np.array(out[0] if isinstance(out, tuple) else out)

    def h_rec2(a, out):
        rec.rec2 = np.array(out[0] if isinstance(out, tuple) else out)

    def h_cgraph(a, out):
        rec.cgraph = list(out.keys())

    orig_node = D.__dict__.get('_ClusterNode')
    try:
        del MISSING[:]
        wrap(('_graph',), h_graph)
        wrap(('_matching',), h_matching)
        wrap(('_clusters',), h_clusters)
        wrap(('_recovery', '_recovery_tparities'), h_rec1)
        wrap(('_cluster_recovery', '_cluster_recovery_tparities'), h_rec2)
        wrap(('_cluster_graph',), h_cgraph)
        if orig_node is None:
            MISSING.append(D.__name__ + '._ClusterNode')
        else:
            class RecNode(orig_node):
                def __init__(self, *a, **k):
                    super().__init__(*a, **k)
                    rec.created.append(self)
            D._ClusterNode = RecNode
        yield
    finally:
        for name, orig in saved:
            setattr(D, name, orig)
        if orig_node is not None:
            D._ClusterNode = orig_node


# ----------------------------------------------------------------------------------------------- inputs

def synd(S, v):
    n = len(v) // 2
    return S.dot(np.concatenate((v[n:], v[:n]))) % 2


def rand_error(rng, n, prob, yonly):
    e = np.zeros(2 * n, dtype=int)
    for qb in range(n):
        if rng.random() < prob:
            op = 'Y' if yonly else rng.choice('XYZ')
            if op in 'XY':
                e[qb] = 1
            if op in 'ZY':
                e[n + qb] = 1
    return e


def make_em(spec):
    from qecsim.models import generic as g
    if spec[0] == 'dep':
        return g.DepolarizingErrorModel()
    if spec[0] == 'bdep':
        return g.BiasedDepolarizingErrorModel(spec[1], spec[2])
    if spec[0] == 'bpf':
        return g.BitPhaseFlipErrorModel()
    raise ValueError(spec)


FINITE = [('dep',), ('bdep', 0.5, 'Y'), ('bdep', 10, 'Y'), ('bdep', 300, 'Y'), ('bdep', 3, 'X'), ('bdep', 2, 'Z')]


def pick_context(rng):
    """(eta, error model spec, yonly) inside the stated domain"""
    r = rng.random()
    if r < 0.35:
        return None, ('bpf',), True                       # infinite bias, Y-only noise
    if r < 0.65:
        return None, rng.choice(FINITE), False            # finite, derived from the model
    return rng.choice([0.1, 1, 10, 300]), rng.choice(FINITE + [('bpf',)]), False   # finite, eta given


def ftp_rows(rng, S, n, T, p, q, yonly):
    """rows as app._run_once builds them: m[t-1] ^ synd(step_error[t]) ^ m[t] (periodic)"""
    ss, mm = [], []
    for _ in range(T):
        e = rand_error(rng, n, p, yonly)
        ss.append(synd(S, e))
        if q == 1:
            mm.append(np.ones(S.shape[0], dtype=int))
        elif q:
            mm.append(np.array([int(rng.random() < q) for _ in range(S.shape[0])], dtype=int))
        else:
            mm.append(np.zeros(S.shape[0], dtype=int))
    return np.array([mm[t - 1] ^ ss[t] ^ mm[t] for t in range(T)], dtype=int)


# ----------------------------------------------------------------------------------------------- one decode

def one(ctx, acc, D, dec, code, S, size, rows, ideal, em_spec, p, q, tag):
    """run the real decoder on `rows`, queue the correspondence cases; returns the recovery (or None)"""
    R, C = size
    rec = acc['rec']
    rec.reset()
    em = make_em(em_spec)
    meta = {'kind': 'smwpm', 'size': [R, C], 'rows': mat(rows), 'ideal': ideal, 'em': list(em_spec), 'p': p, 'q': q,
            'eta': dec._eta, 'tag': tag}
    try:
        with core.TimeLimit(TL), patched(D, rec):
            if ideal:
                out = dec.decode(code, rows[0], error_model=em, error_probability=p)
            else:
                out = dec.decode_ftp(code, len(rows), rows, error_model=em, error_probability=p,
                                     measurement_error_probability=q)
    except core.TimeLimit.Expired:
        ctx.monitor_fail('smwpm decode timed out', meta, key='RotatedPlanarSMWPM.decode:timeout')
        return None
    except Exception as ex:  # inside the stated domain the decoder must not raise
        ctx.monitor_fail('smwpm decode raised {!r}'.format(ex)[:300], meta, key='RotatedPlanarSMWPM.decode:raises')
        if rec.graphs:  # still tie what was built before the exception
            gkeys = rec.graphs[0]
            fl = flags_of(dec._bias(em), p, 0.0 if ideal else q)
            ctx.case('smwpm nodes {} {} {}'.format(R, C, mat(rows)), nodes_w([a for a, b in gkeys] + [b for a, b in gkeys]),
                     meta=dict(meta, part='nodes'))
            ctx.case('smwpm edges {} {} {} {}'.format(fl, R, C, mat(rows)), edges_w(gkeys), meta=dict(meta, part='edges'))
        return None
    recovery = np.array(out.recovery if hasattr(out, 'recovery') else out, dtype=int)
    bias = dec._bias(em)
    q_eff = 0.0 if ideal else q
    fl = flags_of(bias, p, q_eff)
    T = len(rows)
    rw = mat(rows)
    ok = len(rec.graphs) == 1 and len(rec.matchings) == 2 and rec.clusters is not None and rec.cgraph is not None \
        and rec.rec1 is not None and rec.rec2 is not None
    if not ok:
        acc['hooks_incomplete'] += 1
        ctx.case('smwpm hooks', 'all-recorded', nontrivial=False, meta=dict(meta, missing=list(MISSING)))
        return recovery
    gkeys = rec.graphs[0]
    nontriv = bool(np.any(rows))
    m = dict(meta)
    # graph
    nodes = [a for a, b in gkeys] + [b for a, b in gkeys]
    ctx.case('smwpm nodes {} {} {}'.format(R, C, rw), nodes_w(nodes), nontrivial=nontriv, meta=dict(m, part='nodes'))
    ctx.case('smwpm edges {} {} {} {}'.format(fl, R, C, rw), edges_w(gkeys), nontrivial=nontriv,
             meta=dict(m, part='edges'))
    # clusters from the recorded matching
    ms = rec.matchings[0][1]
    msw = matches_w(ms)
    ctx.case('smwpm clusters {}'.format(msw), clusters_w(rec.clusters), nontrivial=bool(rec.clusters),
             meta=dict(m, part='clusters'))
    clw = clusters_w(rec.clusters)
    ctx.case('smwpm rec1 {} {} {}'.format(R, C, clw), bits(rec.rec1), nontrivial=bool(rec.clusters),
             meta=dict(m, part='rec1'))
    # cluster graph: nodes by creation index
    created = rec.created
    idx = {id(o): i for i, o in enumerate(created)}
    if rec.cgraph:
        ws = []
        for o in created:
            w = cnode_w(o)
            if w == 'e':
                ws.append('e')
            elif w[0] == 'c':
                ws.append('c:' + w[1])
            else:
                nx = sum(1 for (t, x, y) in o.cluster if code.is_x_plaquette((x, y)))
                ws.append(('d:' if nx % 2 else 'n:') + w[1])
        cnw = ';'.join(ws)
        cew = sorted(set(tuple(sorted((idx[id(a)], idx[id(b)]))) for a, b in rec.cgraph))
        cew = '|'.join('{}>{}'.format(a, b) for a, b in cew)
    else:
        cnw, cew = '.', '.'
    ctx.case('smwpm cnodes {} {} {} {}'.format(R, C, T, clw), cnw, nontrivial=cnw != '.', meta=dict(m, part='cnodes'))
    ctx.case('smwpm cedges {} {} {} {}'.format(R, C, T, clw), cew, nontrivial=cew != '.', meta=dict(m, part='cedges'))
    cms = rec.matchings[1][1]
    try:
        # orientation kept: `_path_operator(a, b)` is NOT symmetric (diagonal first from a), so the recovery
        # depends on which node networkx names first
        cmw = sorted((idx[id(a)], idx[id(b)]) for a, b in cms)
        cmw = '|'.join('{}>{}'.format(a, b) for a, b in cmw) if cmw else '.'
    except KeyError:
        cmw = 'unknown-object'
    ctx.case('smwpm rec2 {} {} {} {} {}'.format(R, C, T, clw, cmw), bits(rec.rec2), nontrivial=cmw != '.',
             meta=dict(m, part='rec2'))
    ctx.case('smwpm decode {} {} {} {} {} {}'.format(fl, R, C, rw, msw, cmw), 'pm=1 rec=' + bits(recovery),
             nontrivial=nontriv, meta=dict(m, part='decode'))
    acc['decodes'] += 1
    acc['defective'] += int(cmw != '.')
    ctx.count('smwpm.size', '{}x{}'.format(R, C))
    ctx.count('smwpm.T', T if not ideal else 'ideal')
    ctx.count('smwpm.bias', 'inf' if bias is None else 'finite')
    ctx.count('smwpm.clusters', min(len(rec.clusters), 6))
    ctx.count('smwpm.cluster_stage', 'used' if cmw != '.' else 'empty')
    return recovery


# ----------------------------------------------------------------------------------------------- path operator

def path_cases(ctx, D, code, size):
    R, C = size
    mx, my = code.site_bounds
    idxs = [(x, y) for x in range(-1, mx + 1) for y in range(-1, my + 1)
            if code.is_in_plaquette_bounds((x, y)) or code.is_virtual_plaquette((x, y))]
    k = 0
    for a in idxs:
        for b in idxs:
            try:
                v = bits(D._path_operator(code, a, b))
            except ValueError:
                v = 'raise:pathType'
            ctx.case('smwpm path {} {} {},{} {},{}'.format(R, C, a[0], a[1], b[0], b[1]), v, nontrivial=a != b,
                     meta={'kind': 'smwpm-path', 'size': [R, C], 'a': list(a), 'b': list(b)})
            k += 1
    # an index that is neither a plaquette nor virtual: AssertionError
    for a, b in (((-2, 0), (0, 0)), ((0, 0), (mx + 1, 0)), ((1, my + 1), (1, 1))):
        try:
            v = bits(D._path_operator(code, a, b))
        except AssertionError:
            v = 'raise:pathBounds'
        except ValueError:
            v = 'raise:pathType'
        ctx.case('smwpm path {} {} {},{} {},{}'.format(R, C, a[0], a[1], b[0], b[1]), v, nontrivial=True,
                 meta={'kind': 'smwpm-path', 'size': [R, C], 'a': list(a), 'b': list(b)})
    corners = D._cluster_corner_indices(code)
    ctx.case('smwpm corners {} {}'.format(R, C),
             ';'.join('{},{}:{},{}'.format(x[0], x[1], z[0], z[1]) for x, z in corners), nontrivial=True,
             meta={'kind': 'smwpm-corners', 'size': [R, C]})
    return k


# ----------------------------------------------------------------------------------------------- entry point

def cases(ctx, budget=None):
    """queue the correspondence cases; returns a dict of counters"""
    from qecsim.models.rotatedplanar import RotatedPlanarCode, RotatedPlanarSMWPMDecoder as PD
    rng = ctx.rng
    quick = ctx.quick()
    acc = {'rec': Rec(), 'decodes': 0, 'defective': 0, 'hooks_incomplete': 0, 'paths': 0, 'monitor': 0}
    sizes = [(3, 3), (3, 4), (4, 3), (4, 4), (3, 5), (5, 3), (4, 5), (5, 5)]
    n_rand = budget if budget is not None else (10 if quick else 60)
    PS = [0.05, 0.1, 0.2, 0.3, 0.5]
    for size in sizes:
        code = RotatedPlanarCode(*size)
        S = np.array(code.stabilizers, dtype=int)
        n = S.shape[1] // 2
        acc['paths'] += path_cases(ctx, PD, code, size)

        def check(rows, recovery, what):
            if recovery is None:
                return
            want = np.bitwise_xor.reduce(np.asarray(rows, dtype=int), axis=0)
            if not np.array_equal(synd(S, recovery), want):
                acc['monitor'] += 1
                ctx.monitor_fail('smwpm recovery does not reproduce the syndrome', what,
                                 key='RotatedPlanarSMWPM.decode:syndrome')
        # exhaustive ideal decoding of the smallest lattice: every syndrome (finite bias), every Y-syndrome (infinite)
        if size == (3, 3):
            m = S.shape[0]
            allm = list(range(1 << m))
            if quick:
                allm = [0] + rng.sample(allm[1:], 63)
            for mask in allm:
                s = np.array([(mask >> i) & 1 for i in range(m)], dtype=int)
                eta = rng.choice([None, 0.5, 10])
                em = rng.choice(FINITE)
                dec = PD(eta=eta)
                r = one(ctx, acc, PD, dec, code, S, size, np.array([s]), True, em, rng.choice(PS), 0.0, 'exh-finite')
                check([s], r, {'size': list(size), 'syndrome': bits(s), 'eta': eta, 'em': list(em)})
            seen = set()
            for ymask in range(1 << n):
                e = np.zeros(2 * n, dtype=int)
                for qb in range(n):
                    if (ymask >> qb) & 1:
                        e[qb] = e[n + qb] = 1
                s = synd(S, e)
                if bits(s) in seen:
                    continue
                seen.add(bits(s))
            ys = sorted(seen)
            if quick:
                ys = rng.sample(ys, min(len(ys), 48))
            for sb in ys:
                s = np.array([int(ch) for ch in sb], dtype=int)
                dec = PD()
                r = one(ctx, acc, PD, dec, code, S, size, np.array([s]), True, ('bpf',), rng.choice(PS), 0.0, 'exh-inf')
                check([s], r, {'size': list(size), 'syndrome': sb, 'eta': None, 'em': ['bpf']})
        # random: ideal and FTP
        for _ in range(n_rand):
            eta, em, yonly = pick_context(rng)
            dec = PD(eta=eta)
            mode = rng.choice(['ideal', 'ftp1', 'ftp2', 'ftp3', 'ftp2', 'ftp3'])
            if mode == 'ideal':
                p = rng.choice(PS)
                e = rand_error(rng, n, rng.choice([0.1, 0.25, 0.5]), yonly)
                rows = np.array([synd(S, e)])
                r = one(ctx, acc, PD, dec, code, S, size, rows, True, em, p, 0.0, 'rand-ideal')
            else:
                T = int(mode[3])
                p = rng.choice([0, 0.05, 0.2, 0.5] if T > 1 else [0.05, 0.2, 0.5])
                q = rng.choice([0, 0.1, 0.2, p, 1]) if T > 1 else rng.choice([0, 0.1, 1])
                if p == 0 and q in (0, 1):
                    q = 0.1
                rows = ftp_rows(rng, S, n, T, p if p else 0.0, q, yonly)
                r = one(ctx, acc, PD, dec, code, S, size, rows, False, em, p, q, 'rand-' + mode)
            check(rows, r, {'size': list(size), 'rows': mat(rows), 'eta': eta, 'em': list(em), 'mode': mode})
    if MISSING:
        ctx.case('smwpm hooks', 'all-present', nontrivial=False, meta={'missing': list(MISSING)})
    acc.pop('rec')
    return acc
