"""C02 / C03 helper — the recovery construction of the symmetry-matching decoders against Model/Smwpm.lean.

`cases(ctx, budget=None, families=('planar', 'toric'))` runs the REAL `RotatedPlanarSMWPMDecoder` and
`RotatedToricSMWPMDecoder` (decode and decode_ftp) on exhaustive small and random inputs inside the stated noise domain
(rotated planar 3x3..5x5 incl. non-square, rotated toric 2x2..6x4; ideal and FTP with T <= 3; p in {0, .05, .2, .5},
q in {0, .1, .2, p, 1}; finite bias — derived from the model or eta given — with arbitrary Pauli errors, infinite bias
with Y-only errors), RECORDS from outside (class attributes wrapped for the duration of a call, no /repo edit) what
the decoder built — the keys of the symmetry graph(s), the set `gt.mwpm` returned, the clusters, the `_ClusterNode`
objects of the cluster graph in creation order, its keys, the second matching, both stage outputs and the returned
recovery — and queues correspondence cases for the driver ops `smwpm …` (planar) / `smwpm t…` (toric):

  nodes / edges   model graph (node set, edge set as unordered pairs)      == recorded graph keys
  clusters        model `_clusters(recorded matches)`                       == recorded clusters (EXACT: the code sorts
                                                                              the column mates, so the list is a function
                                                                              of the match SET)
  cnodes / cedges model `_cluster_graph` nodes in creation order / edges    == recorded objects / keys (by creation index)
  rec1 / rec2     model `_recovery`, `_cluster_recovery` (operators)        == recorded stage outputs (exact bits)
  decode          model decode(recorded matches, recorded cluster matches)  == 'pm=1 rec=<returned recovery>'
                  (pm = both recorded matchings are perfect matchings of the MODELLED graphs — the hypothesis of
                  the theorems in Props/C02/Smwpm.lean, Props/C02/SmwpmToric.lean)
  path / corners  planar `_path_operator` for ALL ordered pairs of (virtual) plaquettes of each size (incl. the
                  ValueError / AssertionError), `_cluster_corner_indices`.
Every decode is also monitored directly (no exception, synd(recovery) == XOR of rows; keys
`Rotated{Planar,Toric}SMWPM.decode:{raises,timeout,syndrome}`).

Where run-to-run instability comes from (found by reading + experiment): `_ClusterNode` has identity hashing, so the
cluster graph handed to networkx iterates its nodes in an address-dependent order and `max_weight_matching` may return
a DIFFERENT (equal weight) perfect matching of the cluster graph from run to run, and may name the two nodes of a pair in
either order; `_cluster_recovery` then fuses other pairs, and because `_path_operator(a, b)` is NOT symmetric
(diagonal first from a) even the same pair in the other order gives another operator; the returned recovery differs by
a stabilizer/logical.  Nothing else is unstable (symmetry-graph nodes are tuples).  The comparison here is on the
recovery as a function of the RECORDED second matching — pairs named by creation indices, orientation kept — which is
exact and run-independent.
"""
import contextlib

import numpy as np

from qv import core
from qv.core import bits, mat

TL = 120


# ----------------------------------------------------------------------------------------------- wire helpers

def t3(i):
    return '{},{},{}'.format(int(i[0]), int(i[1]), int(i[2]))


def node_w(n):
    return '{},{}'.format(t3(n[0]), int(bool(n[1])))


def node_key(n):
    return (int(n[0][0]), int(n[0][1]), int(n[0][2]), int(bool(n[1])))


def nodes_w(nodes):
    ns = sorted(set(node_key(n) for n in nodes))
    return ';'.join('{},{},{},{}'.format(*k) for k in ns) if ns else '.'


def edges_w(edges):
    es = sorted(set(tuple(sorted((node_key(a), node_key(b)))) for a, b in edges))
    return '|'.join('{},{},{},{}>{},{},{},{}'.format(*(a + b)) for a, b in es) if es else '.'


def matches_w(ms):
    """the matching as a list in a canonical order of the PAIRS (the real code iterates a set); the orientation of
    each pair is kept as returned"""
    es = sorted((node_key(a), node_key(b)) for a, b in ms)
    return '|'.join('{},{},{},{}>{},{},{},{}'.format(*(a + b)) for a, b in es) if es else '.'


def clusters_w(cl):
    return '|'.join(';'.join(t3(i) for i in c) for c in cl) if cl else '.'


def cnode_w(n):
    if n.cluster is None and n.x_index is None:
        return 'e'
    if getattr(n, 'is_virtual', False):
        k = 'c'
    else:
        k = None  # decided by the caller (defective / neutral)
    return k, '{}:{}'.format(t3(n.x_index), t3(n.z_index))


def flags_of(bias, p, q):
    return '{}{}{}'.format(int(bias is None), int(q in (0, 1)), int(p == 0))


# ----------------------------------------------------------------------------------------------- recording

class Rec:
    def reset(self):
        self.graphs = []      # list of dict keys lists, one per _graph call
        self.matchings = []   # (graph keys, result) per _matching call
        self.clusters = None
        self.rec1 = self.rec2 = None
        self.tp1 = self.tp2 = None   # (x, z) t-parity outputs of the two stages (rotated toric)
        self.cgraph = None
        self.cgraph_items = []
        self.created = []

    __init__ = reset


MISSING = []


@contextlib.contextmanager
def patched(D, rec):
    saved = []

    def wrap(names, hook):
        """wrap the first of `names` the class defines (classmethods); none defined -> reported as a missing hook"""
        for name in names:
            if name in D.__dict__:
                break
        else:
            MISSING.append(D.__name__ + '.' + '/'.join(names))
            return
        orig = D.__dict__[name]
        saved.append((name, orig))
        f = orig.__func__

        def w(c, *a, **k):
            out = f(c, *a, **k)
            if name == '_graphs':       # a generator: materialise so that it can be recorded and still consumed
                out = list(out)
            hook(a, out)
            return out
        setattr(D, name, classmethod(w))

    def h_graph(a, out):
        if isinstance(out, list):   # rotated toric `_graphs`: several graphs, matched separately and united
            rec.graphs.append([k for g in out for k in g.keys()])
        else:
            rec.graphs.append(list(out.keys()))

    def h_matching(a, out):
        g = a[0]
        keys = [k for gg in g for k in gg.keys()] if isinstance(g, list) else list(g.keys())
        rec.matchings.append((keys, set(out)))

    def h_clusters(a, out):
        rec.clusters = [list(c) for c in out]

    def h_rec1(a, out):
        rec.rec1 = np.array(out[0] if isinstance(out, tuple) else out)
        rec.tp1 = (int(out[1]), int(out[2])) if isinstance(out, tuple) and len(out) == 3 else None

    def h_rec2(a, out):
        rec.rec2 = np.array(out[0] if isinstance(out, tuple) else out)
        rec.tp2 = (int(out[1]), int(out[2])) if isinstance(out, tuple) and len(out) == 3 else None

    def h_cgraph(a, out):
        rec.cgraph = list(out.keys())
        rec.cgraph_items = list(out.items())

    orig_node = D.__dict__.get('_ClusterNode')
    try:
        del MISSING[:]
        wrap(('_graph', '_graphs'), h_graph)
        wrap(('_matching',), h_matching)
        wrap(('_clusters',), h_clusters)
        wrap(('_recovery', '_recovery_tparities'), h_rec1)
        wrap(('_cluster_recovery', '_cluster_recovery_tparities'), h_rec2)
        wrap(('_cluster_graph',), h_cgraph)
        if orig_node is None:
            MISSING.append(D.__name__ + '._ClusterNode')
        else:
            class RecNode(orig_node):
                def __init__(self, *a, **k):
                    super().__init__(*a, **k)
                    rec.created.append(self)
            D._ClusterNode = RecNode
        yield
    finally:
        for name, orig in saved:
            setattr(D, name, orig)
        if orig_node is not None:
            D._ClusterNode = orig_node


# ----------------------------------------------------------------------------------------------- inputs

def synd(S, v):
    n = len(v) // 2
    return S.dot(np.concatenate((v[n:], v[:n]))) % 2


def rand_error(rng, n, prob, yonly):
    e = np.zeros(2 * n, dtype=int)
    for qb in range(n):
        if rng.random() < prob:
            op = 'Y' if yonly else rng.choice('XYZ')
            if op in 'XY':
                e[qb] = 1
            if op in 'ZY':
                e[n + qb] = 1
    return e


def make_em(spec):
    from qecsim.models import generic as g
    if spec[0] == 'dep':
        return g.DepolarizingErrorModel()
    if spec[0] == 'bdep':
        return g.BiasedDepolarizingErrorModel(spec[1], spec[2])
    if spec[0] == 'bpf':
        return g.BitPhaseFlipErrorModel()
    raise ValueError(spec)


FINITE = [('dep',), ('bdep', 0.5, 'Y'), ('bdep', 10, 'Y'), ('bdep', 300, 'Y'), ('bdep', 3, 'X'), ('bdep', 2, 'Z')]


def pick_context(rng):
    """(eta, error model spec, yonly) inside the stated domain"""
    r = rng.random()
    if r < 0.35:
        return None, ('bpf',), True                       # infinite bias, Y-only noise
    if r < 0.65:
        return None, rng.choice(FINITE), False            # finite, derived from the model
    return rng.choice([0.1, 1, 10, 300]), rng.choice(FINITE + [('bpf',)]), False   # finite, eta given


def ftp_rows(rng, S, n, T, p, q, yonly, steps=None):
    """rows as app._run_once builds them: m[t-1] ^ synd(step_error[t]) ^ m[t] (periodic); `steps` (a list) receives
    the step errors and the measurement flips"""
    ss, mm, es = [], [], []
    for _ in range(T):
        e = rand_error(rng, n, p, yonly)
        es.append(e)
        ss.append(synd(S, e))
        if q == 1:
            mm.append(np.ones(S.shape[0], dtype=int))
        elif q:
            mm.append(np.array([int(rng.random() < q) for _ in range(S.shape[0])], dtype=int))
        else:
            mm.append(np.zeros(S.shape[0], dtype=int))
    if steps is not None:
        steps[:] = [es, mm]
    return np.array([mm[t - 1] ^ ss[t] ^ mm[t] for t in range(T)], dtype=int)


def result_w(out):
    """canonical text of a rotated-toric DecodeResult (same format as the driver's)"""
    su = 'N' if out.success is None else str(int(bool(out.success)))
    cv = np.asarray(out.custom_values).tolist()
    return 'su={} rec={} cv={}'.format(su, bits(out.recovery), ','.join(str(int(x)) for x in cv) if cv else '_')


def run_w(data):
    """canonical text of the run data of app.run_once_ftp: weight:success:logical_commutations:custom_values"""
    def il(v):
        if v is None:
            return 'N'
        v = np.asarray(v).tolist()
        return ','.join(str(int(x)) for x in v) if v else '_'
    return '{}:{}:{}:{}'.format(int(data['error_weight']), int(bool(data['success'])), il(data['logical_commutations']),
                                il(data['custom_values']))


# ----------------------------------------------------------------------------------------------- one decode

def through_app(dec, code, T, em, p, q, steps):
    """the decode_ftp call as the REAL app.run_once_ftp makes it: the step errors and measurement flips are scripted
    (`generate` of this error-model instance and the rng replaced), the decoder is the real one behind a recording
    DecoderFTP; returns (recorder, run data)"""
    from qecsim import app
    from qecsim.model import DecoderFTP
    es, mm = steps
    it = iter(es)
    em.generate = lambda code_, probability, rng=None: np.array(next(it))

    class Rng:
        i = 0

        def choice(self, a, size=None, p=None, **kw):
            f = mm[self.i]; self.i += 1; return np.array(f)

    class Through(DecoderFTP):
        got = kw = syn = None

        def decode_ftp(self, code_, time_steps, syndrome, **kw):
            self.kw = kw; self.syn = np.array(syndrome, dtype=int)
            self.got = dec.decode_ftp(code_, time_steps, syndrome, **kw)
            return self.got

        @property
        def label(self):
            return dec.label
    th = Through()
    data = app.run_once_ftp(code, T, em, th, p, q, Rng())
    return th, data


def driver_has_tftp(ctx):
    """dev mode only (`--no-lean` against a private copy of the Lean project made before Model/SmwpmTp.lean existed):
    a driver without the ops `smwpm tftp` / `trun` makes these cases be skipped (and counted); a run with proof audit
    builds the driver from the current sources, so there the cases are always queued"""
    if not getattr(ctx, 'nolean', False):
        return True
    if not hasattr(ctx, '_has_tftp'):
        ctx._has_tftp = ctx.driver.ask(['smwpm tftp 000 2 2 1 0000 . . N'])[0] != 'bad-op'
    return ctx._has_tftp


def toric_ftp_case(ctx, rec, size, rows, fl, itp, meas, out, meta, steps=None, run_data=None):
    """rotated toric `decode_ftp`: the t-parity outputs of both stages, `success` and `custom_values` of the returned
    DecodeResult as functions of the two RECORDED matchings (driver op `smwpm tftp`), and — when the call was made
    by app.run_once_ftp with scripted step errors / flips (`steps`, `run_data`) — the rows the simulation built and the
    verdict of the run (`smwpm trun`).  `rec` is a `Rec` filled under `patched(TD, rec)` during exactly this call;
    returns True iff the case could be queued"""
    if not (hasattr(out, 'custom_values') and out.custom_values is not None and out.recovery is not None
            and rec.tp1 is not None and rec.tp2 is not None and len(rec.matchings) == 2):
        return False
    if not driver_has_tftp(ctx):
        ctx.count('smwpm.toric.ftp', 'skipped: dev-mode driver without the op tftp')
        return False
    R, C = size
    T = len(rows)
    rw = mat(rows)
    msw = matches_w(rec.matchings[0][1])
    idx = {id(o): i for i, o in enumerate(rec.created)}
    try:
        cmw = sorted((idx[id(a)], idx[id(b)]) for a, b in rec.matchings[1][1])
        cmw = '|'.join('{}>{}'.format(a, b) for a, b in cmw) if cmw else '.'
    except KeyError:
        cmw = 'unknown-object'
    nontriv = bool(np.any(rows))
    mw = 'N' if meas is None else (mat(meas) if len(meas) else '.')
    tpw = '{},{},{},{}'.format(rec.tp1[0], rec.tp1[1], rec.tp2[0], rec.tp2[1])
    m2 = dict(meta, itp=bool(itp), meas=mw, T=T, kind='smwpm', toric=True)
    ctx.case('smwpm tftp {} {} {} {} {} {} {} {}'.format(fl, R, C, int(itp), rw, msw, cmw, mw),
             'pm=1 tp={} {}'.format(tpw, result_w(out)), nontrivial=nontriv, meta=dict(m2, part='tftp'))
    ctx.count('smwpm.toric.ftp', 'T={} itp={} cv={}'.format(
        min(T, 2), int(itp), ','.join(str(int(x)) for x in np.asarray(out.custom_values).tolist())))
    ctx.count('smwpm.toric.stage-tp', tpw)
    if run_data is not None and meas is not None and steps:
        ctx.case('smwpm trun {} {} {} {} {} {} {} {}'.format(fl, R, C, int(itp), mat(steps[0]), mat(meas), msw, cmw),
                 'rows={} pm=1 {} run={}'.format(rw, result_w(out), run_w(run_data)), nontrivial=nontriv,
                 meta=dict(m2, part='trun', es=mat(steps[0])))
        ctx.count('smwpm.toric.run-success', int(bool(run_data['success'])))
    return True


def one(ctx, acc, D, dec, code, S, size, rows, ideal, em_spec, p, q, tag, toric=False, steps=None):
    """run the real decoder on `rows`, queue the correspondence cases; returns the recovery (or None).
    `steps` = [step errors, measurement flips] that produce `rows`: the call is then made by the real
    app.run_once_ftp (rotated toric FTP: ties the DecodeResult and the run verdict as well)"""
    R, C = size
    pre = 'smwpm t' if toric else 'smwpm '
    dname = 'RotatedToricSMWPM' if toric else 'RotatedPlanarSMWPM'
    rec = acc['rec']
    rec.reset()
    em = make_em(em_spec)
    meta = {'kind': 'smwpm', 'toric': toric, 'size': [R, C], 'rows': mat(rows), 'ideal': ideal, 'em': list(em_spec), 'p': p, 'q': q,
            'eta': dec._eta, 'tag': tag}
    th = run_data = None
    try:
        with core.TimeLimit(TL), patched(D, rec):
            if ideal:
                out = dec.decode(code, rows[0], error_model=em, error_probability=p)
            elif steps:
                th, run_data = through_app(dec, code, len(rows), em, p, q, steps)
                out = th.got
                if th.syn is not None:
                    rows = th.syn   # what the simulation really handed over (the model recomputes it: op `trun`)
            else:
                out = dec.decode_ftp(code, len(rows), rows, error_model=em, error_probability=p,
                                     measurement_error_probability=q)
    except core.TimeLimit.Expired:
        ctx.monitor_fail('smwpm decode timed out', meta, key=dname + '.decode:timeout')
        return None
    except Exception as ex:  # inside the stated domain the decoder must not raise
        ctx.monitor_fail('smwpm decode raised {!r}'.format(ex)[:300], meta, key=dname + '.decode:raises')
        if rec.graphs:  # still tie what was built before the exception
            gkeys = rec.graphs[0]
            fl = flags_of(dec._bias(em), p, 0.0 if ideal else q)
            ctx.case(pre + 'nodes {} {} {}'.format(R, C, mat(rows)), nodes_w([a for a, b in gkeys] + [b for a, b in gkeys]),
                     meta=dict(meta, part='nodes'))
            ctx.case(pre + 'edges {} {} {} {}'.format(fl, R, C, mat(rows)), edges_w(gkeys), meta=dict(meta, part='edges'))
        return None
    recovery = np.array(out.recovery if hasattr(out, 'recovery') else out, dtype=int)
    bias = dec._bias(em)
    q_eff = 0.0 if ideal else q
    fl = flags_of(bias, p, q_eff)
    T = len(rows)
    rw = mat(rows)
    ok = len(rec.graphs) == 1 and len(rec.matchings) == 2 and rec.clusters is not None and rec.cgraph is not None \
        and rec.rec1 is not None and rec.rec2 is not None
    if not ok:
        acc['hooks_incomplete'] += 1
        ctx.case('smwpm hooks', 'all-recorded', nontrivial=False, meta=dict(meta, missing=list(MISSING)))
        return recovery
    gkeys = rec.graphs[0]
    nontriv = bool(np.any(rows))
    m = dict(meta)
    # graph
    nodes = [a for a, b in gkeys] + [b for a, b in gkeys]
    ctx.case(pre + 'nodes {} {} {}'.format(R, C, rw), nodes_w(nodes), nontrivial=nontriv, meta=dict(m, part='nodes'))
    ctx.case(pre + 'edges {} {} {} {}'.format(fl, R, C, rw), edges_w(gkeys), nontrivial=nontriv,
             meta=dict(m, part='edges'))
    # clusters from the recorded matching
    ms = rec.matchings[0][1]
    msw = matches_w(ms)
    ctx.case('smwpm clusters {}'.format(msw), clusters_w(rec.clusters), nontrivial=bool(rec.clusters),
             meta=dict(m, part='clusters'))
    clw = clusters_w(rec.clusters)
    ctx.case(pre + 'rec1 {} {} {}'.format(R, C, clw), bits(rec.rec1), nontrivial=bool(rec.clusters),
             meta=dict(m, part='rec1'))
    # cluster graph: nodes by creation index
    created = rec.created
    idx = {id(o): i for i, o in enumerate(created)}
    if rec.cgraph:
        ws = []
        for o in created:
            w = cnode_w(o)
            if w == 'e':
                ws.append('e')
            elif w[0] == 'c':
                ws.append('c:' + w[1])
            else:
                nx = sum(1 for (t, x, y) in o.cluster if code.is_x_plaquette((x, y)))
                ws.append(('d:' if nx % 2 else 'n:') + w[1])
        cnw = ';'.join(ws)
        cew = sorted(set(tuple(sorted((idx[id(a)], idx[id(b)]))) for a, b in rec.cgraph))
        cew = '|'.join('{}>{}'.format(a, b) for a, b in cew)
    else:
        cnw, cew = '.', '.'
    if toric:
        ctx.case('smwpm tcnodes {}'.format(clw), cnw, nontrivial=cnw != '.', meta=dict(m, part='cnodes'))
        ctx.case('smwpm tcedges {}'.format(clw), cew, nontrivial=cew != '.', meta=dict(m, part='cedges'))
    else:
        ctx.case('smwpm cnodes {} {} {} {}'.format(R, C, T, clw), cnw, nontrivial=cnw != '.', meta=dict(m, part='cnodes'))
        ctx.case('smwpm cedges {} {} {} {}'.format(R, C, T, clw), cew, nontrivial=cew != '.', meta=dict(m, part='cedges'))
    # the WEIGHTS of the recorded cluster graph == Model/SmwpmWeight.lean `_cluster_distance` on the nodes' own clusters
    # (Props/C03/Weights.lean); the first 60 edges of a graph
    if getattr(rec, 'cgraph_items', None) and getattr(ctx, '_has_cdist', None) is None:
        ctx._has_cdist = ctx.driver.ask(['smwpm cdist 3 1 1 N N'])[0] != 'bad-op'
    if getattr(rec, 'cgraph_items', None) and ctx._has_cdist:
        from qv.c03_weights import cl_w
        for (a, b), w in rec.cgraph_items[:60]:
            try:
                want = str(int(w)) if int(w) == w else repr(w)
            except Exception:   # noqa: BLE001
                want = repr(w)
            if toric:
                ctx.case('smwpm tcdist {} {} {} {} {}'.format(R, C, T, cl_w(a.cluster), cl_w(b.cluster)), want,
                         nontrivial=False, meta=dict(m, part='cluster-weights'))
            else:
                ctx.case('smwpm cdist {} {} {} {} {}'.format(T, int(bool(a.is_virtual)), int(bool(b.is_virtual)),
                                                            cl_w(a.cluster), cl_w(b.cluster)), want,
                         nontrivial=False, meta=dict(m, part='cluster-weights'))
        ctx.count('smwpm.cluster-weights', 'graphs tied')
    cms = rec.matchings[1][1]
    try:
        # orientation kept: `_path_operator(a, b)` is NOT symmetric (diagonal first from a), so the recovery
        # depends on which node networkx names first
        cmw = sorted((idx[id(a)], idx[id(b)]) for a, b in cms)
        cmw = '|'.join('{}>{}'.format(a, b) for a, b in cmw) if cmw else '.'
    except KeyError:
        cmw = 'unknown-object'
    if toric:
        ctx.case('smwpm trec2 {} {} {} {}'.format(R, C, clw, cmw), bits(rec.rec2), nontrivial=cmw != '.',
                 meta=dict(m, part='rec2'))
        ctx.case('smwpm tdecode {} {} {} {} {} {}'.format(fl, R, C, rw, msw, cmw), 'pm=1 rec=' + bits(recovery),
                 nontrivial=nontriv, meta=dict(m, part='decode'))
        if not ideal:
            toric_ftp_case(ctx, rec, size, rows, fl, bool(getattr(dec, '_itp', False)),
                           th.kw.get('step_measurement_errors') if th is not None else None, out, m,
                           steps=steps if th is not None else None, run_data=run_data)
    else:
        ctx.case('smwpm rec2 {} {} {} {} {}'.format(R, C, T, clw, cmw), bits(rec.rec2), nontrivial=cmw != '.',
                 meta=dict(m, part='rec2'))
        ctx.case('smwpm decode {} {} {} {} {} {}'.format(fl, R, C, rw, msw, cmw), 'pm=1 rec=' + bits(recovery),
                 nontrivial=nontriv, meta=dict(m, part='decode'))
    acc['decodes'] += 1
    acc['defective'] += int(cmw != '.')
    ctx.count('smwpm.size', '{}{}x{}'.format('t' if toric else '', R, C))
    ctx.count('smwpm.T', T if not ideal else 'ideal')
    ctx.count('smwpm.bias', 'inf' if bias is None else 'finite')
    ctx.count('smwpm.clusters', min(len(rec.clusters), 6))
    ctx.count('smwpm.cluster_stage', 'used' if cmw != '.' else 'empty')
    return recovery


# ----------------------------------------------------------------------------------------------- path operator

def path_cases(ctx, D, code, size):
    R, C = size
    mx, my = code.site_bounds
    idxs = [(x, y) for x in range(-1, mx + 1) for y in range(-1, my + 1)
            if code.is_in_plaquette_bounds((x, y)) or code.is_virtual_plaquette((x, y))]
    k = 0
    for a in idxs:
        for b in idxs:
            try:
                v = bits(D._path_operator(code, a, b))
            except ValueError:
                v = 'raise:pathType'
            ctx.case('smwpm path {} {} {},{} {},{}'.format(R, C, a[0], a[1], b[0], b[1]), v, nontrivial=a != b,
                     meta={'kind': 'smwpm-path', 'size': [R, C], 'a': list(a), 'b': list(b)})
            k += 1
    # an index that is neither a plaquette nor virtual: AssertionError
    for a, b in (((-2, 0), (0, 0)), ((0, 0), (mx + 1, 0)), ((1, my + 1), (1, 1))):
        try:
            v = bits(D._path_operator(code, a, b))
        except AssertionError:
            v = 'raise:pathBounds'
        except ValueError:
            v = 'raise:pathType'
        ctx.case('smwpm path {} {} {},{} {},{}'.format(R, C, a[0], a[1], b[0], b[1]), v, nontrivial=True,
                 meta={'kind': 'smwpm-path', 'size': [R, C], 'a': list(a), 'b': list(b)})
    corners = D._cluster_corner_indices(code)
    ctx.case('smwpm corners {} {}'.format(R, C),
             ';'.join('{},{}:{},{}'.format(x[0], x[1], z[0], z[1]) for x, z in corners), nontrivial=True,
             meta={'kind': 'smwpm-corners', 'size': [R, C]})
    return k


# ----------------------------------------------------------------------------------------------- entry point

def all_syndromes(S, n, yonly):
    """distinct syndromes of all Pauli (or all Y-only) errors on n qubits (n small)"""
    seen = {}
    ops = ('I', 'Y') if yonly else ('I', 'X', 'Y', 'Z')
    import itertools
    for tup in itertools.product(ops, repeat=n):
        e = np.zeros(2 * n, dtype=int)
        for qb, op in enumerate(tup):
            if op in 'XY':
                e[qb] = 1
            if op in 'ZY':
                e[n + qb] = 1
        s = synd(S, e)
        seen.setdefault(bits(s), s)
    return [seen[k] for k in sorted(seen)]


def cases(ctx, budget=None, families=('planar', 'toric')):
    """queue the correspondence cases; returns a dict of counters"""
    from qecsim.models.rotatedplanar import RotatedPlanarCode, RotatedPlanarSMWPMDecoder as PD
    from qecsim.models.rotatedtoric import RotatedToricCode, RotatedToricSMWPMDecoder as TD
    rng = ctx.rng
    quick = ctx.quick()
    acc = {'rec': Rec(), 'decodes': 0, 'defective': 0, 'hooks_incomplete': 0, 'paths': 0, 'monitor': 0}
    n_rand = budget if budget is not None else (10 if quick else 60)
    PS = [0.05, 0.1, 0.2, 0.3, 0.5]
    fams = {'planar': (False, PD, RotatedPlanarCode, [(3, 3), (3, 4), (4, 3), (4, 4), (3, 5), (5, 3), (4, 5), (5, 5)],
                       (3, 3)),
            'toric': (True, TD, RotatedToricCode, [(2, 2), (2, 4), (4, 2), (4, 4), (4, 6), (6, 4)], (2, 2))}
    for fam in families:
        toric, D, Code, sizes, exh_size = fams[fam]
        dname = 'RotatedToricSMWPM' if toric else 'RotatedPlanarSMWPM'

        def mk(eta, ftp, itp=True):
            if toric:
                return D(itp=itp, eta=eta) if ftp else D(eta=eta)
            return D(eta=eta)
        for size in sizes:
            code = Code(*size)
            S = np.array(code.stabilizers, dtype=int)
            n = S.shape[1] // 2
            if not toric:
                acc['paths'] += path_cases(ctx, D, code, size)

            def check(rows, recovery, what):
                if recovery is None:
                    return
                want = np.bitwise_xor.reduce(np.asarray(rows, dtype=int), axis=0)
                if not np.array_equal(synd(S, recovery), want):
                    acc['monitor'] += 1
                    ctx.monitor_fail('smwpm recovery does not reproduce the syndrome', dict(what, decoder=dname),
                                     key=dname + '.decode:syndrome')
            # exhaustive ideal decoding of the smallest lattice: every syndrome of an error (finite bias), every
            # syndrome of a Y-only error (infinite bias)
            if size == exh_size:
                if toric:
                    alls = all_syndromes(S, n, False)
                else:  # full rank: every bit vector is a syndrome
                    m = S.shape[0]
                    alls = [np.array([(mask >> i) & 1 for i in range(m)], dtype=int) for mask in range(1 << m)]
                if quick and len(alls) > 64:
                    alls = alls[:1] + rng.sample(alls[1:], 63)
                for s in alls:
                    eta = rng.choice([None, 0.5, 10])
                    em = rng.choice(FINITE)
                    r = one(ctx, acc, D, mk(eta, False), code, S, size, np.array([s]), True, em, rng.choice(PS), 0.0,
                            'exh-finite', toric=toric)
                    check([s], r, {'size': list(size), 'syndrome': bits(s), 'eta': eta, 'em': list(em)})
                ys = all_syndromes(S, n, True)
                if quick and len(ys) > 48:
                    ys = rng.sample(ys, 48)
                for s in ys:
                    r = one(ctx, acc, D, mk(None, False), code, S, size, np.array([s]), True, ('bpf',), rng.choice(PS),
                            0.0, 'exh-inf', toric=toric)
                    check([s], r, {'size': list(size), 'syndrome': bits(s), 'eta': None, 'em': ['bpf']})
            # random: ideal and FTP
            for _ in range(n_rand):
                eta, em, yonly = pick_context(rng)
                mode = rng.choice(['ideal', 'ftp1', 'ftp2', 'ftp3', 'ftp2', 'ftp3'])
                if mode == 'ideal':
                    p = rng.choice(PS)
                    e = rand_error(rng, n, rng.choice([0.1, 0.25, 0.5]), yonly)
                    rows = np.array([synd(S, e)])
                    r = one(ctx, acc, D, mk(eta, False), code, S, size, rows, True, em, p, 0.0, 'rand-ideal', toric=toric)
                else:
                    T = int(mode[3])
                    p = rng.choice([0, 0.05, 0.2, 0.5] if T > 1 else [0.05, 0.2, 0.5])
                    q = rng.choice([0, 0.1, 0.2, p, 1]) if T > 1 else rng.choice([0, 0.1, 1])
                    if p == 0 and q in (0, 1):
                        q = 0.1
                    # rotated toric: the call is made by the real app.run_once_ftp with these step errors / flips
                    # scripted (itp off three times out of four, chosen without consuming the seeded rng)
                    steps = [] if toric else None
                    rows = ftp_rows(rng, S, n, T, p if p else 0.0, q, yonly, steps=steps)
                    r = one(ctx, acc, D, mk(eta, True, itp=(acc['decodes'] % 4 == 3)), code, S, size, rows, False, em,
                            p, q, 'rand-' + mode, toric=toric, steps=steps)
                check(rows, r, {'size': list(size), 'rows': mat(rows), 'eta': eta, 'em': list(em), 'mode': mode})
    if MISSING:
        ctx.case('smwpm hooks', 'all-present', nontrivial=False, meta={'missing': list(MISSING)})
    acc.pop('rec')
    return acc
