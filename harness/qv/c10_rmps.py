"""
C10 helper — the planar ROTATED MPS decoder (`PlanarRMPSDecoder`): its tensor network AND the bookkeeping of its optimised
contraction `_tn_contract_optimized`, inside the model (Model/PlanarRmpsTn.lean, driver token `c10rmps`).

`cases(ctx)` runs, for planar codes of every accepted small shape (R, C >= 2; square, |R - C| = 1 and |R - C| >= 2 in
both orientations: 2x4, 4x2, 2x5, 5x2, 5x3, 3x5, 2x6, 6x2 ...), random Paulis and the decoder's own `sample_recovery`
samples, several single-qubit distributions and BOTH contraction modes ('c' by column / major diagonal, 'r' by row / minor
diagonal), the REAL `PlanarRMPSDecoder(mode=m)._coset_probabilities(dist, sample)` while recording from outside (module
attributes wrapped for the duration of the call, no /repo edit) what it did:

  * every `TNC.create_tn(prob_dist, sample_pauli)` call: the sample (bsf) and the network it returned;
  * every `tt.mps2d.transpose` and `tt.mps2d.contract` call with its arguments (start / stop / step / chi / tol / mask)
    and result;

and queues the correspondence cases

  samples   model `samples4` (f, X f, Z X f, Z f with the DIAGONAL logicals `_logical_x/_logical_z`, major or minor)
            == the samples the decoder handed to `create_tn` (exact bits);
  tn        EVERY cell of every recorded network (`None` cells included; shapes and entries, floats exactly as
            Fraction(float)·D) == the model network `rmpsTn`;
  opt       model `optimized` (`left_stop`, `right_stop`, the four coset values as exact integers over D^n)
            == the recorded `stop` of the shared bra / ket contractions of tns[0], the recorded COLUMN LAYOUT of each of the
            four partially contracted networks (column 0 = the bra, last = the ket, column 1+k = column left_stop+k of
            tns[j], by object identity), step = -1 and no start/stop on them, and the four returned coset probabilities
            within 1e-11 (relative) of the model values;
  opt       (small groups) the model values == the exact coset sums: Lean `cosetProb` on the REAL
            `code.stabilizers / code.logicals` (`c10 cosets`: f, f·X̄, f·Ȳ, f·Z̄ with the code's own logicals — equal
            because the diagonal logicals are in the same cosets) and `optcoset` (`cosetProb` on the MODEL's
            `Planar.stabilizers` of the four diagonal-logical samples — the statement of `planarRmps_optimized_value`);
  tnvalue / tnexact  plain model contraction / literal index sum of the sample's network == the same exact value.

`evaluate_input(meta)` (family 'planar-rmps-tn') evaluates the PROPERTY on the real code for a recorded input:
`PlanarRMPSDecoder(mode=c|r|a)._coset_probabilities(dist, sample)` against the coset sums enumerated in Python.

Standalone:  QV_LEAN_DIR=<copy with the c10rmps dispatch line> VERIF_SEED=k /venv/bin/python harness/qv/c10_rmps.py [quick|thorough]
"""
import contextlib
import inspect
import os
import sys
from fractions import Fraction

import numpy as np

if __name__ == '__main__':
    sys.path.insert(0, os.path.join(os.path.dirname(os.path.abspath(__file__)), '..'))

from qv import core  # noqa: E402
from qv.core import bits, mat  # noqa: E402

FAMILY = 'planar-rmps-tn'
OP = 'c10rmps'


def _c10():
    from qv.props import c10   # lazy: c10.py imports this module
    return c10


def plan(ctx):
    """(size, items, spec) — spec: 'cosets' = exact against the REAL matrices and the model's own stabilizers,
    'float' = the real float values against the model values only (group too large for the enumeration)"""
    q = ctx.quick()
    P = [((2, 2), 4 if q else 16, 'cosets')]
    P += [(s, 2 if q else 8, 'cosets') for s in [(2, 3), (3, 2), (3, 3)]]
    P += [(s, 2 if q else 8, 'cosets') for s in [(2, 4), (4, 2)]]
    P += [(s, 1 if q else 4, 'cosets') for s in [(2, 5), (5, 2)]]
    P += [(s, 1 if q else 2, 'cosets' if not q else 'float') for s in [(3, 4), (4, 3)]]
    P += [(s, 1 if q else 3, 'float') for s in [(5, 3), (3, 5), (4, 4), (2, 6), (6, 2)]]
    if not q:
        P += [(s, 1, 'float') for s in [(4, 5), (5, 4), (6, 3), (3, 6), (2, 7), (7, 2)]]
    return P


# ------------------------------------------------------------------------------------------------ recording

@contextlib.contextmanager
def recording(decoder):
    """wrap `decoder._tnc.create_tn`, `tt.mps2d.contract`, `tt.mps2d.transpose` for the duration of the block"""
    import qecsim.tensortools.mps2d as m2
    rec = {'create': [], 'transpose': [], 'contract': []}
    o_contract, o_transpose, o_tnc = m2.contract, m2.transpose, decoder._tnc
    sig = inspect.signature(o_contract)

    class Tnc:
        def create_tn(self, prob_dist, sample_pauli):
            f = [int(x) for x in sample_pauli.to_bsf()]
            tn = o_tnc.create_tn(prob_dist, sample_pauli)
            rec['create'].append((f, tn))
            return tn

        def __getattr__(self, name):
            return getattr(o_tnc, name)

    def contract(*a, **kw):
        ba = sig.bind(*a, **kw)
        ba.apply_defaults()
        res = o_contract(*a, **kw)
        rec['contract'].append((dict(ba.arguments), res))
        return res

    def transpose(tn):
        out = o_transpose(tn)
        rec['transpose'].append((tn, out))
        return out

    m2.contract, m2.transpose, decoder._tnc = contract, transpose, Tnc()
    try:
        yield rec
    finally:
        m2.contract, m2.transpose, decoder._tnc = o_contract, o_transpose, o_tnc


def _same_col(a, b):
    return len(a) == len(b) and all(x is y for x, y in zip(a, b))


def describe(rec, mode):
    """canonical description of the recorded optimised contraction:
    `<stop of bra> <stop of ket> <layout of the 4 partial networks>` or a `bad:` string"""
    creates = rec['create']
    if len(creates) != 4:
        return 'bad:create_tn called {} times'.format(len(creates))
    if mode == 'c':
        nets = [tn for _, tn in creates]
        if rec['transpose']:
            return 'bad:transpose in mode c'
    else:
        tr = rec['transpose']
        if len(tr) != 4 or any(src is not creates[j][1] for j, (src, _) in enumerate(tr)):
            return 'bad:transposes'
        nets = [out for _, out in tr]
    cs = rec['contract']
    if len(cs) != 6:
        return 'bad:contract called {} times'.format(len(cs))
    (a0, r0), (a1, r1) = cs[0], cs[1]
    if a0['tn'] is not nets[0] or a1['tn'] is not nets[0]:
        return 'bad:shared contraction not on tns[0]'
    if (a0['start'], a0['step']) != (None, None) or (a1['start'], a1['step']) != (-1, -1):
        return 'bad:shared contraction range {} {}'.format((a0['start'], a0['stop'], a0['step']),
                                                           (a1['start'], a1['stop'], a1['step']))
    if any(a[k] is not None for a, _ in cs for k in ('chi', 'tol', 'mask')):
        return 'bad:truncation arguments'
    ls, rs = a0['stop'], a1['stop']
    try:
        bra, ket = r0[0], r1[0]
    except Exception:
        return 'bad:shared contraction result'
    lay = []
    for j in range(4):
        a, _ = cs[2 + j]
        if (a['start'], a['stop'], a['step']) != (None, None, -1):
            return 'bad:partial contraction range {}'.format((a['start'], a['stop'], a['step']))
        pt = a['tn']
        if pt.shape[0] != nets[j].shape[0]:
            return 'bad:partial rows'
        cols = []
        for c in range(pt.shape[1]):
            col = list(pt[:, c])
            if c == 0 and _same_col(col, list(bra)):
                cols.append('b')
            elif c == pt.shape[1] - 1 and _same_col(col, list(ket)):
                cols.append('k')
            else:
                exp = ls + c - 1
                if 0 <= exp < nets[j].shape[1] and _same_col(col, list(nets[j][:, exp])):
                    cols.append(str(exp))
                else:
                    m = [cc for cc in range(nets[j].shape[1]) if _same_col(col, list(nets[j][:, cc]))]
                    cols.append(str(m[0]) if m else '?')
        lay.append(','.join(cols))
    return '{} {} {}'.format(ls, rs, ';'.join(lay))


def expected_layout(ls, rs):
    return ';'.join([','.join(['b'] + [str(c) for c in range(ls, rs + 1)] + ['k'])] * 4)


# ------------------------------------------------------------------------------------------------ cases

def cases(ctx):
    from qecsim.models.planar import PlanarCode, PlanarRMPSDecoder
    P = _c10()
    rng = ctx.rng
    raw = P.raw_model_dists()
    items = []
    for size, n_items, spec in plan(ctx):
        code = PlanarCode(*size)
        n = code.n_k_d[0]
        for j in range(n_items):
            if j % 2 == 1:   # the decoder's own sample for a random syndrome (low weight half the time)
                i = rng.getrandbits(len(code.stabilizers))
                if j % 4 == 3:
                    i &= rng.getrandbits(len(code.stabilizers))
                syn = [(i >> k) & 1 for k in range(len(code.stabilizers))]
                f = [int(x) for x in PlanarRMPSDecoder.sample_recovery(code, np.array(syn, dtype=int)).to_bsf()]
                src = 'sample_recovery'
            else:            # any Pauli
                f = [rng.randrange(2) for _ in range(2 * n)]
                src = 'random'
            if j == 0 and size == (2, 2):
                kind, dist = raw[0]
            elif rng.random() < 0.15:
                kind, dist = raw[rng.randrange(len(raw))]
            else:
                kind = P.KINDS[rng.randrange(len(P.KINDS))]
                dist = P.make_dist(rng, kind, rng.choice(P.PS))
            items.append((size, code, f, src, kind, tuple(float(x) for x in dist), spec))
    # phase 1: the exact spec values on the REAL matrices, from the driver (Lean `cosetProb`)
    spec_lines = []
    for size, code, f, src, kind, dist, spec in items:
        a, D = P.numerators(dist)
        if spec == 'cosets':
            spec_lines.append('c10 cosets {} {} {} {} {} {} {}'.format(mat(code.stabilizers), mat(code.logicals),
                                                                      bits(f), *a))
    spec_out = iter(ctx.driver.ask(spec_lines))
    # phase 2: the cases
    for size, code, f, src, kind, dist, spec in items:
        a, D = P.numerators(dist)
        n = code.n_k_d[0]
        meta = {'family': FAMILY, 'size': list(size), 'sample': bits(f), 'dist': [x.hex() for x in dist],
                'kind': kind, 'sample_source': src}
        want = next(spec_out).split()[0] if spec == 'cosets' else None
        args = '{} {} {} {} {} {} {}'.format(size[0], size[1], bits(f), *a)
        seen_nets = set()
        for mode in ('c', 'r'):
            mmeta = dict(meta, mode=mode)
            dec = PlanarRMPSDecoder(mode=mode)
            ps = None
            try:
                with recording(dec) as rec, core.TimeLimit(P.DECODE_LIMIT):
                    ps, _ = dec._coset_probabilities(dist, code.new_pauli(np.array(f, dtype=int)))
                desc = describe(rec, mode)
            except Exception as ex:
                ctx.monitor_fail('PlanarRMPSDecoder(mode={})._coset_probabilities raised {!r}'.format(mode, ex)[:200],
                                 mmeta, key='C10:planar-rmps-tn:raises')
                continue
            ctx.count('rmps_code', 'planar{}x{}'.format(*size)); ctx.count('rmps_mode', mode)
            ctx.count('rmps_sample', src); ctx.count('rmps_shape', 'square' if size[0] == size[1] else (
                'diff1' if abs(size[0] - size[1]) == 1 else 'diff>=2'))
            ctx.extra['rmps_runs'] = ctx.extra.get('rmps_runs', 0) + 1
            # the samples handed to create_tn
            ctx.case('{} samples {} {} {} {}'.format(OP, size[0], size[1], mode, bits(f)),
                     '/'.join(bits(g) for g, _ in rec['create']), nontrivial=True, meta=mmeta)
            # the networks, tensor by tensor
            for vi, (g, tn) in enumerate(rec['create'][:4]):
                key = bits(g)
                if key in seen_nets:
                    continue
                seen_nets.add(key)
                try:
                    impl = P.ser_real_tn(tn, D)
                except Exception as ex:
                    impl = 'raised {}:{}'.format(type(ex).__name__, str(ex)[:60])
                ctx.case('{} tn {} {} {} {} {} {} {}'.format(OP, size[0], size[1], key, *a), impl, nontrivial=True,
                         meta=dict(mmeta, variant='IXYZ'[vi]))
                ctx.extra['rmps_networks'] = ctx.extra.get('rmps_networks', 0) + 1
            # the optimised contraction: column ranges, layout of the partial networks, the four values
            real_vals = [P.to_fraction(p) for p in ps]
            line = '{} opt {} {} {} {} {} {} {} {}'.format(OP, size[0], size[1], mode, bits(f), *a)

            def post(reply, real_vals=real_vals, D=D, n=n):
                toks = reply.split()
                if len(toks) != 4 or toks[0] != 'ok':
                    return 'model ' + reply[:60]
                ls, rs = int(toks[1]), int(toks[2])
                vals = [Fraction(int(x)) / Fraction(D) ** n for x in toks[3].split(',')]
                verdict = 'values-ok'
                if len(vals) != len(real_vals):
                    verdict = 'count'
                for i, (rv, ev) in enumerate(zip(real_vals, vals)):
                    top = max(vals)
                    if rv is None or abs(rv - ev) > P.REL_TOL * (ev if ev > 0 else (top if top > 0 else 1)):
                        verdict = 'coset {} real {!r} model {:.17e}'.format(
                            'IXYZ'[i], None if rv is None else float(rv), float(ev))
                        break
                return '{} {} {} {}'.format(ls, rs, expected_layout(ls, rs), verdict)
            ctx.case(line, desc + ' values-ok', nontrivial=True, meta=mmeta, post=post)
            if want is not None:
                ls, rs = min(size) - 1, max(size) - 1
                # exact: the model's optimised procedure == cosetProb on the REAL matrices (code's own logicals)
                ctx.case(line, 'ok {} {} {}'.format(ls, rs, want), nontrivial=True, meta=mmeta)
                # ... == cosetProb on the MODEL's stabilizers of the four diagonal-logical samples (theorem statement)
                ctx.case('{} optcoset {} {} {} {} {} {} {} {}'.format(OP, size[0], size[1], mode, bits(f), *a), want,
                         nontrivial=True, meta=mmeta)
        if want is not None:
            w0 = want.split(',')[0]
            ctx.case('{} tnvalue {}'.format(OP, args), 'ok s ' + w0, nontrivial=True, meta=meta)
            ctx.case('{} tncoset {}'.format(OP, args), w0, nontrivial=True, meta=meta)
            if n <= 8:
                ctx.case('{} tnexact {}'.format(OP, args), 'ok ' + w0, nontrivial=True, meta=meta)
    ctx.flush()


# ------------------------------------------------------------------------------------------------ search

def evaluate_input(meta):
    """the property on the real code for a recorded case: `_coset_probabilities(dist, sample)` of the real
    PlanarRMPSDecoder (modes c, r, a) against the exact coset sums enumerated in Python"""
    from qecsim.models.planar import PlanarCode, PlanarRMPSDecoder
    P = _c10()
    code = PlanarCode(*meta['size'])
    n = code.n_k_d[0]
    if len(code.stabilizers) > 17:
        return None
    dist = tuple(float.fromhex(x) for x in meta['dist'])
    f = np.array([int(c) for c in meta['sample']], dtype=int)
    a, D = P.numerators(dist)
    exact = [Fraction(x) / Fraction(D) ** n for x in P.python_exact(code, f, a)]
    for mode in ('c', 'r', 'a'):
        try:
            with core.TimeLimit(P.DECODE_LIMIT):
                ps, _ = PlanarRMPSDecoder(mode=mode)._coset_probabilities(dist, code.new_pauli(f))
        except Exception as ex:
            return {'what': 'PlanarRMPSDecoder(mode={})._coset_probabilities raised {!r}'.format(mode, ex)[:300],
                    'code': 'PlanarCode{}'.format(tuple(meta['size'])), 'sample_pauli_bsf': meta['sample'],
                    'prob_dist': list(dist)}
        for i, (p, e) in enumerate(zip(ps, exact)):
            pf = P.to_fraction(p)
            tol = P.REL_TOL * e if e > 0 else P.REL_TOL * (max(exact) if max(exact) else 1)
            if pf is None or abs(pf - e) > tol:
                return {'what': 'PlanarRMPSDecoder(mode={}, chi=None)._coset_probabilities: coset {} probability {!r} '
                                'differs from the exact coset sum {:.17e}'.format(mode, 'IXYZ'[i], p, float(e)),
                        'decoder': 'PlanarRMPSDecoder', 'mode': mode,
                        'code': 'PlanarCode{}'.format(tuple(meta['size'])),
                        'sample_pauli_bsf': meta['sample'], 'prob_dist': list(dist),
                        'real_coset_probabilities': [float(x) for x in ps],
                        'exact_coset_probabilities_IXYZ': [float(x) for x in exact]}
    return None


def search(m):
    meta = m.get('meta')
    if not meta or meta.get('family') != FAMILY:
        return None
    found = evaluate_input(meta)
    if found is None and len(meta.get('size', [])) == 2:
        # near variants: the same sample class on the small non-square shapes, where the bookkeeping differs most
        rng = np.random.default_rng(0)
        from qecsim.models.planar import PlanarCode
        for size in [(2, 4), (4, 2), (2, 3), (3, 2), (2, 2), (3, 3), (2, 5), (5, 2)]:
            code = PlanarCode(*size)
            for _ in range(3):
                f = rng.integers(0, 2, 2 * code.n_k_d[0])
                found = evaluate_input(dict(meta, size=list(size), sample=bits(f)))
                if found:
                    return found
    return found


def _main():
    """standalone run (no evidence written): queue the cases, flush, report mismatches and — as `finish` would —
    the first failing input of the property found by `search`"""
    import logging
    import time
    logging.getLogger('qecsim').setLevel(logging.CRITICAL)
    logging.disable(logging.WARNING)
    tier = sys.argv[1] if len(sys.argv) > 1 else 'quick'
    seed = int(os.environ.get('VERIF_SEED', '0') or 0)
    core.assert_repo_binding()
    ctx = core.Ctx('C10', tier, seed)
    t0 = time.time()
    cases(ctx)
    ctx.flush()
    mis = [x for x in ctx.mismatches if x]
    if mis or ctx.counterexamples:
        found = None
        for m in mis[:50]:
            found = search(m)
            if found:
                break
        print('MISMATCHES {} monitor {}'.format(len(ctx.mismatches), len(ctx.counterexamples)))
        if mis:
            m = mis[0]
            print(' first: op={} ...\n   impl ={}\n   model={}\n   meta={}'.format(
                m['op'][:120], m['impl'][:300], m['model'][:300], m['meta']))
        if ctx.counterexamples:
            print(' monitor:', ctx.counterexamples[0])
        print(' failing input of the property:', found)
        return 1
    print('OK c10_rmps tier={} seed={} evaluations={} distinct={} runs={} networks={} codes={} shapes={} wall={:.1f}s'
          .format(tier, seed, ctx.evaluations, len(ctx.distinct), ctx.extra.get('rmps_runs'),
                  ctx.extra.get('rmps_networks'), dict(ctx.hist['rmps_code']), dict(ctx.hist['rmps_shape']),
                  time.time() - t0))
    return 0


if __name__ == '__main__':
    sys.exit(_main())
