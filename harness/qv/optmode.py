"""OPTIMISED-MODE probe, shared by C07, C08 and C15: the interpreter MODE is an input of every property.

qecsim's README documents `python -O -m qecsim …` (asserts stripped, __debug__ False) as the fast way to run it, so
"every constructible code" / "the advertised distance" quantify over codes constructed under `python -O` (and `-OO`) as
much as under the normal interpreter.  Code that is correct only because an `assert` fires (EAFP on AssertionError, an
`assert` doing real work) is invisible to any in-process check.

The probe starts `/venv/bin/python -O` (same PYTHONPATH / QECSIM_REPO binding as the harness: <core.REPO>/src first,
the child reports where qecsim resolved to and its sys.flags.optimize) on THIS file as a script; for every family and every
size up to the bound the child prints n_k_d, shapes and sha256 of stabilizers / logical_xs / logical_zs, for the small
sizes the matrices themselves and the outcome of code.validate().  The parent computes the same record in-process
(normal mode) and
  * any difference between the two modes is a failure with a concrete input ("construct <code> under python -O"): the
    property is then evaluated on the -O matrices to say what exactly is false there;
  * the property is evaluated on the dumped -O matrices of the small sizes in any case:
      C07  commutation, canonical pairing, GF(2) rank n-k, logical independence, shapes (families.common helpers);
      C08  no operator lighter than d is a non-trivial logical (true notion: commutes with every stabilizer, not in their
           span; all Paulis up to weight 2 by brute force, then the independent level search while the stabilizers
           commute), d attained, plus the Lean-verified search / certificate cases on the -O matrices (ctx.case).
      C15  (probe_c15, job kind 'c15') the child dumps Pauli operators instead of code matrices: path(a, b) for all
           ordered same-type plaquette pairs (planar: incl. every boundary-virtual plaquette), plaquette(p) and single
           site writes at every index in a margin of 2 around the lattice; judged by a qecsim-free statement of the
           geometry: syndrome of the path = its in-lattice end points, documented plaquette support, site writes outside
           a bounded lattice have no effect / reduce modulo the shape on tori.
"""
import hashlib
import json
import os
import subprocess
import sys

KEYS = ('stabilizers', 'logical_xs', 'logical_zs')


# ------------------------------------------------------------------------------------------ both sides

CLASSES = {'planar': ('qecsim.models.planar', 'PlanarCode'), 'toric': ('qecsim.models.toric', 'ToricCode'),
           'rotatedplanar': ('qecsim.models.rotatedplanar', 'RotatedPlanarCode'),
           'rotatedtoric': ('qecsim.models.rotatedtoric', 'RotatedToricCode'),
           'color666': ('qecsim.models.color', 'Color666Code'), 'five': ('qecsim.models.basic', 'FiveQubitCode'),
           'steane': ('qecsim.models.basic', 'SteaneCode')}


def make_code(fam, args):
    import importlib
    mod, cls = CLASSES[fam]
    return getattr(importlib.import_module(mod), cls)(*args)


def describe(fam, args, dump):
    """canonical record of one code as the current interpreter constructs it"""
    import numpy as np
    rec = {'fam': fam, 'args': list(args)}
    try:
        code = make_code(fam, args)
        rec['n_k_d'] = [None if x is None else int(x) for x in code.n_k_d]
        rec['shape'], rec['sha'] = {}, {}
        if dump:
            rec['mat'] = {}
        for k in KEYS:
            M = np.atleast_2d(np.array(getattr(code, k)))
            rows = '/'.join(''.join('1' if int(x) % 2 else '0' for x in r) for r in M.tolist())
            if not set(np.unique(M).tolist()) <= {0, 1}:
                rows += '|values:' + ','.join(str(v) for v in np.unique(M).tolist()[:6])
            rec['shape'][k] = list(M.shape)
            rec['sha'][k] = hashlib.sha256(rows.encode()).hexdigest()[:24]
            if dump:
                rec['mat'][k] = rows
        if dump:
            try:
                code.validate()
                rec['validate'] = 'ok'
            except Exception as ex:  # noqa
                rec['validate'] = '{}: {}'.format(type(ex).__name__, ex)[:160]
    except Exception as ex:  # noqa: an exception in one mode only is a difference too
        rec['exc'] = '{}: {}'.format(type(ex).__name__, ex)[:200]
    return rec


def child_main():
    import logging
    import warnings
    logging.disable(logging.CRITICAL)
    warnings.simplefilter('ignore')
    job = json.load(sys.stdin)
    import qecsim
    if job.get('kind') == 'c15':
        records = [c15_describe(it['fam'], tuple(it['args'])) for it in job['items']]
    else:
        records = [describe(it['fam'], tuple(it['args']), it.get('dump', False)) for it in job['items']]
    out = {'optimize': sys.flags.optimize, 'debug': bool(__debug__),
           'qecsim': os.path.realpath(os.path.dirname(qecsim.__file__)), 'records': records}
    json.dump(out, sys.stdout)


# ------------------------------------------------------------------------------------------ parent side

def tag(fam, args):
    return fam + ' ' + 'x'.join(str(a) for a in args) if args else fam


def flags(tier):
    return ['-O'] if tier == 'quick' else ['-O', '-OO']


def sizes(tier):
    """every family, every size up to the bound (rectangles, strips, both parities)"""
    q = tier == 'quick'
    b = 6 if q else 9
    out = []
    for fam in ('planar', 'toric'):
        out += [(fam, (r, c)) for r in range(2, b + 1) for c in range(2, b + 1)]
    out += [('rotatedplanar', (r, c)) for r in range(3, b + 2) for c in range(3, b + 2)]
    out += [('rotatedtoric', (r, c)) for r in range(2, (8 if q else 12) + 1, 2) for c in range(2, (8 if q else 12) + 1, 2)]
    out += [('color666', (s,)) for s in range(3, (11 if q else 17) + 1, 2)]
    out += [('five', ()), ('steane', ())]
    return out


def is_small(rec, cap):
    """small = the exhaustive searches of C08 fit `cap` operators"""
    from qv import c08_search as cs
    if 'n_k_d' not in rec or rec['n_k_d'][2] is None:
        return True
    n, _, d = rec['n_k_d']
    return cs.count_ops(n, d, rec['fam'] != 'five') <= cap


def command(flag, fam, args):
    from qv import core
    mod, cls = CLASSES[fam]
    return ('PYTHONPATH={}/src /venv/bin/python {} -c "from {} import {} as C; c = C({}); print(c.n_k_d); '
            'print(c.stabilizers); c.validate()"'.format(core.REPO, flag, mod, cls, ', '.join(str(a) for a in args)))


def run_child(flag, items, timeout=900, kind=None):
    from qv import core
    env = dict(os.environ)
    env['PYTHONPATH'] = os.path.join(core.REPO, 'src') + (os.pathsep + env['PYTHONPATH'] if env.get('PYTHONPATH')
                                                          else '')
    env['PYTHONWARNINGS'] = 'ignore'
    env.pop('PYTHONOPTIMIZE', None)
    for k in ('OPENBLAS_NUM_THREADS', 'OMP_NUM_THREADS', 'MKL_NUM_THREADS'):
        env[k] = '1'
    job = {'items': [{'fam': f, 'args': list(a), 'dump': bool(d)} for f, a, d in items]}
    if kind:
        job['kind'] = kind
    p = subprocess.run([sys.executable] + ([flag] if flag else []) + [os.path.abspath(__file__)],
                       input=json.dumps(job), env=env, stdout=subprocess.PIPE, stderr=subprocess.PIPE, text=True,
                       timeout=timeout)
    if p.returncode != 0:
        raise core.Infra('optmode child ({}) failed: {}'.format(flag, p.stderr[-600:]))
    try:
        out = json.loads(p.stdout[p.stdout.index('{'):])
    except ValueError:
        raise core.Infra('optmode child ({}) printed no JSON: {}'.format(flag, p.stdout[-300:]))
    want = os.path.realpath(os.path.join(core.REPO, 'src', 'qecsim'))
    if out['qecsim'] != want:
        raise core.Infra('optmode child qecsim resolves to {} not {}'.format(out['qecsim'], want))
    if out['optimize'] != flag.count('O') or out['debug'] != (flag == ''):
        raise core.Infra('optmode child did not run in mode {!r}: {}'.format(flag, out['optimize']))
    if len(out['records']) != len(items):
        raise core.Infra('optmode child returned {} records for {} items'.format(len(out['records']), len(items)))
    return out['records']


def differences(a, b):
    out = []
    for k in ('exc', 'n_k_d', 'validate'):
        if a.get(k) != b.get(k):
            out.append(k)
    for k in KEYS:
        if (a.get('sha') or {}).get(k) != (b.get('sha') or {}).get(k) or \
                (a.get('shape') or {}).get(k) != (b.get('shape') or {}).get(k):
            out.append(k)
    return out


def matrices(rec):
    import numpy as np
    out = []
    for k in KEYS:
        rows = rec['mat'][k].split('|')[0]
        out.append(np.array([[int(c) for c in r] for r in rows.split('/') if r != ''], dtype=int))
    return out


# ------------------------------------------------------------------------------------------ the properties on matrices

def c07_problems(rec):
    """C07's statement on the matrices of a record (list of what is false)"""
    import numpy as np
    from qv.families.common import bsp, gf2_rank
    if 'exc' in rec:
        return ['constructing the code raises ' + rec['exc']]
    S, Lx, Lz = matrices(rec)
    n, k, _ = rec['n_k_d']
    bad = []
    if '|' in ''.join(rec['mat'].values()):
        bad.append('matrix entries outside {0,1}')
    if S.ndim != 2 or S.shape[1] != 2 * n or Lx.shape != (k, 2 * n) or Lz.shape != (k, 2 * n):
        return bad + ['n/k disagree with matrix shapes']
    if bsp(S, S).any():
        bad.append('stabilizers do not mutually commute')
    if bsp(S, Lx).any() or bsp(S, Lz).any():
        bad.append('stabilizers do not commute with logicals')
    if not np.array_equal(bsp(Lx, Lz), np.identity(k, dtype=int)) or bsp(Lx, Lx).any() or bsp(Lz, Lz).any():
        bad.append('logical pairing is not canonical')
    r = gf2_rank(S)
    if r != n - k:
        bad.append('stabilizer rank {} != n-k = {}'.format(r, n - k))
    if gf2_rank(np.vstack((S, Lx, Lz))) != r + 2 * k:
        bad.append('logicals not independent of stabilizers')
    if rec.get('validate', 'ok') != 'ok':
        bad.append('code.validate() raises ' + rec['validate'])
    return bad


def c08_problem(rec, budget=3 * 10 ** 6):
    """C08's statement on the matrices of a record: dict(what, operator, true_min_weight) or None"""
    import itertools
    from qv import c08_search as cs
    from qv.core import bits
    if 'exc' in rec:
        return {'what': 'constructing the code raises ' + rec['exc']}
    S, Lx, Lz = matrices(rec)
    n, k, d = rec['n_k_d']
    if d is None:
        return None
    if S.ndim != 2 or S.shape[1] != 2 * n:
        return {'what': 'stabilizers have {} columns for n = {}'.format(S.shape[-1], n)}
    Si = [cs.to_int(r) for r in S.tolist()]
    span = cs.Span(Si)

    def light(e, w):
        return {'what': 'operator of weight {} < d = {} commutes with all stabilizers and is not a product of '
                        'stabilizers'.format(w, d), 'operator': bits(cs.from_int(e, 2 * n)), 'true_min_weight': w}
    # all Paulis of weight <= 2 under the property's own notion (no assumption on S at all)
    for w in range(1, min(d, 3)):
        for qs in itertools.combinations(range(n), w):
            for ops in itertools.product((1, 2, 3), repeat=w):
                e = 0
                for q, o in zip(qs, ops):
                    e |= ((1 << q) if o & 1 else 0) | ((1 << (n + q)) if o & 2 else 0)
                if all(cs.sym(e, s, n) == 0 for s in Si) and not span.contains(e):
                    return light(e, w)
    commuting = all(cs.sym(a, b, n) == 0 for a, b in itertools.combinations(Si, 2))
    css = rec['fam'] != 'five' and all((s >> n) == 0 or (s & ((1 << n) - 1)) == 0 for s in Si)
    if not commuting or cs.count_ops(n, d + 1, css) > budget:
        return None  # weight <= 2 covered above; beyond that the level search needs a commuting stabilizer set
    Lq = cs.normaliser_quotient(Si, n, css=css)
    for w in range(1, d + 2):
        e, _ = (cs.py_search_css if css else cs.py_search_any)(Si, Lq, n, w)
        if e is not None:
            if not cs.is_nontrivial_logical(Si, e, n):
                continue
            if cs.wt(e, n) < d:
                return light(e, cs.wt(e, n))
            return None  # lightest non-trivial logical has weight exactly d
    return {'what': 'no operator of weight <= d = {} is a non-trivial logical (exhaustive): d is not attained'.format(d),
            'true_min_weight': '> {}'.format(d)}


def c08_cases(ctx, rec, flag):
    """the Lean-verified search / certificate on the -O matrices (same ops as props/c08.py uses in-process)"""
    from qv import c08_search as cs
    from qv.core import bits, mat
    S, Lx, Lz = matrices(rec)
    n, k, d = rec['n_k_d']
    if d is None or S.shape[1] != 2 * n:
        return
    css = rec['fam'] != 'five'
    S, L = S.tolist(), Lx.tolist() + Lz.tolist()
    Si, Li = [cs.to_int(r) for r in S], [cs.to_int(r) for r in L]
    Lq = cs.normaliser_quotient(Si, n, css=css)
    Lall = L + [cs.from_int(v, 2 * n) for v in Lq if v not in Li]
    sS, sL, sLall = mat(S), mat(L), mat(Lall)
    meta = {'fam': rec['fam'], 'args': rec['args'], 'tag': tag(rec['fam'], rec['args']), 'optmode': flag}
    if css:
        ctx.case('c08 css {} {} {}'.format(n, sS, sLall), '1', meta=dict(meta, kind='css'))
    ctx.case('c08 innorm {} {}'.format(sS, sLall), '1', meta=dict(meta, kind='innorm'))
    ctx.case('c08 {} {} {} {} {}'.format('search' if css else 'searchany', n, sS, sLall, d), 'none',
             meta=dict(meta, kind='search'))
    wts = [cs.wt(v, n) for v in Li]
    ctx.case('c08 cert {} {} {}'.format(sS, sL, bits(L[wts.index(min(wts))])), '1 {}'.format(max(min(wts), d)),
             meta=dict(meta, kind='cert'))


def evaluate(pid, rec):
    """(what, extra) when property `pid` is false on the matrices of the record, else None"""
    if pid == 'C07':
        bad = c07_problems(rec)
        return ('C07 fails: ' + '; '.join(bad), {}) if bad else None
    pr = c08_problem(rec)
    if pr:
        return pr['what'], {k: v for k, v in pr.items() if k != 'what'}
    return None


def failing_input(pid, flag, rec, base, what, extra):
    d = {'optmode': flag, 'mode': 'python ' + flag, 'code': tag(rec['fam'], rec['args']), 'family': rec['fam'],
         'args': rec['args'], 'n_k_d': rec.get('n_k_d'), 'what': what, 'how': command(flag, rec['fam'], rec['args']),
         'differs_from_normal_mode_in': differences(base, rec) if base else None}
    d.update(extra)
    if rec.get('mat') and base and base.get('mat') and 'stabilizers' in d['differs_from_normal_mode_in']:
        a, b = base['mat']['stabilizers'].split('/'), rec['mat']['stabilizers'].split('/')
        rows = [i for i in range(min(len(a), len(b))) if a[i] != b[i]]
        d['stabilizer_rows_differing'] = rows[:12]
        if rows:
            d['first_differing_row'] = {'normal': a[rows[0]], 'optimised': b[rows[0]]}
    return d


def probe(ctx, pid, small_cap=2 * 10 ** 5):
    """run the probe for property `pid` ('C07' | 'C08'): ctx.monitor_fail on every concrete failure, counts, explored"""
    items = sizes(ctx.tier)
    base = {}
    for fam, args in items:
        r = describe(fam, args, False)
        if is_small(r, small_cap) and 'exc' not in r:
            r = describe(fam, args, True)
        base[(fam, args)] = r
    summary = {}
    for flag in flags(ctx.tier):
        recs = run_child(flag, [(f, a, 'mat' in base[(f, a)]) for f, a in items])
        diff = [(f, a) for (f, a), r in zip(items, recs) if differences(base[(f, a)], r)]
        # matrices of the differing codes (both modes), smallest first
        need = sorted((x for x in diff if 'mat' not in base[x]), key=lambda x: (base[x].get('n_k_d') or [0])[0])[:4]
        redo = dict(zip(need, run_child(flag, [(f, a, True) for f, a in need]))) if need else {}
        for x in need:
            base[x] = describe(x[0], x[1], True)
        reported = set()
        n_eval = 0
        merely_different = []
        for (fam, args), rec in zip(items, recs):
            rec = redo.get((fam, args), rec)
            b = base[(fam, args)]
            ctx.count('optmode{}.family'.format(flag), fam)
            dif = differences(b, rec)
            ev = None
            if 'mat' in rec or 'exc' in rec:
                ev = evaluate(pid, rec)
                n_eval += 1
                if pid == 'C08' and 'mat' in rec and not dif:
                    c08_cases(ctx, rec, flag)
            key = 'optmode:{}:{}'.format(flag, fam)
            if ev and key not in reported:
                reported.add(key)
                ctx.monitor_fail('under `python {}` {}: {}'.format(flag, tag(fam, args), ev[0]),
                                 failing_input(pid, flag, rec, b, ev[0], ev[1]), key=key)
            elif dif and not ev:
                merely_different.append((key, fam, args, rec, b, dif))
        for key, fam, args, rec, b, dif in merely_different:
            # a difference on which the property was not found false (or whose matrices were not fetched): the code
            # object the property quantifies over is not the one that was checked in-process
            if key in reported:
                continue
            reported.add(key)
            what = '{} differ between `python {}` and the normal interpreter (n_k_d {} vs {})'.format(
                ', '.join(dif), flag, rec.get('n_k_d'), b.get('n_k_d'))
            ctx.monitor_fail('under `python {}` {}: {}'.format(flag, tag(fam, args), what),
                             failing_input(pid, flag, rec, b, what, {}), key=key)
        summary[flag] = {'codes': len(items), 'codes_differing_from_normal_mode': len(diff),
                         'property_evaluated_on_optimised_matrices': n_eval}
    ctx.explored['optimised_mode'] = {
        'evaluations': sum(v['codes'] for v in summary.values()), 'exhaustive': False, 'modes': summary,
        'rule': 'child interpreter /venv/bin/python <flag> bound to the same repo: n_k_d, shapes, sha256 of stabilizers / '
                'logical_xs / logical_zs of every size up to the bound equal the in-process values; matrices and '
                'validate() of the small sizes (C08 search space <= {} operators) dumped and {} evaluated on '
                'them'.format(small_cap, pid)}
    ctx.evaluations += sum(v['codes'] for v in summary.values())


def recheck(pid, inp):
    """replay of one recorded failing input: is the property still false for that code under that mode?"""
    flag, fam, args = inp['optmode'], inp['family'], tuple(inp['args'])
    rec = run_child(flag, [(fam, args, True)])[0]
    base = describe(fam, args, True)
    ev = evaluate(pid, rec)
    dif = differences(base, rec)
    print('replay {} under python {}: {}'.format(tag(fam, args), flag, ev[0] if ev else (
        'differs from normal mode in ' + ', '.join(dif) if dif else 'same as normal mode, property holds')))
    return bool(ev) or (bool(dif) and not inp.get('operator'))


def counterexample(pid, meta):
    """failing-input search for a correspondence break on -O matrices"""
    flag, fam, args = meta['optmode'], meta['fam'], tuple(meta['args'])
    rec = run_child(flag, [(fam, args, True)])[0]
    ev = evaluate(pid, rec)
    if ev:
        return failing_input(pid, flag, rec, describe(fam, args, True), ev[0], ev[1])
    return None


# ------------------------------------------------------------------------------------------ C15: paths under -O
#
# For C15 the objects the property quantifies over are Pauli operators built by `new_pauli().path / plaquette / site`,
# so the probe dumps THOSE (not only the code matrices): for every family with paths and every size up to a small bound
# the bsf of path(a, b) for all ordered same-type pairs (planar: real and ALL boundary-virtual plaquettes), plaquette(p)
# for every plaquette index in a margin around the lattice and single site writes at every index in a margin (in-lattice
# and out-of-lattice).  The same function runs in the parent (normal mode); the parent compares the two records and
# evaluates the property on the -O record with geometry stated here independently of qecsim.

C15_FAMS = ('planar', 'toric', 'rotatedtoric')


def c15_sizes(tier):
    q = tier == 'quick'
    out = [(fam, (r, c)) for fam in ('planar', 'toric') for r in range(2, (5 if q else 7) + 1)
           for c in range(2, (5 if q else 7) + 1)]
    ev = range(2, (6 if q else 8) + 1, 2)
    return out + [('rotatedtoric', (r, c)) for r in ev for c in ev]


def ikey(i):
    return ','.join(str(int(x)) for x in i)


def unkey(s):
    return tuple(int(x) for x in s.split(','))


def c15_geometry(fam, args):
    """stated independently of qecsim: (plaquettes [real], extra plaquette indices [virtual / margin], same_type(a, b),
    site indices to write [margin box], canon(site index) -> in-lattice site index | None (no effect) | 'IndexError',
    support(plaquette index) -> (operator, [site indices, unclipped / unreduced]))"""
    R, C = args
    if fam == 'planar':
        mr, mc = 2 * R - 2, 2 * C - 2
        box = [(r, c) for r in range(-2, mr + 3) for c in range(-2, mc + 3)]
        real = [(r, c) for r in range(mr + 1) for c in range(mc + 1) if r % 2 != c % 2]
        virt = [(r, c) for c in range(0, mc + 1, 2) for r in (-1, mr + 1)] + \
               [(r, c) for r in range(0, mr + 1, 2) for c in (-1, mc + 1)]
        plaq_margin = [i for i in box if i[0] % 2 != i[1] % 2]

        def same(a, b):
            return a[0] % 2 == b[0] % 2

        def canon(i):
            if i[0] % 2 != i[1] % 2:
                return 'IndexError'
            return i if 0 <= i[0] <= mr and 0 <= i[1] <= mc else None

        def support(p):
            r, c = p
            return ('Z' if r % 2 == 1 else 'X'), [(r - 1, c), (r + 1, c), (r, c - 1), (r, c + 1)]
        return real, virt, same, box, canon, support, plaq_margin
    if fam == 'toric':
        real = [(l, r, c) for l in (0, 1) for r in range(R) for c in range(C)]
        box = [(l, r, c) for l in (-1, 0, 1, 2) for r in range(-2, R + 2) for c in range(-2, C + 2)]

        def same(a, b):
            return a[0] % 2 == b[0] % 2

        def canon(i):
            return (i[0] % 2, i[1] % R, i[2] % C)

        def support(p):
            l, r, c = p[0] % 2, p[1], p[2]
            if l == 0:
                return 'Z', [(0, r, c), (0, r + 1, c), (1, r, c), (1, r, c + 1)]
            return 'X', [(1, r, c), (1, r + 1, c), (0, r + 1, c - 1), (0, r + 1, c)]
        return real, [], same, box, canon, support, box
    if fam == 'rotatedtoric':
        real = [(x, y) for y in range(R) for x in range(C)]
        box = [(x, y) for y in range(-2, R + 2) for x in range(-2, C + 2)]

        def same(a, b):
            return (a[0] - a[1]) % 2 == (b[0] - b[1]) % 2

        def canon(i):
            return (i[0] % C, i[1] % R)

        def support(p):
            x, y = p
            return ('Z' if (x - y) % 2 == 0 else 'X'), [(x, y), (x, y + 1), (x + 1, y + 1), (x + 1, y)]
        return real, [], same, box, canon, support, box
    raise ValueError(fam)


def c15_describe(fam, args):
    """what the current interpreter computes: order of the code's plaquettes, stabilizers, path / plaquette / site bsfs"""
    def out(f):
        try:
            return ''.join('1' if int(x) % 2 else '0' for x in f().to_bsf())
        except Exception as ex:  # noqa: an exception in one mode only is a difference, and may falsify the property
            return 'EXC {}: {}'.format(type(ex).__name__, ex)[:120]
    rec = {'fam': fam, 'args': list(args)}
    real, virt, same, box, canon, support, plaq_margin = c15_geometry(fam, args)
    try:
        code = make_code(fam, args)
        rec['n'] = int(code.n_k_d[0])
        order = code._indices if fam == 'toric' else code._plaquette_indices
        rec['order'] = [ikey(i) for i in order]
    except Exception as ex:  # noqa
        rec['exc'] = '{}: {}'.format(type(ex).__name__, ex)[:200]
        return rec
    try:
        rec['stabilizers'] = '/'.join(''.join('1' if int(x) % 2 else '0' for x in r) for r in code.stabilizers)
    except Exception as ex:  # noqa
        rec['stabilizers'] = 'EXC {}: {}'.format(type(ex).__name__, ex)[:120]
    allp = real + virt
    rec['path'] = {ikey(a) + '>' + ikey(b): out(lambda: code.new_pauli().path(a, b))
                   for a in allp for b in allp if same(a, b)}
    rec['plaquette'] = {ikey(p): out(lambda: code.new_pauli().plaquette(p)) for p in plaq_margin}
    rec['site'] = {op + ikey(i): out(lambda: code.new_pauli().site(op, i)) for i in box for op in 'XZY'}
    return rec


def c15_differences(a, b):
    """[(what, key)]: first differing key per category"""
    out = []
    for k in ('exc', 'n', 'order', 'stabilizers'):
        if a.get(k) != b.get(k):
            out.append((k, None))
    for k in ('path', 'plaquette', 'site'):
        da, db = a.get(k) or {}, b.get(k) or {}
        bad = [x for x in da if da[x] != db.get(x)] + [x for x in db if x not in da]
        if bad:
            out.append((k, bad[0]))
    return out


def c15_call(fam, args, kind, key):
    """python expression of the call a dumped value came from"""
    ctor = '{}({})'.format(CLASSES[fam][1], ', '.join(str(a) for a in args))
    if kind == 'path':
        a, b = key.split('>')
        return '{}.new_pauli().path(({}), ({}))'.format(ctor, a, b)
    if kind == 'plaquette':
        return '{}.new_pauli().plaquette(({}))'.format(ctor, key)
    if kind == 'site':
        return "{}.new_pauli().site('{}', ({}))".format(ctor, key[0], key[1:])
    return ctor + '.stabilizers'


def c15_problems(rec, limit=3):
    """C15's statement on one record: [(rank, what, kind, key, extra)], most direct first (rank 0 path, 1 plaquette of
    the lattice, 2 plaquette index outside the lattice, 3 site write, 4 plaquette order / stabilizer shape)"""
    fam, args = rec['fam'], tuple(rec['args'])
    if 'exc' in rec:
        return [(0, 'constructing the code raises ' + rec['exc'], 'ctor', None, {})]
    real, virt, same, box, canon, support, plaq_margin = c15_geometry(fam, args)
    n = rec['n']
    bad = {'path': [], 'plaquette': [], 'margin': [], 'site': [], 'order': []}
    order = [unkey(k) for k in rec['order']]
    if sorted(order) != sorted(real):
        bad['order'].append(('the plaquettes that carry syndrome bits are not the lattice\'s plaquettes', 'order', None,
                             {'plaquettes': rec['order'][:40]}))
    pidx = {p: k for k, p in enumerate(order)}
    toint = lambda s: int(s, 2)  # noqa: E731  (bit string, qubit 0 first: only used for xor / equality)
    # ---- sites: every in-lattice site is one qubit (bijection), other indices reduce to one / have no effect / raise
    vec = {}
    for i in box:
        for op in 'XZY':
            v, c = rec['site'][op + ikey(i)], canon(i)
            key = op + ikey(i)
            if c == 'IndexError':
                if not v.startswith('EXC IndexError'):
                    bad['site'].append(('site write at a non-site index does not raise IndexError', 'site', key,
                                        {'result': v}))
                continue
            if v.startswith('EXC'):
                bad['site'].append(('site write raises ' + v[4:], 'site', key, {'result': v}))
                continue
            if c == i:
                x, z = v[:n], v[n:]
                ok = (x.count('1'), z.count('1')) == {'X': (1, 0), 'Z': (0, 1), 'Y': (1, 1)}[op] and \
                    (op != 'Y' or x == z)
                if not ok or len(v) != 2 * n:
                    bad['site'].append(('site write on an in-lattice site is not that single-qubit operator', 'site', key,
                                        {'result': v}))
                vec[(op, i)] = v
    qubits = {}
    for (op, i), v in vec.items():
        if op == 'X' and v.count('1') == 1:
            q = v.index('1')
            if q in qubits:
                bad['site'].append(('two in-lattice sites address the same qubit', 'site', 'X' + ikey(i),
                                    {'other_site': list(qubits[q]), 'qubit': q}))
            qubits[q] = i
    for i in box:
        for op in 'XZY':
            v, c, key = rec['site'][op + ikey(i)], canon(i), op + ikey(i)
            if c == 'IndexError' or v.startswith('EXC') or c == i:
                continue
            want = '0' * (2 * n) if c is None else vec.get((op, c))
            if want is not None and v != want:
                bad['site'].append((
                    'site write outside the lattice changes the operator (documented: no effect)' if c is None else
                    'site write is not invariant under index reduction modulo the lattice shape', 'site', key,
                    {'result': v, 'expected': want, 'qubits_touched': [k % n for k, ch in enumerate(v) if ch == '1']}))

    def sitevec(op, s):
        c = canon(s)
        if c is None:
            return 0
        v = vec.get((op, c))
        return None if v is None or v.startswith('EXC') else toint(v)
    # ---- plaquettes: documented support (parts outside a bounded lattice have no effect; periodic otherwise)
    for p in real + virt + [x for x in plaq_margin if x not in set(real) | set(virt)]:
        if ikey(p) not in rec['plaquette']:
            continue
        v = rec['plaquette'][ikey(p)]
        if v.startswith('EXC'):
            bad['plaquette'].append(('plaquette operator raises ' + v[4:], 'plaquette', ikey(p), {'result': v}))
            continue
        op, sup = support(p)
        parts = [sitevec(op, s) for s in sup]
        if None in parts:
            continue
        want = 0
        for x in parts:
            want ^= x
        if toint(v) != want:
            bad['plaquette' if p in pidx else 'margin'].append((
                'plaquette operator does not have its documented support' if p in pidx else
                'plaquette operator at an index outside the lattice does not have its documented (clipped / periodic) '
                'support', 'plaquette', ikey(p),
                                     {'result': v, 'expected': format(want, '0{}b'.format(2 * n)),
                                      'documented_sites': [list(s) for s in sup if canon(s) is not None]}))
    # ---- paths: anticommute with exactly the in-lattice endpoints (w.r.t. this interpreter's stabilizers)
    S = rec['stabilizers']
    if S.startswith('EXC'):
        bad['plaquette'].append(('code.stabilizers raises ' + S[4:], 'stabilizers', None, {}))
        rows = None
    else:
        rows = S.split('/')
        if len(rows) != len(order) or any(len(r) != 2 * n for r in rows):
            bad['order'].append(('stabilizers are not one row of 2n bits per plaquette', 'stabilizers', None, {}))
            rows = None
    mask = (1 << n) - 1
    twist = lambda t: ((t & mask) << n) | (t >> n)  # noqa: E731  swap x / z halves
    refs = []
    if rows is not None:
        refs.append(('code.stabilizers', [twist(toint(r)) for r in rows]))
    doc = []
    for p in order:
        op, sup = support(p)
        parts = [sitevec(op, s) for s in sup]
        if None in parts:
            doc = None
            break
        w = 0
        for x in parts:
            w ^= x
        doc.append(twist(w))
    if doc is not None and sorted(order) == sorted(real):
        refs.append(('the documented plaquette operators', doc))
    for ref, twisted in refs:
        for key, v in rec['path'].items():
            a, b = (unkey(k) for k in key.split('>'))
            if v.startswith('EXC'):
                bad['path'].append(('path between same-type plaquettes raises ' + v[4:], 'path', key, {'result': v}))
                continue
            if len(v) != 2 * n:
                bad['path'].append(('path bsf does not have 2n entries', 'path', key, {'result': v}))
                continue
            e = toint(v)
            syn = [bin(e & t).count('1') % 2 for t in twisted]
            want = [0] * len(order)
            ca, cb = (canon_plaq(fam, args, a), canon_plaq(fam, args, b))
            if ca != cb:
                for x in (ca, cb):
                    if x in pidx:
                        want[pidx[x]] ^= 1
            if syn != want:
                bad['path'].append((
                    'path does not anticommute with exactly its in-lattice endpoints (w.r.t. {})'.format(ref), 'path', key,
                    {'path_bsf': v, 'anticommutes_with': [list(order[k]) for k, s in enumerate(syn) if s],
                     'in_lattice_endpoints': [list(order[k]) for k, s in enumerate(want) if s]}))
                if len(bad['path']) >= limit:
                    break
        if bad['path']:
            break
    out = []
    for rank, k in enumerate(('path', 'plaquette', 'margin', 'site', 'order')):
        out += [(rank,) + x for x in bad[k][:limit]]
    return out


def canon_plaq(fam, args, p):
    R, C = args
    if fam == 'toric':
        return (p[0] % 2, p[1] % R, p[2] % C)
    if fam == 'rotatedtoric':
        return (p[0] % C, p[1] % R)
    return p


def c15_failing_input(flag, rec, base, what, kind, key, extra):
    from qv import core
    fam, args = rec['fam'], rec['args']
    call = c15_call(fam, args, kind, key) if kind != 'ctor' else '{}({})'.format(CLASSES[fam][1], ', '.join(map(str, args)))
    d = {'optmode': flag, 'mode': 'python ' + flag, 'code': tag(fam, args), 'family': fam, 'args': list(args),
         'what': what, 'call': call,
         'how': 'PYTHONPATH={}/src /venv/bin/python {} -c "from {} import {}; p = {}; print(p if isinstance(p, str) or '
                'not hasattr(p, \'to_bsf\') else p.to_bsf())"'.format(core.REPO, flag, CLASSES[fam][0], CLASSES[fam][1],
                                                                     call)}
    d.update(extra)
    if base is not None:
        dif = c15_differences(base, rec)
        d['differs_from_normal_mode_in'] = [k for k, _ in dif]
        if kind in ('path', 'plaquette', 'site') and key is not None:
            d['normal_mode_result'] = (base.get(kind) or {}).get(key)
    return d


def probe_c15(ctx):
    """C15 under the optimised interpreter: ctx.monitor_fail on every concrete failure (one per mode and family)"""
    items = c15_sizes(ctx.tier)
    base = {x: c15_describe(*x) for x in items}
    summary = {}
    for flag in flags(ctx.tier):
        recs = run_child(flag, [(f, a, False) for f, a in items], kind='c15')
        n_paths, n_diff = 0, 0
        worst, differing = {}, {}
        for (fam, args), rec in zip(items, recs):
            b = base[(fam, args)]
            ctx.count('optmode{}.c15.family'.format(flag), fam)
            n_paths += len(rec.get('path') or {})
            dif = c15_differences(b, rec)
            n_diff += bool(dif)
            probs = c15_problems(rec)
            # one report per mode and family: the most direct statement first (a path before a plaquette before a site
            # write), the smallest lattice first
            if probs and (fam not in worst or probs[0][0] < worst[fam][0][0]):
                worst[fam] = (probs[0], rec, b)
            if dif and fam not in differing:
                differing[fam] = (dif, rec, b)
        for fam in C15_FAMS:
            key = 'optmode:{}:{}'.format(flag, fam)
            if fam in worst:
                (_, what, kind, k, extra), rec, b = worst[fam]
                args = rec['args']
                ctx.monitor_fail('under `python {}` {}: {} [{}]'.format(flag, tag(fam, args), what,
                                                                        c15_call(fam, args, kind, k)
                                                                        if kind != 'ctor' else 'constructor'),
                                 c15_failing_input(flag, rec, b, what, kind, k, extra), key=key)
            elif fam in differing:
                dif, rec, b = differing[fam]
                args = rec['args']
                kind, k = dif[0]
                what = '{} differ{} between `python {}` and the normal interpreter'.format(
                    ', '.join(x for x, _ in dif), 's' if len(dif) == 1 else '', flag)
                extra = {'optimised_result': (rec.get(kind) or {}).get(k)} if k else {}
                ctx.monitor_fail('under `python {}` {}: {}'.format(flag, tag(fam, args), what),
                                 c15_failing_input(flag, rec, b, what, kind if k else 'stabilizers', k, extra), key=key)
        summary[flag] = {'lattices': len(items), 'paths': n_paths, 'lattices_differing_from_normal_mode': n_diff}
        ctx.evaluations += n_paths
    # the in-process (normal mode) records get the same evaluation: the geometry stated here is a second, qecsim-free
    # statement of the property
    reported = set()
    for (fam, args), rec in base.items():
        probs = c15_problems(rec)
        if probs and fam not in reported:
            reported.add(fam)
            _, what, kind, k, extra = probs[0]
            ctx.monitor_fail('{}: {} [{}]'.format(tag(fam, args), what, c15_call(fam, args, kind, k)
                                                  if kind != 'ctor' else 'constructor'),
                             dict({'code': tag(fam, args), 'what': what, 'call': c15_call(fam, args, kind, k)
                                   if kind != 'ctor' else None}, **extra), key='paths:' + fam)
    ctx.explored['optimised_mode'] = {
        'evaluations': sum(v['paths'] for v in summary.values()), 'exhaustive': False, 'modes': summary,
        'rule': 'child interpreter /venv/bin/python <flag> bound to the same repo: for planar / toric (2..{}) and rotated '
                'toric (even 2..{}) lattices the bsf of path(a, b) for ALL ordered same-type pairs (planar: incl. every '
                'boundary-virtual plaquette), plaquette(p) and site(op, i) for every index in a margin of 2 around the '
                'lattice, and code.stabilizers equal the in-process values; the property (syndrome of the path = in-lattice '
                'end points, documented plaquette support, off-lattice site writes have no effect / reduce modulo the '
                'shape) is evaluated on the optimised-mode values'.format(5 if ctx.quick() else 7, 6 if ctx.quick() else 8)}


if __name__ == '__main__':
    child_main()
