"""C15 — `path` applied to NON-IDENTITY Paulis and in call chains (planar, toric, rotated toric)

The all-pairs checks of the families tie `code.new_pauli().path(a, b)` to the model.  The decoders, however, write
`recovery.path(a, b)` on a Pauli that already carries earlier paths, and `p.path(a, b).path(c, d)…` as a chain; the API
documents that `path` APPLIES the path operator to the Pauli it is called on and returns that very object.  Input class:
JSON-able histories {family, size, prior, calls, mode}:

* prior content: site operators, plaquettes, logicals, earlier paths (random; none for the `fresh-chain` kind);
* calls: same-type pairs — random, the same pair again, the reversed pair, a pair continuing at the previous end point,
  a pair running back over the previous one, and COINCIDENT end points: the same tuple object, an equal tuple, an index
  congruent modulo the lattice (periodic families), tuple vs list (rotated toric, the only family whose path accepts
  lists); on the planar code also the boundary-virtual plaquettes;
* mode 'step': each call separately — the operator APPLIED by the call (bsf before XOR bsf after) goes to the model as an
  ordinary `<family> path R C a b` case, must equal the fresh-Pauli path operator, must anticommute with exactly the
  (in-lattice, reduced) end points; the returned object must be the Pauli itself and carry the result;
* mode 'chain': `r = p; for (a, b): r = r.path(a, b)` exactly as the decoders chain it — the final `r.to_bsf()` and the
  original object's bsf must both be prior XOR all fresh-Pauli path operators, `r is p`.
"""
import random

import numpy as np

from qv.core import bits
from qv.families import common


# ------------------------------------------------------------------------------------------------ family adapters

class Planar:
    name = 'planar'
    lists_ok = False

    def __init__(self, R, C):
        from qecsim.models.planar import PlanarCode
        from qv.families import planar as fam
        self.fam, self.R, self.C = fam, R, C
        self.code = PlanarCode(R, C)
        real, virt = fam.plaquettes_with_virtual(self.code)
        self.real = real
        self.pidx = {i: k for k, i in enumerate(real)}
        allp = real + virt
        self.groups = [[i for i in allp if self.code.is_primal(i)], [i for i in allp if not self.code.is_primal(i)]]
        mr, mc = self.code.bounds
        self.sites = [(r, c) for r in range(mr + 1) for c in range(mc + 1) if self.code.is_site((r, c))]
        self.logicals = ['logical_x', 'logical_z']

    def reduce(self, i):
        i = (int(i[0]), int(i[1]))
        return i if i in self.pidx else None

    def congruent(self, rng, a):
        return None


class Toric:
    name = 'toric'
    lists_ok = False

    def __init__(self, R, C):
        from qecsim.models.toric import ToricCode
        from qv.families import toric as fam
        self.fam, self.R, self.C = fam, R, C
        self.code = ToricCode(R, C)
        self.real = [tuple(int(x) for x in i) for i in self.code._indices]
        self.pidx = {i: k for k, i in enumerate(self.real)}
        self.groups = [[i for i in self.real if i[0] == 0], [i for i in self.real if i[0] == 1]]
        self.sites = list(self.real)
        self.logicals = ['logical_x1', 'logical_x2', 'logical_z1', 'logical_z2']

    def reduce(self, i):
        return self.fam.normalise(self.R, self.C, i)

    def congruent(self, rng, a):
        k = [rng.choice((-2, 0, 2)), rng.choice((-1, 0, 1, 2)) * self.R, rng.choice((-1, 0, 1, 2)) * self.C]
        if not any(k):
            k[1] = self.R
        return (a[0] + k[0], a[1] + k[1], a[2] + k[2])


class RotatedToric:
    name = 'rotatedtoric'
    lists_ok = True

    def __init__(self, R, C):
        from qecsim.models.rotatedtoric import RotatedToricCode
        from qv.families import rotatedtoric as fam
        self.fam, self.R, self.C = fam, R, C
        self.code = RotatedToricCode(R, C)
        self.real = list(self.code._plaquette_indices)
        self.pidx = {i: k for k, i in enumerate(self.real)}
        self.groups = [[i for i in self.real if self.code.is_z_plaquette(i)],
                       [i for i in self.real if not self.code.is_z_plaquette(i)]]
        mx, my = self.code.bounds
        self.sites = [(x, y) for x in range(mx + 1) for y in range(my + 1)]
        self.logicals = ['logical_x1', 'logical_x2', 'logical_z1', 'logical_z2']

    def reduce(self, i):
        # independent statement: x modulo the number of columns, y modulo the number of rows
        return (int(i[0]) % self.C, int(i[1]) % self.R)

    def congruent(self, rng, a):
        k = [rng.choice((-1, 0, 1, 2)) * self.C, rng.choice((-1, 0, 1, 2)) * self.R]
        if not any(k):
            k[0] = self.C
        return (a[0] + k[0], a[1] + k[1])


ADAPTERS = {'planar': Planar, 'toric': Toric, 'rotatedtoric': RotatedToric}


# ------------------------------------------------------------------------------------------------ generators

def gen_prior(rng, ad, kind):
    if kind == 'fresh-chain':
        return []
    out = []
    for _ in range(rng.randint(1, 5)):
        what = rng.choice(('site', 'site', 'plaquette', 'logical', 'path', 'path'))
        if what == 'site':
            out.append(['site', rng.choice('XYZ'), [list(s) for s in rng.sample(ad.sites, rng.randint(1, min(4, len(ad.sites))))]])
        elif what == 'plaquette':
            out.append(['plaquette', list(rng.choice(ad.real))])
        elif what == 'logical':
            out.append(['logical', rng.choice(ad.logicals)])
        else:
            g = rng.choice([g for g in ad.groups if g])
            out.append(['path', list(rng.choice(g)), list(rng.choice(g))])
    if kind == 'dense':
        out.append(['site', rng.choice('XYZ'), [list(s) for s in ad.sites]])
    return out


def gen_calls(rng, ad, kind):
    """list of [a, b, form] with form in '' (two tuples) / 'same' (one tuple object) / 'list-b' / 'list-a' / 'lists'"""
    groups = [g for g in ad.groups if g]
    calls, last = [], None                                 # last = (a, b, group) of the previous call
    n = rng.randint(2, 5) if kind != 'single' else 1
    while len(calls) < n:
        g = rng.choice(groups)
        r = rng.random()
        form = ''
        if r < 0.30 or (kind == 'coincident' and len(calls) == n - 1):
            # coincident end points
            if last and rng.random() < 0.5:
                a, g = last[rng.randint(0, 1)], last[2]
            else:
                a = rng.choice(g)
            v = rng.random()
            b = a
            if v < 0.35:
                form = 'same'
            elif v < 0.6:
                form = ''
            elif v < 0.8:
                c = ad.congruent(rng, a)
                if c is not None:
                    b = c
                    if rng.random() < 0.5:
                        a, b = b, a
            elif ad.lists_ok:
                form = rng.choice(('list-a', 'list-b', 'lists'))
        elif r < 0.42 and last:
            a, b, g = last                                         # identical pair again (must cancel)
        elif r < 0.54 and last:
            b, a, g = last                                         # reversed
        elif r < 0.68 and last:
            a, g = last[1], last[2]                                # continue at the previous end point
            b = rng.choice(g)
        elif r < 0.78 and last:
            b, g = last[0], last[2]                                # run back over the previous path
            a = rng.choice(g)
        else:
            a, b = rng.choice(g), rng.choice(g)
            if rng.random() < 0.2 and ad.congruent(rng, b) is not None:
                b = ad.congruent(rng, b)
        calls.append([list(a), list(b), form])
        last = (tuple(a), tuple(b), g)
    return calls


KINDS = ('mixed', 'mixed', 'coincident', 'fresh-chain', 'dense', 'single')


def gen_history(rng, fam, size):
    ad = adapter(fam, size)
    kind = rng.choice(KINDS)
    return {'family': fam, 'size': list(size), 'kind': kind, 'mode': rng.choice(('step', 'chain')),
            'prior': gen_prior(rng, ad, kind), 'calls': gen_calls(rng, ad, kind)}


_AD = {}


def adapter(fam, size):
    k = (fam, tuple(size))
    if k not in _AD:
        _AD[k] = ADAPTERS[fam](*size)
    return _AD[k]


# ------------------------------------------------------------------------------------------------ evaluation

def apply_prior(p, prior):
    for st in prior:
        if st[0] == 'site':
            p.site(st[1], *[tuple(s) for s in st[2]])
        elif st[0] == 'plaquette':
            p.plaquette(tuple(st[1]))
        elif st[0] == 'logical':
            getattr(p, st[1])()
        else:
            p.path(tuple(st[1]), tuple(st[2]))


def args_of(call):
    a, b, form = tuple(call[0]), tuple(call[1]), call[2]
    if form == 'same':
        return a, a
    if form == 'list-a':
        return list(a), b
    if form == 'list-b':
        return a, list(b)
    if form == 'lists':
        return list(a), list(b)
    return a, tuple(b)


def evaluate(h):
    """-> (problems, cases): problems = list of (what, detail) where the property fails on the real code;
    cases = list of (protocol line, impl reply, nontrivial) for the model"""
    ad = adapter(h['family'], h['size'])
    code, fam = ad.code, ad.fam
    R, C = h['size']
    S = code.stabilizers
    problems, cases = [], []
    fresh = []
    for call in h['calls']:
        a, b = args_of(call)
        fresh.append(np.array(code.new_pauli().path(a, b).to_bsf(), dtype=int) % 2)
    p = code.new_pauli()
    apply_prior(p, h['prior'])
    start = np.array(p.to_bsf(), dtype=int).copy()
    if h['mode'] == 'chain':
        r = p
        for call in h['calls']:
            a, b = args_of(call)
            r = r.path(a, b)
        want = start.copy()
        for f in fresh:
            want ^= f
        got_r = np.array(r.to_bsf(), dtype=int) if hasattr(r, 'to_bsf') else None
        got_p = np.array(p.to_bsf(), dtype=int)
        if r is not p:
            problems.append(('chained path calls do not return the Pauli they were called on', {}))
        if got_r is None or not np.array_equal(got_r, want):
            problems.append(('chained path calls p.path(a,b).path(c,d)…: the result is not prior content times the path '
                             'operators', {'result': bits(got_r) if got_r is not None else repr(r), 'expected': bits(want)}))
        if not np.array_equal(got_p, want):
            problems.append(('chained path calls: the Pauli they were called on does not carry prior content times the '
                             'path operators', {'pauli': bits(got_p), 'expected': bits(want)}))
        return problems, cases
    for k, call in enumerate(h['calls']):
        a, b = args_of(call)
        before = np.array(p.to_bsf(), dtype=int).copy()
        ret = p.path(a, b)
        after = np.array(p.to_bsf(), dtype=int).copy()
        applied = before ^ after
        ta, tb = tuple(call[0]), tuple(call[1])
        cases.append(('{} path {} {} {} {}'.format(ad.name, R, C, fam.idx(ta), fam.idx(tb)), bits(applied), ta != tb))
        if ret is not p:
            problems.append(('path does not return the Pauli it was called on', {'call': k}))
        rb = np.array(ret.to_bsf(), dtype=int) if hasattr(ret, 'to_bsf') else None
        if rb is None or not np.array_equal(rb, after):
            problems.append(('the object returned by path does not carry the result of the call',
                             {'call': k, 'returned': bits(rb) if rb is not None else repr(ret), 'pauli': bits(after)}))
        if not np.array_equal(applied, fresh[k]):
            problems.append(('operator applied by path to a non-identity Pauli differs from the path operator',
                             {'call': k, 'applied': bits(applied), 'path': bits(fresh[k])}))
        # the property itself for the applied operator: anticommutes with exactly the (reduced, in-lattice) end points
        want = np.zeros(len(ad.real), dtype=int)
        ra, rb_ = ad.reduce(ta), ad.reduce(tb)
        if (ra, ta) != (rb_, tb) and not (ra is not None and ra == rb_):
            for e in (ra, rb_):
                if e is not None:
                    want[ad.pidx[e]] ^= 1
        syn = common.bsp(applied, S)[0]
        if not np.array_equal(syn, want):
            problems.append(('operator applied by path does not anticommute with exactly its end points',
                             {'call': k, 'syndrome': bits(syn), 'expected': bits(want)}))
        if ret is not p and hasattr(ret, 'path'):
            p = ret            # keep following the chain the caller would follow
    return problems, cases


def sizes_for(ctx, fam):
    from qv.families import planar, toric, rotatedtoric
    m = {'planar': planar, 'toric': toric, 'rotatedtoric': rotatedtoric}[fam]
    bound = getattr(m, 'C15_BOUND', {}).get(ctx.tier, ctx.scale(5, 9))
    return m.sizes(bound)


def cases(ctx, families=('planar', 'toric', 'rotatedtoric')):
    rng = random.Random(ctx.seed * 104729 + 1501)          # own stream: does not shift the other parts
    per_size = ctx.scale(30, 120)
    for fam in families:
        for size in sizes_for(ctx, fam):
            for _ in range(per_size):
                h = gen_history(rng, fam, size)
                ctx.count('apply_kind', '{} {} {}'.format(fam, h['kind'], h['mode']))
                for c in h['calls']:
                    ctx.count('apply_call', 'coincident' if adapter(fam, size).reduce(c[0]) is not None and
                              adapter(fam, size).reduce(c[0]) == adapter(fam, size).reduce(c[1]) else
                              ('equal-virtual' if c[0] == c[1] else 'distinct'))
                try:
                    problems, cs = evaluate(h)
                except Exception as ex:                  # every generated call is in the documented domain
                    ctx.monitor_fail('path on a non-identity Pauli raises {}'.format(type(ex).__name__),
                                     {'history': h, 'error': repr(ex)[:200]})
                    continue
                for line, impl, nt in cs:
                    ctx.case(line, impl, nontrivial=nt, meta={'tag': 'apply', 'history': h})
                for what, detail in problems[:1]:
                    ctx.monitor_fail(what, dict(detail, history=h))
