"""C06 helper: executes call specs (decode / decode_ftp / run_once / run_once_ftp / run / run_ftp) on qecsim objects.

Used in-process by qv.props.c06 on SHARED objects (one pool for a whole history) and, as a script
(`python c06_exec.py` with a JSON job on stdin), in a fresh interpreter started with another PYTHONHASHSEED,
either on FRESH objects per call with every functools cache of qecsim cleared before each call (mode 'fresh':
what the call gives when nothing happened before) or on shared objects (mode 'shared': used by replay).

A spec is a JSON dict:
  {'op': 'decode'|'decode_ftp'|'run_once'|'run_once_ftp'|'run'|'run_ftp',
   'code': [cls, args], 'dec': [cls, kwargs], 'em': [cls, args], 'p': float,
   'syn': '0101' | rows 'a/b/c' (decode ops), 'err': bits passed as context `error` (decode ops, main process only),
   'meas': rows of measurement flips passed as `step_measurement_errors` (decode_ftp; the rotated toric decoder needs them),
   'T': int, 'q': float|None, 'seed': int, 'max_runs': int, 'max_failures': int|None}
Results are canonical strings; exceptions become 'EXC:<type>'; a call exceeding the time limit becomes 'TIMEOUT'.
"""
import hashlib
import json
import random
import signal
import sys

import numpy as np

PIN = 987654321  # PlanarYDecoder breaks exact coset ties with random.choice: pinned before every call

CODES = {
    'PlanarCode': 'qecsim.models.planar', 'ToricCode': 'qecsim.models.toric',
    'RotatedPlanarCode': 'qecsim.models.rotatedplanar', 'RotatedToricCode': 'qecsim.models.rotatedtoric',
    'Color666Code': 'qecsim.models.color', 'FiveQubitCode': 'qecsim.models.basic',
    'SteaneCode': 'qecsim.models.basic',
}
DECODERS = {
    'PlanarMWPMDecoder': 'qecsim.models.planar', 'PlanarCMWPMDecoder': 'qecsim.models.planar',
    'PlanarMPSDecoder': 'qecsim.models.planar', 'PlanarRMPSDecoder': 'qecsim.models.planar',
    'PlanarYDecoder': 'qecsim.models.planar', 'ToricMWPMDecoder': 'qecsim.models.toric',
    'RotatedPlanarMPSDecoder': 'qecsim.models.rotatedplanar', 'RotatedPlanarRMPSDecoder': 'qecsim.models.rotatedplanar',
    'RotatedPlanarSMWPMDecoder': 'qecsim.models.rotatedplanar', 'RotatedToricSMWPMDecoder': 'qecsim.models.rotatedtoric',
    'Color666MPSDecoder': 'qecsim.models.color', 'NaiveDecoder': 'qecsim.models.generic',
}
EMS = {
    'DepolarizingErrorModel': 'qecsim.models.generic', 'BitFlipErrorModel': 'qecsim.models.generic',
    'PhaseFlipErrorModel': 'qecsim.models.generic', 'BitPhaseFlipErrorModel': 'qecsim.models.generic',
    'BiasedDepolarizingErrorModel': 'qecsim.models.generic', 'BiasedYXErrorModel': 'qecsim.models.generic',
    'CenterSliceErrorModel': 'qecsim.models.generic',
}


def _mk(table, name, args=(), kwargs=None):
    import importlib
    cls = getattr(importlib.import_module(table[name]), name)
    return cls(*args, **(kwargs or {}))


def key(x):
    return json.dumps(x, sort_keys=True)


class Pool:
    """object provider: shared=True keeps one object per distinct constructor spec"""

    def __init__(self, shared):
        self.shared = shared
        self.objs = {}

    def get(self, table, spec):
        name, args = spec
        k = key([name, args])
        if self.shared and k in self.objs:
            return self.objs[k]
        o = _mk(table, name, args if isinstance(args, list) else (), args if isinstance(args, dict) else None)
        if self.shared:
            self.objs[k] = o
        return o

    def codes(self):
        return [o for k, o in sorted(self.objs.items()) if json.loads(k)[0] in CODES]


_CACHED = None


def clear_all_caches():
    """cache_clear() on every functools cache reachable from the qecsim modules"""
    global _CACHED
    if _CACHED is None:
        import importlib
        import pkgutil
        import qecsim
        found = {}
        mods = [qecsim]
        for m in pkgutil.walk_packages(qecsim.__path__, 'qecsim.'):
            if '.cli' in m.name:
                continue
            try:
                mods.append(importlib.import_module(m.name))
            except Exception:  # noqa
                pass

        def scan(obj, depth):
            for nm, v in list(vars(obj).items()):
                f = v
                if isinstance(v, property):
                    f = v.fget
                elif isinstance(v, (classmethod, staticmethod)):
                    f = v.__func__
                if hasattr(f, 'cache_clear'):
                    found[id(f)] = f
                elif isinstance(v, type) and depth < 3 and getattr(v, '__module__', '').startswith('qecsim'):
                    scan(v, depth + 1)
        for m in mods:
            scan(m, 0)
        _CACHED = list(found.values())
    for f in _CACHED:
        f.cache_clear()
    return len(_CACHED)


class Expired(Exception):
    pass


def _alarm(*a):
    raise Expired()


def bits(v):
    return ''.join('1' if int(x) else '0' for x in np.asarray(v).ravel().tolist()) or '_'


def parse_bits(s):
    return np.array([int(c) for c in s], dtype=int) if s != '_' else np.zeros(0, dtype=int)


def fhex(x):
    return float(x).hex()


def canon_val(v):
    if v is None:
        return 'N'
    if isinstance(v, (bool, np.bool_)):
        return 'T' if v else 'F'
    if isinstance(v, (int, np.integer)):
        return str(int(v))
    if isinstance(v, (float, np.floating)):
        return fhex(v)
    if isinstance(v, str):
        return v
    if isinstance(v, np.ndarray):
        return '[' + ','.join(canon_val(x) for x in v.ravel().tolist()) + ']'
    if isinstance(v, (tuple, list)):
        return '(' + ','.join(canon_val(x) for x in v) + ')'
    return repr(v)


def canon_decoding(d):
    from qecsim.model import DecodeResult
    if isinstance(d, DecodeResult):
        return 'DR(s={},lc={},r={},cv={})'.format(canon_val(d.success), canon_val(d.logical_commutations),
                                                   'N' if d.recovery is None else bits(d.recovery),
                                                   canon_val(d.custom_values))
    return 'N' if d is None else bits(d)


def canon_dict(d):
    return ';'.join('{}={}'.format(k, canon_val(d[k])) for k in sorted(d) if k != 'wall_time')


def digest(a):
    a = np.ascontiguousarray(a)
    return hashlib.blake2b(a.tobytes() + str(a.shape).encode() + str(a.dtype).encode(), digest_size=8).hexdigest()


def code_digest(code):
    return '/'.join(digest(x) for x in (code.stabilizers, code.logical_xs, code.logical_zs, code.logicals))


def execute(spec, pool, limit, watch=None):
    """returns (canonical result, list of mutation notes)"""
    from qecsim import app
    code = pool.get(CODES, spec['code'])
    dec = pool.get(DECODERS, spec['dec'])
    em = pool.get(EMS, spec['em'])
    op, p = spec['op'], spec['p']
    notes = []
    args = {}
    if op in ('decode', 'decode_ftp'):
        if op == 'decode':
            args['syn'] = parse_bits(spec['syn'])
        else:
            args['syn'] = np.array([parse_bits(r) for r in spec['syn'].split('/')])
        if spec.get('err'):
            args['err'] = parse_bits(spec['err'])
        if spec.get('meas'):
            args['meas'] = np.array([parse_bits(r) for r in spec['meas'].split('/')])
    before = {k: digest(v) for k, v in args.items()}
    cbefore = [(c, code_digest(c)) for c in (watch or [])] + [(code, code_digest(code))]
    random.seed(PIN)
    old = signal.signal(signal.SIGALRM, _alarm)
    signal.setitimer(signal.ITIMER_REAL, limit)
    try:
        try:
            ctx = {'error_model': em, 'error_probability': p}
            if 'err' in args:
                ctx['error'] = args['err']
            if 'meas' in args:
                ctx['step_measurement_errors'] = list(args['meas'])
            if op == 'decode':
                res = canon_decoding(dec.decode(code, args['syn'], **ctx))
            elif op == 'decode_ftp':
                res = canon_decoding(dec.decode_ftp(code, spec['T'], args['syn'],
                                                    measurement_error_probability=spec['q'], **ctx))
            elif op == 'run_once':
                res = canon_dict(app.run_once(code, em, dec, p, rng=np.random.default_rng(spec['seed'])))
            elif op == 'run_once_ftp':
                res = canon_dict(app.run_once_ftp(code, spec['T'], em, dec, p, spec['q'],
                                                  rng=np.random.default_rng(spec['seed'])))
            elif op == 'run':
                res = canon_dict(app.run(code, em, dec, p, max_runs=spec['max_runs'],
                                         max_failures=spec.get('max_failures'), random_seed=spec['seed']))
            elif op == 'run_ftp':
                res = canon_dict(app.run_ftp(code, spec['T'], em, dec, p, spec['q'], max_runs=spec['max_runs'],
                                             max_failures=spec.get('max_failures'), random_seed=spec['seed']))
            else:
                raise ValueError('unknown op ' + op)
        finally:
            signal.setitimer(signal.ITIMER_REAL, 0)
            signal.signal(signal.SIGALRM, old)
    except Expired:
        res = 'TIMEOUT'
    except Exception as ex:  # noqa: deterministic exceptions are results too
        res = 'EXC:' + type(ex).__name__
    for k, v in args.items():
        if digest(v) != before[k]:
            notes.append('argument array {} modified by the call'.format(k))
    for c, d in cbefore:
        if code_digest(c) != d:
            notes.append('stabilizers/logicals of {!r} modified by the call'.format(c))
    return res, notes


def main():
    import logging
    import warnings
    logging.disable(logging.CRITICAL)
    warnings.simplefilter('ignore')
    job = json.load(sys.stdin)
    shared = job['mode'] == 'shared'
    histories = job['histories'] if 'histories' in job else [job['calls']]
    out = []
    for hist in histories:
        if shared:
            clear_all_caches()
        pool = Pool(shared)
        res_h = []
        for spec in hist:
            if not shared:
                clear_all_caches()
            res, notes = execute(spec, pool, job.get('limit', 60), watch=pool.codes() if shared else None)
            cd = None
            if not shared:
                clear_all_caches()
                cd = code_digest(Pool(False).get(CODES, spec['code']))
            res_h.append({'res': res, 'notes': notes, 'code_digest': cd})
        out.append(res_h)
    body = {'hashseed': __import__('os').environ.get('PYTHONHASHSEED')}
    if 'histories' in job:
        body['histories'] = out
    else:
        body['results'] = out[0]
    json.dump(body, sys.stdout)


if __name__ == '__main__':
    main()
