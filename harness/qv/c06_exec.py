"""C06 helper: executes call specs (decode / decode_ftp / run_once / run_once_ftp / run / run_ftp) on qecsim objects.

Used in-process by qv.props.c06 on SHARED objects (one pool for a whole history) and, as a script
(`python c06_exec.py` with a JSON job on stdin), in a fresh interpreter started with another PYTHONHASHSEED,
either on FRESH objects per call with every functools cache of qecsim cleared before each call (mode 'fresh':
what the call gives when nothing happened before) or on shared objects (mode 'shared': used by replay).

A spec is a JSON dict:
  {'op': 'decode'|'decode_ftp'|'run_once'|'run_once_ftp'|'run'|'run_ftp',
   'code': [cls, args], 'dec': [cls, kwargs], 'em': [cls, args], 'p': float,
   'syn': '0101' | rows 'a/b/c' (decode ops), 'err': bits passed as context `error` (decode ops, main process only),
   'meas': rows of measurement flips passed as `step_measurement_errors` (decode_ftp; the rotated toric decoder needs them),
   'T': int, 'q': float|None, 'seed': int, 'max_runs': int, 'max_failures': int|None,
   'mut': int (optional: after the call the CALLER flips, in place, bits of every array the API handed back to it as a
          result — recovery / DecodeResult fields / arrays of the run dict / the generated error; the int seeds which),
   'repeats': int (optional, decode: the call is repeated that many times with the global `random` module seeded
          differently each time — for calls whose documented randomness provably does not apply; all answers must agree)}
   'errs': rows of per-step errors passed as context `step_errors` (decode_ftp, main process only, like 'err'),
   'life': {'code'|'dec'|'em': 'kept'|'temp'} (optional, shared mode: OBJECT LIFETIME of each argument object — 'kept'
          (default) = the pool's long-lived object for that constructor spec; 'temp' = an object constructed for this
          call only and dropped right after it, as `decoder.decode(code, s, error_model=Model(b))` in a sweep loop does.
          Dead temporaries give their address, hence their id(), to later objects: the pool prefers, among a few
          candidate constructions, one that landed on the address of a dead temporary of the same role — the history
          that anything keyed on id(obj) / a dangling identity is sensitive to; `info` of the result counts them)}
  op 'generate' = error_model.generate(code, p, default_rng(seed)).
  ARGUMENTS: every argument container is built ONCE per spec (the caller's own objects: syndrome array, `error`, the
  LISTS `step_errors` / `step_measurement_errors` of row arrays as app.run_once_ftp builds them) and re-used by the repeats
  of that call; before / after every call they are compared DEEPLY (container type, length, identity of the elements,
  array digests incl. shape / dtype / writeable flag) and the argument objects' repr() / label must be unchanged.
In shared mode a decode / decode_ftp / generate call carrying 'mut' is repeated right after the caller's modification and
must give the first answer again; in both modes the arrays handed back are checked for identity / shared memory with the
arrays handed back by earlier calls and with every array reachable from a functools cache of qecsim or from the
attributes of the code / decoder / error-model objects (and their classes).
Results are canonical strings; exceptions become 'EXC:<type>'; a call exceeding the time limit becomes 'TIMEOUT'.

USER SUBCLASSES are a class of objects too: a class name may carry a variant, 'PlanarCode~plain' (trivial subclass, nothing
overridden), 'PlanarCode~swap' (logical_xs / logical_zs overridden with the X/Z-swapped, equally valid choice),
'PlanarCode~stab' (each logical multiplied by a stabilizer); decoders and error models: '~plain'.  A subclass object of the
same size is a DIFFERENT code / decoder / error model: nothing it computes may be served to (or taken from) the base class.

USER DECODERS THAT KEEP THEIR ANSWERS: decoder variants '~memo' / '~memo_s' / '~memo_lc' build one DecodeResult per (code,
syndrome, error model, probability) — recovery only / recovery + success / recovery + logical_commutations — and hand that
very object out again; after every call the objects the decoder keeps are compared deeply with what it built (note
'RESULT-OBJ': the DecodeResult is the decoder's, app must not write into it); identity checks / caller modifications of the
results do not apply to these decoders.

PROCESS-GLOBAL STATE: every call is bracketed by `global_state()` (mpmath precision, numpy errstate / print options /
legacy global RNG, logging levels, os.environ, cwd, decimal context, warnings filters, recursion limit, gc, locale, …); a
change is reported as a 'GLOBAL:' note (a lead: the caller confirms it by the differential).  So that 'fresh' really
means a fresh process state, the script FORKS from a parent that imported qecsim but never called it: one child per call
in mode 'fresh', one child per history in mode 'shared' (job key 'fork': false switches this off).
"""
import hashlib
import json
import random
import signal
import sys

import numpy as np

PIN = 987654321  # PlanarYDecoder breaks exact coset ties with random.choice: pinned before every call

CODES = {
    'PlanarCode': 'qecsim.models.planar', 'ToricCode': 'qecsim.models.toric',
    'RotatedPlanarCode': 'qecsim.models.rotatedplanar', 'RotatedToricCode': 'qecsim.models.rotatedtoric',
    'Color666Code': 'qecsim.models.color', 'FiveQubitCode': 'qecsim.models.basic',
    'SteaneCode': 'qecsim.models.basic', 'BasicCode': 'qecsim.models.basic',
}
DECODERS = {
    'PlanarMWPMDecoder': 'qecsim.models.planar', 'PlanarCMWPMDecoder': 'qecsim.models.planar',
    'PlanarMPSDecoder': 'qecsim.models.planar', 'PlanarRMPSDecoder': 'qecsim.models.planar',
    'PlanarYDecoder': 'qecsim.models.planar', 'ToricMWPMDecoder': 'qecsim.models.toric',
    'RotatedPlanarMPSDecoder': 'qecsim.models.rotatedplanar', 'RotatedPlanarRMPSDecoder': 'qecsim.models.rotatedplanar',
    'RotatedPlanarSMWPMDecoder': 'qecsim.models.rotatedplanar', 'RotatedToricSMWPMDecoder': 'qecsim.models.rotatedtoric',
    'Color666MPSDecoder': 'qecsim.models.color', 'NaiveDecoder': 'qecsim.models.generic',
}
EMS = {
    'DepolarizingErrorModel': 'qecsim.models.generic', 'BitFlipErrorModel': 'qecsim.models.generic',
    'PhaseFlipErrorModel': 'qecsim.models.generic', 'BitPhaseFlipErrorModel': 'qecsim.models.generic',
    'BiasedDepolarizingErrorModel': 'qecsim.models.generic', 'BiasedYXErrorModel': 'qecsim.models.generic',
    'CenterSliceErrorModel': 'qecsim.models.generic',
}


_SUBCLASSES = {}
MEMO_VARIANTS = ('memo', 'memo_s', 'memo_lc')


def is_memo(name):
    return '~' in name and name.split('~')[1] in MEMO_VARIANTS


def result_object_state(d):
    """deep description of a DecodeResult object as its owner (the decoder that built and keeps it) sees it: every
    attribute, with the identity and the state (contents / shape / dtype / writeable flag) of its value"""
    return tuple((nm, id(v), deep_state(v)) for nm, v in sorted(vars(d).items()))


def memo_changes(dec):
    """the DecodeResult objects a memoising user decoder handed out that no longer are what the decoder built"""
    out = []
    for k, d in getattr(dec, '_memo', {}).items():
        was, now = dec._memo_made[k], result_object_state(d)
        if was != now:
            a, b = dict((x[0], x[1:]) for x in was), dict((x[0], x[1:]) for x in now)
            for nm in sorted(set(a) | set(b)):
                if a.get(nm) != b.get(nm):
                    f = lambda x: 'absent' if x is None else (x[1][1] if x[1][0] != 'ndarray' else 'array')  # noqa: E731
                    out.append('{} {} -> {} (syndrome {})'.format(nm, f(a.get(nm)), f(b.get(nm)), k.split('|')[2]))
                    break
    return out


def base_name(name):
    return name.split('~')[0]


def subclass(base, variant):
    """the user subclass `variant` of a qecsim class (one class object per process and (base, variant))"""
    k = (base, variant)
    if k in _SUBCLASSES:
        return _SUBCLASSES[k]
    if variant == 'plain':
        class Sub(base):
            pass
    elif variant == 'swap':
        class Sub(base):
            """the same code with the X / Z labels of its logical qubits exchanged (canonical pairing is symmetric)"""

            @property
            def logical_xs(self):
                return np.array(super().logical_zs)

            @property
            def logical_zs(self):
                return np.array(super().logical_xs)
    elif variant == 'stab':
        class Sub(base):
            """the same code, every logical operator multiplied by a stabilizer (an equivalent representative)"""

            @property
            def logical_xs(self):
                L, S = np.atleast_2d(np.array(super().logical_xs)), np.atleast_2d(self.stabilizers)
                return np.array([(r + S[(3 * i + 1) % len(S)]) % 2 for i, r in enumerate(L)])

            @property
            def logical_zs(self):
                L, S = np.atleast_2d(np.array(super().logical_zs)), np.atleast_2d(self.stabilizers)
                return np.array([(r + S[(5 * i + 2) % len(S)]) % 2 for i, r in enumerate(L)])
    elif variant in MEMO_VARIANTS:
        class Sub(base):
            """a USER DECODER that keeps its answers: decoding is a function of (code, syndrome, error model, probability),
            so it builds ONE DecodeResult per such key and hands that very object out again whenever the key recurs
            (variant 'memo': recovery only; 'memo_s': recovery + its own success verdict, a function of the syndrome;
            'memo_lc': recovery + the logical commutations it claims, those of its recovery).  The DecodeResult objects
            are the decoder's: `_memo_made` records what the decoder put into each of them."""

            def decode(self, code, syndrome, **kwargs):
                from qecsim import paulitools as pt
                from qecsim.model import DecodeResult
                memo = self.__dict__.setdefault('_memo', {})
                made = self.__dict__.setdefault('_memo_made', {})
                k = '|'.join((type(code).__name__, repr(code), bits(syndrome), repr(kwargs.get('error_model')),
                              repr(kwargs.get('error_probability'))))
                if k not in memo:
                    rec = super().decode(code, syndrome, **kwargs)
                    if isinstance(rec, DecodeResult):
                        rec = rec.recovery
                    rec = np.array(rec)
                    if variant == 'memo':
                        d = DecodeResult(recovery=rec)
                    elif variant == 'memo_s':
                        d = DecodeResult(success=bool(np.count_nonzero(syndrome) <= 2), recovery=rec)
                    else:
                        d = DecodeResult(logical_commutations=pt.bsp(rec, code.logicals.T), recovery=rec)
                    memo[k] = d
                    made[k] = result_object_state(d)
                return memo[k]
    else:
        raise ValueError('unknown subclass variant ' + variant)
    Sub.__name__ = Sub.__qualname__ = '{}_{}'.format(base.__name__, variant)
    _SUBCLASSES[k] = Sub
    return Sub


def _cls(table, name):
    import importlib
    b = base_name(name)
    cls = getattr(importlib.import_module(table[b]), b)
    return subclass(cls, name.split('~')[1]) if '~' in name else cls


def _tuples(x):
    return tuple(_tuples(y) for y in x) if isinstance(x, (list, tuple)) else x


def _mk(table, name, args=(), kwargs=None):
    if base_name(name) == 'BasicCode':      # user-defined codes hash their constructor arguments: tuples, not JSON lists
        args = _tuples(args)
    return _cls(table, name)(*args, **(kwargs or {}))


def key(x):
    return json.dumps(x, sort_keys=True)


class Pool:
    """object provider: shared=True keeps one object per distinct constructor spec"""

    TEMP_TRIES = 64

    def __init__(self, shared):
        self.shared = shared
        self.objs = {}
        self.handed = []  # arrays handed back to the caller by earlier calls (kept alive: ids / memory stay distinct)
        self.dead = {}  # role -> ids of the temporaries handed out so far (dead by now unless qecsim pinned them)
        self.info = {'temp': 0, 'reused': 0}
        self.last_temp = {}

    def get(self, table, spec, life=None):
        name, args = spec
        k = key([name, args])
        klass = _cls(table, name)  # resolved BEFORE a temporary is released: nothing else is allocated in between
        a, kw = (tuple(args) if isinstance(args, list) else ()), (args if isinstance(args, dict) else {})
        if base_name(name) == 'BasicCode':      # user-defined codes hash their constructor arguments: tuples, not JSON lists
            a = _tuples(a)
        make = lambda: klass(*a, **kw)  # noqa: E731
        if self.shared and life == 'temp':
            # a temporary: constructed for this call, released before the next temporary of its role is constructed (at
            # the latest).  Its address is free again then; prefer a construction that lands on the address of an earlier
            # (dead) temporary of the same role — CPython does that by itself in a tight sweep loop; the garbage of the
            # calls in between makes it less regular here, hence a few candidate constructions
            dead = self.dead.setdefault(id(table), set())
            self.last_temp[id(table)] = None  # the previous temporary of this role dies HERE
            first = o = make()
            spare = []
            for _ in range(self.TEMP_TRIES if dead else 0):
                if id(o) in dead:
                    break
                spare.append(o)
                o = make()
            else:
                o = first
            self.last_temp[id(table)] = o
            del spare, first
            self.info['temp'] += 1
            self.info['reused'] += id(o) in dead
            dead.add(id(o))
            return o
        if self.shared and k in self.objs:
            return self.objs[k]
        o = make()
        if self.shared:
            self.objs[k] = o
        return o

    def codes(self):
        return [o for k, o in sorted(self.objs.items()) if base_name(json.loads(k)[0]) in CODES]


_CACHED = None


def _scan_caches():
    """find every functools cache reachable from the qecsim modules"""
    global _CACHED
    if _CACHED is None:
        import importlib
        import pkgutil
        import qecsim
        found = {}
        mods = [qecsim]
        for m in pkgutil.walk_packages(qecsim.__path__, 'qecsim.'):
            if '.cli' in m.name:
                continue
            try:
                mods.append(importlib.import_module(m.name))
            except Exception:  # noqa
                pass

        def scan(obj, depth):
            for nm, v in list(vars(obj).items()):
                f = v
                if isinstance(v, property):
                    f = v.fget
                elif isinstance(v, (classmethod, staticmethod)):
                    f = v.__func__
                if hasattr(f, 'cache_clear'):
                    found[id(f)] = f
                elif isinstance(v, type) and depth < 3 and getattr(v, '__module__', '').startswith('qecsim'):
                    scan(v, depth + 1)
        for m in mods:
            scan(m, 0)
        _CACHED = list(found.values())
    return _CACHED


def clear_all_caches():
    """cache_clear() on every functools cache reachable from the qecsim modules"""
    for f in _scan_caches():
        f.cache_clear()
    return len(_CACHED)


class Expired(Exception):
    pass


def _alarm(*a):
    raise Expired()


def bits(v):
    return ''.join('1' if int(x) else '0' for x in np.asarray(v).ravel().tolist()) or '_'


def parse_bits(s):
    return np.array([int(c) for c in s], dtype=int) if s != '_' else np.zeros(0, dtype=int)


def fhex(x):
    return float(x).hex()


def canon_val(v):
    if v is None:
        return 'N'
    if isinstance(v, (bool, np.bool_)):
        return 'T' if v else 'F'
    if isinstance(v, (int, np.integer)):
        return str(int(v))
    if isinstance(v, (float, np.floating)):
        return fhex(v)
    if isinstance(v, str):
        return v
    if isinstance(v, np.ndarray):
        return '[' + ','.join(canon_val(x) for x in v.ravel().tolist()) + ']'
    if isinstance(v, (tuple, list)):
        return '(' + ','.join(canon_val(x) for x in v) + ')'
    return repr(v)


def canon_decoding(d):
    from qecsim.model import DecodeResult
    if isinstance(d, DecodeResult):
        return 'DR(s={},lc={},r={},cv={})'.format(canon_val(d.success), canon_val(d.logical_commutations),
                                                   'N' if d.recovery is None else bits(d.recovery),
                                                   canon_val(d.custom_values))
    return 'N' if d is None else bits(d)


def canon_dict(d):
    return ';'.join('{}={}'.format(k, canon_val(d[k])) for k in sorted(d) if k != 'wall_time')


def digest(a):
    a = np.ascontiguousarray(a)
    return hashlib.blake2b(a.tobytes() + str(a.shape).encode() + str(a.dtype).encode(), digest_size=8).hexdigest()


def code_digest(code):
    return '/'.join(digest(x) for x in (code.stabilizers, code.logical_xs, code.logical_zs, code.logicals))


def result_arrays(raw):
    """the ndarray objects a call handed to the caller as (parts of) its result"""
    from qecsim.model import DecodeResult
    if isinstance(raw, np.ndarray):
        return [raw]
    if isinstance(raw, DecodeResult):
        return [a for a in (raw.recovery, raw.logical_commutations, raw.custom_values) if isinstance(a, np.ndarray)]
    if isinstance(raw, dict):
        return [v for k, v in sorted(raw.items()) if isinstance(v, np.ndarray)]
    if isinstance(raw, (tuple, list)):
        return [a for a in raw if isinstance(a, np.ndarray)]
    return []


def caller_mutates(arrays, seed):
    """the caller owns what it was handed back: flip ~half of the entries (at least one) of every result array in place"""
    r = random.Random(seed)
    done = 0
    for a in arrays:
        if not a.flags.writeable or a.size == 0:
            continue
        flat = a.reshape(-1) if a.flags.c_contiguous else None
        if flat is None or not np.shares_memory(flat, a):
            continue
        idx = [i for i in range(flat.size) if r.random() < 0.5] or [r.randrange(flat.size)]
        if a.dtype.kind in 'iub':
            flat[idx] = 1 - flat[idx] if a.dtype.kind != 'b' else ~flat[idx]
        elif a.dtype.kind == 'f':
            flat[idx] = flat[idx] + 1.0
        else:
            continue
        done += 1
    return done


def _walk(obj, out, depth, seen):
    if id(obj) in seen:
        return
    seen.add(id(obj))
    if isinstance(obj, np.ndarray):
        out[id(obj)] = obj
        return
    if depth <= 0:
        return
    if isinstance(obj, (tuple, list, set, frozenset)):
        for x in obj:
            _walk(x, out, depth - 1, seen)
    elif isinstance(obj, dict):
        for x in obj.values():
            _walk(x, out, depth - 1, seen)
    elif type(obj).__name__ == '_lru_list_elem' or isinstance(obj, (str, bytes, int, float, complex, type(None))):
        return
    elif getattr(type(obj), '__module__', '').startswith('qecsim') and hasattr(obj, '__dict__'):
        for x in vars(obj).values():
            _walk(x, out, depth - 1, seen)


def cached_arrays(objs=()):
    """id -> ndarray for every array reachable from a functools cache of the qecsim modules (keys and results of
    lru_cache wrappers are gc referents of the wrapper) and from the attributes of `objs` and of their classes"""
    import gc
    out, seen = {}, set()
    for f in _scan_caches():
        for r in gc.get_referents(f):
            if isinstance(r, (np.ndarray, tuple, list, dict, set, frozenset)) or \
                    getattr(type(r), '__module__', '').startswith('qecsim'):
                if isinstance(r, dict) and '__wrapped__' in r:
                    continue
                _walk(r, out, 4, seen)
    for o in objs:
        for klass in type(o).__mro__:
            if getattr(klass, '__module__', '').startswith('qecsim'):
                for v in vars(klass).values():
                    if isinstance(v, (np.ndarray, tuple, list, dict, set, frozenset)):
                        _walk(v, out, 4, seen)
        if hasattr(o, '__dict__'):
            _walk(vars(o), out, 4, seen)
    return out


def shares(a, b):
    if a is b:
        return True
    if not np.may_share_memory(a, b):
        return False
    try:
        return bool(np.shares_memory(a, b, max_work=10000))
    except Exception:  # noqa: too hard to decide exactly: bounds overlap, treat as sharing
        return True


def _h(x):
    return hashlib.blake2b(repr(x).encode(), digest_size=6).hexdigest()


def global_state():
    """name -> short canonical value of the process-global state a qecsim call could leak into (everything a later,
    unrelated call can observe although it is no argument of it).  The `random` module state is not listed: it is pinned
    before every call (PlanarYDecoder's documented random tie-break consumes it by design)."""
    import decimal
    import gc
    import locale
    import logging
    import os
    import warnings
    import mpmath
    st = {}
    for nm in ('mp', 'iv'):
        c = getattr(mpmath, nm)
        st['mpmath.{}.prec'.format(nm)] = str(c.prec)
    st['mpmath.mp.dps'] = str(mpmath.mp.dps)
    st['mpmath.mp.flags'] = '{}/{}'.format(mpmath.mp.trap_complex, mpmath.mp.pretty)
    st['numpy.errstate'] = repr(sorted(np.geterr().items()))
    st['numpy.errcall'] = repr(np.geterrcall())
    st['numpy.printoptions'] = _h(sorted((k, repr(v)) for k, v in np.get_printoptions().items()))
    g = np.random.get_state()
    st['numpy.random(global legacy RNG)'] = _h((g[0], g[1].tobytes(), g[2:]))
    st['logging.disable'] = str(logging.root.manager.disable)
    st['logging.root'] = '{}/{}'.format(logging.root.level, len(logging.root.handlers))
    st['logging.qecsim*'] = _h(sorted((n, l.level, len(l.handlers), l.propagate, l.disabled)
                                      for n, l in logging.root.manager.loggerDict.items()
                                      if n.startswith('qecsim') and isinstance(l, logging.Logger)))
    st['os.environ'] = _h(sorted(os.environ.items()))
    st['os.getcwd'] = os.getcwd()
    dc = decimal.getcontext()
    st['decimal.context'] = repr((dc.prec, dc.rounding, dc.Emin, dc.Emax, dc.capitals, dc.clamp,
                                  sorted(str(k) for k, v in dc.traps.items() if v)))
    st['warnings.filters'] = _h([(f[0], str(f[1]), str(f[2]), str(f[3]), f[4]) for f in warnings.filters])
    st['sys.recursionlimit'] = str(sys.getrecursionlimit())
    st['sys.switchinterval'] = repr(sys.getswitchinterval())
    st['sys.path'] = _h(sys.path)
    st['sys.hooks'] = _h((id(sys.excepthook), id(sys.displayhook), id(sys.stdout), id(sys.stderr), sys.gettrace(),
                          sys.getprofile()))
    st['gc'] = '{}/{}'.format(gc.isenabled(), gc.get_threshold())
    st['locale'] = repr(locale.setlocale(locale.LC_ALL))
    st['signal.SIGINT'] = repr(signal.getsignal(signal.SIGINT))
    st['float rounding'] = (float('0.1') + float('0.2')).hex()  # FPU rounding mode
    return st


def deep_state(v, depth=4):
    """canonical deep description of an argument as the caller sees it: container type, length, identity and state of
    the elements; arrays by digest (contents, shape, dtype) and writeable flag"""
    if isinstance(v, np.ndarray):
        return ('ndarray', digest(v), bool(v.flags.writeable))
    if isinstance(v, (list, tuple)) and depth > 0:
        return (type(v).__name__, len(v), tuple((id(x), deep_state(x, depth - 1)) for x in v))
    if isinstance(v, dict) and depth > 0:
        return ('dict', len(v), tuple((repr(k), id(x), deep_state(x, depth - 1)) for k, x in v.items()))
    return (type(v).__name__, repr(v))


def describe_change(name, a, b):
    if a[0] != b[0]:
        return 'type {} -> {}'.format(a[0], b[0])
    if a[0] in ('list', 'tuple', 'dict'):
        if a[1] != b[1]:
            return 'a {} of {} elements before the call, {} elements after it'.format(a[0], a[1], b[1])
        for i, (x, y) in enumerate(zip(a[2], b[2])):
            if x != y:
                if x[:-2] != y[:-2] or x[-2] != y[-2]:
                    return 'element {} replaced by another object'.format(i)
                return 'element {}: {}'.format(i, describe_change(name, x[-1], y[-1]))
    if a[0] == 'ndarray':
        return 'array contents / shape / dtype changed' if a[1] != b[1] else 'writeable flag {} -> {}'.format(a[2], b[2])
    return '{} -> {}'.format(a[1], b[1])


def object_state(o):
    """what an argument OBJECT publishes about itself without computing anything (no cached method is called: that
    would pin a temporary in qecsim's caches)"""
    out = [type(o).__name__]
    for nm in ('__repr__', 'label'):
        try:
            v = getattr(o, nm)
            out.append(v() if callable(v) else v)
        except Exception as ex:  # noqa
            out.append('EXC:' + type(ex).__name__)
    return tuple(out)


def execute(spec, pool, limit, watch=None, shared=False):
    """returns (canonical result, list of notes); notes are tagged ARG / CODE / ALIAS / CACHE-WRITE / REPEAT / RESULT-OBJ"""
    from qecsim import app
    life = spec.get('life') or {}
    code = pool.get(CODES, spec['code'], life.get('code'))
    LAST_CODE[0] = code
    dec = pool.get(DECODERS, spec['dec'], life.get('dec'))
    em = pool.get(EMS, spec['em'], life.get('em'))
    op, p = spec['op'], spec['p']
    notes = []
    args = {}
    if op in ('decode', 'decode_ftp'):
        if op == 'decode':
            args['syn'] = parse_bits(spec['syn'])
        else:
            args['syn'] = np.array([parse_bits(r) for r in spec['syn'].split('/')])
        if spec.get('err'):
            args['err'] = parse_bits(spec['err'])
        if spec.get('meas'):
            args['meas'] = np.array([parse_bits(r) for r in spec['meas'].split('/')])
        if spec.get('errs'):
            args['errs'] = np.array([parse_bits(r) for r in spec['errs'].split('/')])
    before = {k: digest(v) for k, v in args.items()}
    # the caller's own argument objects, built once: the repeats of this call pass the very same objects again
    kwargs = {'error_model': em, 'error_probability': p}
    if 'err' in args:
        kwargs['error'] = args['err']
    if 'errs' in args:
        kwargs['step_errors'] = list(args['errs'])
    if 'meas' in args:
        kwargs['step_measurement_errors'] = list(args['meas'])
    if op == 'decode_ftp':
        kwargs['measurement_error_probability'] = spec['q']
    deep = {'syndrome': args.get('syn')}
    deep.update((k, v) for k, v in kwargs.items() if k not in ('error_model', 'error_probability'))
    deep_before = {k: deep_state(v) for k, v in deep.items()}
    objs_before = [(nm, o, object_state(o)) for nm, o in (('code', code), ('decoder', dec), ('error_model', em))]
    cbefore = [(c, code_digest(c)) for c in (watch or [])] + [(code, code_digest(code))]
    held = {i: (a, digest(a)) for i, a in cached_arrays((code, dec, em)).items()} if shared else {}

    def call(pin=PIN):
        random.seed(pin)
        if op == 'decode':
            raw = dec.decode(code, args['syn'], **kwargs)
            return raw, canon_decoding(raw)
        if op == 'decode_ftp':
            raw = dec.decode_ftp(code, spec['T'], args['syn'], **kwargs)
            return raw, canon_decoding(raw)
        if op == 'generate':
            raw = em.generate(code, p, np.random.default_rng(spec['seed']))
            return raw, bits(raw)
        if op == 'run_once':
            raw = app.run_once(code, em, dec, p, rng=np.random.default_rng(spec['seed']))
        elif op == 'run_once_ftp':
            raw = app.run_once_ftp(code, spec['T'], em, dec, p, spec['q'], rng=np.random.default_rng(spec['seed']))
        elif op == 'run':
            raw = app.run(code, em, dec, p, max_runs=spec['max_runs'], max_failures=spec.get('max_failures'),
                          random_seed=spec['seed'])
        elif op == 'run_ftp':
            raw = app.run_ftp(code, spec['T'], em, dec, p, spec['q'], max_runs=spec['max_runs'],
                              max_failures=spec.get('max_failures'), random_seed=spec['seed'])
        else:
            raise ValueError('unknown op ' + op)
        return raw, canon_dict(raw)

    def timed(pin=PIN):
        old = signal.signal(signal.SIGALRM, _alarm)
        signal.setitimer(signal.ITIMER_REAL, limit)
        try:
            try:
                return call(pin)
            finally:
                signal.setitimer(signal.ITIMER_REAL, 0)
                signal.signal(signal.SIGALRM, old)
        except Expired:
            return None, 'TIMEOUT'
        except Exception as ex:  # noqa: deterministic exceptions are results too
            return None, 'EXC:' + type(ex).__name__

    g0 = global_state()
    raw, res = timed()
    g1 = global_state()
    for k in sorted(g0):
        if g0[k] != g1.get(k):
            notes.append('GLOBAL: the call changed process-global state {}: {} -> {}'.format(k, g0[k], g1.get(k)))
    for k, v in args.items():
        if digest(v) != before[k]:
            notes.append('ARG: argument array {} modified by the call'.format(k))
    if not any(nt.startswith('ARG') for nt in notes):
        for k, v in deep.items():
            st = deep_state(v)
            if st != deep_before[k]:
                notes.append('ARG: argument `{}` passed to {} is not what the caller passed any more after the call: {}'
                             .format(k, op, describe_change(k, deep_before[k], st)))
                break
        for nm, o, st in objs_before:
            st1 = object_state(o)
            if st1 != st:
                notes.append('ARG: the {} object passed to {} describes itself differently after the call: {} -> {}'
                             .format(nm, op, st, st1))
                break
    memo = hasattr(dec, '_memo_made') or is_memo(spec['dec'][0])
    if memo:
        ch = memo_changes(dec)
        if ch:
            notes.append('RESULT-OBJ: {} modified {} DecodeResult object(s) that the decoder built, handed back from decode '
                         'and keeps (a user decoder that memoises its answers per syndrome hands the same objects out '
                         'again in later runs): {}'.format(op, len(ch), '; '.join(ch[:3])))
            for k, d in dec._memo.items():  # reported once: later calls of the history are judged on their own
                dec._memo_made[k] = result_object_state(d)
    for c, d in cbefore:
        if code_digest(c) != d:
            notes.append('CODE: stabilizers/logicals of {!r} modified by the call'.format(c))
    for i, (a, d) in held.items():
        if digest(a) != d:
            notes.append('CACHE-WRITE: the call modified in place an array (shape {}) that was held in a functools '
                         'cache / object attribute before the call'.format(a.shape))
            break
    if spec.get('repeats') and op == 'decode' and res != 'TIMEOUT':
        # identical-call REPEATS: the caller established (exact arithmetic) that the documented coin toss does not apply to
        # this call, so the state of the global `random` module is no input of it
        seen = {res: PIN}
        for k in range(1, int(spec['repeats'])):
            _, rk = timed(PIN + 7919 * k)
            if rk == 'TIMEOUT':
                break
            seen.setdefault(rk, PIN + 7919 * k)
        if len(seen) > 1:
            notes.append('NONDET: the same decode call (same objects, same arguments) repeated {} times with the global '
                         '`random` module seeded differently each time returned {} different results although the two '
                         'candidate cosets are not exactly tied (exact relative gap of the coset probabilities: {}): '
                         '{}'.format(spec['repeats'], len(seen), spec.get('gap'),
                                     ' / '.join('random.seed({}) -> {}'.format(v, r[:200]) for r, v in seen.items())))
    # (what a memoising user decoder hands back is, by its own design, kept by it: identity checks do not apply there)
    outs = [] if memo else result_arrays(raw)
    # identity: what the API hands back is the caller's own — never an array handed back before, never cache memory
    for a in outs:
        if any(shares(a, b) for b in pool.handed):
            notes.append('ALIAS: the call handed back an array that is / shares memory with an array handed back by an '
                         'earlier call')
            break
    if outs:
        inner = cached_arrays((code, dec, em))
        for a in outs:
            hit = [c for c in inner.values() if shares(a, c)]
            if hit:
                notes.append('ALIAS: the call handed back an array that {} an array (shape {}) held in a functools cache '
                             '/ object attribute of qecsim'.format('is' if any(a is c for c in hit) else 'shares memory with',
                                                                  hit[0].shape))
                break
    if shared:
        pool.handed.extend(outs)
    if spec.get('mut') is not None and outs:
        caller_mutates(outs, spec['mut'])
        if shared and op in ('decode', 'decode_ftp', 'generate'):
            raw2, res2 = timed()
            arg = [k for k, nt in enumerate(notes) if nt.startswith('ARG')]
            if 'TIMEOUT' not in (res, res2) and res2 != res and arg:
                # the call changed its own arguments: that, not the caller's modification of the result, is the history
                notes[arg[0]] += ('; the same call repeated with the very same argument objects then gives a different '
                                  'result (first {} second {})'.format(res[:300], res2[:300]))
            elif 'TIMEOUT' not in (res, res2) and res2 != res:
                notes.append('REPEAT: the caller modified in place the arrays it was handed back as the result, then '
                             'repeated the same call on the same objects: different result (first {} second {})'.format(
                                 res[:300], res2[:300]))
            pool.handed.extend(result_arrays(raw2))
    return res, notes


LAST_CODE = [None]


def in_child(fn):
    """run fn() in a forked child (the parent's state is what a fresh interpreter has after importing qecsim)"""
    import os
    import traceback
    r, w = os.pipe()
    pid = os.fork()
    if pid == 0:
        rc = 1
        try:
            os.close(r)
            data = json.dumps(fn())
            with os.fdopen(w, 'w') as f:
                f.write(data)
            rc = 0
        except BaseException:  # noqa
            traceback.print_exc()
        finally:
            os._exit(rc)
    os.close(w)
    with os.fdopen(r) as f:
        data = f.read()
    _, status = os.waitpid(pid, 0)
    if status != 0 or not data:
        raise RuntimeError('forked worker failed (status {})'.format(status))
    return json.loads(data)


def main():
    import logging
    import warnings
    logging.disable(logging.CRITICAL)
    warnings.simplefilter('ignore')
    job = json.load(sys.stdin)
    shared = job['mode'] == 'shared'
    histories = job['histories'] if 'histories' in job else [job['calls']]
    fork = job.get('fork', True)
    _scan_caches()  # import every qecsim module before forking (the parent never calls into qecsim)
    import mpmath  # noqa: F401
    out = []

    def one(spec, pool):
        if not shared:
            clear_all_caches()
        info0 = dict(pool.info)
        res, notes = execute(spec, pool, job.get('limit', 60), watch=pool.codes() if shared else None, shared=shared)
        # the matrices the code object of this call publishes AFTER the call are part of the result: on shared objects
        # they must be the ones a fresh process computes
        if res != 'TIMEOUT':
            try:
                res += ' code=' + code_digest(LAST_CODE[0])  # the code object of this call (pool object or temporary)
            except Exception as ex:  # noqa
                res += ' code=EXC:' + type(ex).__name__
        LAST_CODE[0] = None
        info = {}
        if spec.get('life'):
            info = {k: v - info0[k] for k, v in pool.info.items()}
        return {'res': res, 'notes': notes, 'info': info}

    def history(hist):
        if shared:
            clear_all_caches()
        pool = Pool(shared)
        return [one(spec, pool) for spec in hist]

    for hist in histories:
        if not fork:
            out.append(history(hist))
        elif shared:
            out.append(in_child(lambda: history(hist)))
        else:
            out.append([in_child(lambda: one(spec, Pool(False))) for spec in hist])
    body = {'hashseed': __import__('os').environ.get('PYTHONHASHSEED')}
    if 'histories' in job:
        body['histories'] = out
    else:
        body['results'] = out[0]
    json.dump(body, sys.stdout)


if __name__ == '__main__':
    main()
