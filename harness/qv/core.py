"""
Core of the correspondence harness: driver pipe, case queue, diffing, Lean build + axiom audit,
evidence writer, replay writer, known-findings handling.

Run under /venv/bin/python (the interpreter that has qecsim installed in editable mode from
/repo/src).  Everything random derives from one random.Random(VERIF_SEED).
"""
import hashlib
import json
import os
import random
import re
import signal
import subprocess
import sys
import time
import collections

VERIF = os.path.abspath(os.path.join(os.path.dirname(__file__), '..', '..'))
LEAN = os.environ.get('QV_LEAN_DIR') or os.path.join(VERIF, 'lean', 'QecVerif')
DRIVER = os.path.join(LEAN, '.lake', 'build', 'bin', 'qvdriver')
REPO = os.environ.get('QECSIM_REPO', '/repo')
ALLOWED_AXIOMS = {'propext', 'Classical.choice', 'Quot.sound'}
FORBIDDEN = re.compile(r'\bsorry\b|\badmit\b|^axiom\s|native_decide|bv_decide|implemented_by|\bunsafe\s|maxHeartbeats 0',
                       re.M)

TRUSTED_BASE = [
    'Lean 4.33.0 kernel; axioms allowed: propext, Classical.choice, Quot.sound (audited with #print axioms on every run)',
    'no native_decide / bv_decide / sorry / user axioms (grep on every run)',
    'hand-written Lean models under lean/QecVerif/QecVerif/Model; tied to /repo/src by this run\'s correspondence cases',
    'compiled driver qvdriver (leanc + Lean runtime) evaluates the same definitions the theorems are about',
    'Python harness (generators, canonicalisation) and CPython 3.12 / numpy / networkx / scipy as installed',
]


class Infra(Exception):
    """infrastructure failure (exit 2, never a VIOLATION line)"""


def assert_repo_binding():
    import qecsim
    p = os.path.realpath(os.path.dirname(qecsim.__file__))
    want = os.path.realpath(os.path.join(REPO, 'src', 'qecsim'))
    if p != want:
        raise Infra('qecsim resolves to {} not {}'.format(p, want))


def sh(cmd, cwd=None, timeout=3600, env=None):
    r = subprocess.run(cmd, cwd=cwd, shell=isinstance(cmd, str), stdout=subprocess.PIPE, stderr=subprocess.STDOUT,
                       timeout=timeout, env=env, text=True)
    out = '\n'.join(l for l in r.stdout.splitlines() if 'conda.cli.condarc' not in l)
    return r.returncode, out


# ------------------------------------------------------------------------------------------ lean side

def lean_sources():
    out = []
    for root, _, files in os.walk(LEAN):
        if '.lake' in root:
            continue
        for f in files:
            if f.endswith('.lean'):
                out.append(os.path.join(root, f))
    return sorted(out)


def strip_comments(src):
    # remove /- ... -/ (nested not handled beyond one level, fine for our files) and -- comments
    src = re.sub(r'/-.*?-/', '', src, flags=re.S)
    src = re.sub(r'--[^\n]*', '', src)
    return src


def import_closure(pid):
    """files under lean/QecVerif reachable from Props/<pid>.lean through `import QecVerif.…` (plus the driver)"""
    seen, todo = set(), prop_modules(pid) + ['Driver']
    while todo:
        m = todo.pop()
        if m in seen:
            continue
        path = os.path.join(LEAN, *m.split('.')) + '.lean'
        if not os.path.exists(path):
            continue
        seen.add(m)
        for imp in re.findall(r'^import\s+(QecVerif\.\S+)', open(path).read(), flags=re.M):
            todo.append(imp)
    return sorted(os.path.join(LEAN, *m.split('.')) + '.lean' for m in seen)


def lean_forbidden_scan(pid=None):
    hits = []
    for f in (import_closure(pid) if pid else lean_sources()):
        s = strip_comments(open(f).read())
        for m in FORBIDDEN.finditer(s):
            hits.append('{}: {}'.format(os.path.relpath(f, LEAN), m.group(0).strip()))
    return hits


def lake_build(targets=('QecVerif', 'qvdriver')):
    t0 = time.time()
    rc, out = sh(['lake', 'build'] + list(targets), cwd=LEAN, timeout=7200)
    return rc, out, time.time() - t0


def prop_modules(pid):
    """QecVerif.Props.<pid> plus every QecVerif.Props.<pid>.<Sub> module (sub-files need not be imported by the
    aggregator: e.g. Instances files that themselves import Props/<pid>.lean)"""
    base = os.path.join(LEAN, 'QecVerif', 'Props')
    mods = []
    if os.path.exists(os.path.join(base, pid + '.lean')):
        mods.append('QecVerif.Props.' + pid)
    sub = os.path.join(base, pid)
    if os.path.isdir(sub):
        mods += ['QecVerif.Props.{}.{}'.format(pid, f[:-5]) for f in sorted(os.listdir(sub)) if f.endswith('.lean')]
    return mods


def prop_theorems(pid):
    """names of the property theorems: every `theorem` in Props/<pid>.lean and Props/<pid>/*.lean"""
    base = os.path.join(LEAN, 'QecVerif', 'Props')
    paths = [os.path.join(base, pid + '.lean')]
    sub = os.path.join(base, pid)
    if os.path.isdir(sub):
        paths += sorted(os.path.join(sub, f) for f in os.listdir(sub) if f.endswith('.lean'))
    out = []
    for path in paths:
        if not os.path.exists(path):
            continue
        src = strip_comments(open(path).read())
        ns = re.findall(r'^namespace\s+(\S+)', src, flags=re.M)
        prefix = (ns[0] + '.') if ns else ''
        names = re.findall(r'^(?:protected\s+)?theorem\s+(\S+)', src, flags=re.M)
        out += [prefix + n for n in names]
    return paths[0], out


def axiom_audit(pid, names):
    """returns dict name -> list of axioms (or None when the theorem is missing)"""
    if not names:
        return {}
    tmpdir = os.path.join(LEAN, '.lake', 'audit')
    os.makedirs(tmpdir, exist_ok=True)
    tmp = os.path.join(tmpdir, 'Audit_{}_{}.lean'.format(pid, os.getpid()))
    with open(tmp, 'w') as f:
        for m in prop_modules(pid):
            f.write('import {}\n'.format(m))
        for n in names:
            f.write('#print axioms {}\n'.format(n))
    try:
        rc, out = sh(['lake', 'env', 'lean', tmp], cwd=LEAN, timeout=1800)
    finally:
        try:
            os.remove(tmp)
        except OSError:
            pass
    res = {}
    # outputs: "'Name' depends on axioms: [a, b]" or "'Name' does not depend on any axioms"
    flat = re.sub(r'\s+', ' ', out)
    for n in names:
        m = re.search(r"'" + re.escape(n) + r"' depends on axioms: \[([^\]]*)\]", flat)
        if m:
            res[n] = [a.strip() for a in m.group(1).split(',') if a.strip()]
        elif re.search(r"'" + re.escape(n) + r"' does not depend on any axioms", flat):
            res[n] = []
        else:
            res[n] = None
    return res, out


# ------------------------------------------------------------------------------------------ driver

class Driver:
    def __init__(self):
        if not os.path.exists(DRIVER):
            raise Infra('driver not built: ' + DRIVER)

    def ask(self, lines, timeout=3600):
        if not lines:
            return []
        for l in lines:
            if '\n' in l:
                raise Infra('newline in protocol line')
        p = subprocess.run([DRIVER], input='\n'.join(lines) + '\n', stdout=subprocess.PIPE, stderr=subprocess.PIPE,
                           text=True, timeout=timeout)
        out = p.stdout.split('\n')
        if out and out[-1] == '':
            out.pop()
        if len(out) != len(lines):
            raise Infra('driver returned {} lines for {} ops (rc={}, stderr={})'.format(
                len(out), len(lines), p.returncode, p.stderr[:500]))
        return out


# ------------------------------------------------------------------------------------------ wire format

def bits(v):
    v = [int(x) for x in v]
    return ''.join('1' if x else '0' for x in v) if len(v) else '_'


def mat(m):
    rows = [bits(r) for r in m]
    return '/'.join(rows) if rows else '.'


def ilist(v):
    v = list(v)
    return ','.join(str(int(x)) for x in v) if v else '_'


def opt(v, f=str):
    return 'N' if v is None else f(v)


def rat(fr):
    from fractions import Fraction
    fr = Fraction(fr)
    return '{}/{}'.format(fr.numerator, fr.denominator)


class TimeLimit:
    """per-call wall-clock limit for real-code calls (decoders can hang)"""
    class Expired(Exception):
        pass

    def __init__(self, seconds):
        self.seconds = seconds

    def _h(self, *a):
        raise TimeLimit.Expired()

    def __enter__(self):
        self.old = signal.signal(signal.SIGALRM, self._h)
        signal.setitimer(signal.ITIMER_REAL, self.seconds)

    def __exit__(self, *a):
        signal.setitimer(signal.ITIMER_REAL, 0)
        signal.signal(signal.SIGALRM, self.old)
        return False


# ------------------------------------------------------------------------------------------ check context

class Ctx:
    def __init__(self, pid, tier, seed, level='proof'):
        self.pid, self.tier, self.seed, self.level = pid, tier, seed, level
        self.rng = random.Random(seed * 1000003 + int(hashlib.sha256(pid.encode()).hexdigest()[:8], 16))
        self.t0 = time.time()
        self.queue = []          # (line, impl_out, meta)
        self.evaluations = 0
        self.distinct = set()    # hashes of distinct non-trivial canonical inputs
        self.samples = []
        self.hist = collections.defaultdict(collections.Counter)
        self.mismatches = []     # dicts
        self.counterexamples = []  # dicts: property false on the real code
        self.known_hits = []
        self.proof = {'obligations': 0, 'discharged': 0, 'theorems': [], 'problems': []}
        self.explored = {}
        self.assumptions = []
        self.extra = {}
        self.driver = Driver()
        self.known = load_known()
        self.exhaustive = None
        self.nolean = False

    # -- generators helpers
    def quick(self):
        return self.tier == 'quick'

    def scale(self, q, t):
        return q if self.tier == 'quick' else t

    # -- case queue
    def case(self, line, impl, nontrivial=True, meta=None, sample=False, post=None):
        """queue one correspondence case: the model's reply to `line` must equal `impl` (a str)"""
        self.queue.append((line, impl, meta, post))
        self.evaluations += 1
        if nontrivial:
            self.distinct.add(hashlib.blake2b(line.encode(), digest_size=8).digest())
        if sample or (len(self.samples) < 6 and nontrivial and self.rng.random() < 0.05):
            if len(self.samples) < 12:
                self.samples.append({'op': line[:400], 'impl': impl[:400]})
        if len(self.queue) >= 200000:
            self.flush()

    def count(self, name, value):
        self.hist[name][str(value)] += 1

    def flush(self):
        if not self.queue:
            return
        q, self.queue = self.queue, []
        outs = self.driver.ask([c[0] for c in q])
        for (line, impl, meta, post), model in zip(q, outs):
            if post is not None:
                try:
                    model = post(model)
                except Exception as ex:
                    model = 'post-error:{!r} on {}'.format(ex, model)[:500]
            if model != impl:
                if len(self.mismatches) < 200:
                    self.mismatches.append({'op': line, 'impl': impl, 'model': model, 'meta': meta})
                else:
                    self.mismatches.append(None)

    def monitor_fail(self, what, replay_input, key=None):
        """the property predicate evaluated on the real code's output is false: a counterexample"""
        self.counterexamples.append({'what': what, 'input': replay_input, 'key': key})

    # -- lean
    def lean_check(self, with_leanchecker=False):
        rc, out, dt = lake_build(tuple(prop_modules(self.pid)) + ('qvdriver',))
        self.extra['lake_build_s'] = round(dt, 1)
        if rc != 0:
            self.proof['problems'].append('lake build failed:\n' + out[-3000:])
            return False
        hits = lean_forbidden_scan(self.pid)
        if hits:
            self.proof['problems'].append('forbidden constructs: ' + '; '.join(hits[:10]))
        path, names = prop_theorems(self.pid)
        self.proof['obligations'] = len(names)
        if not names:
            self.proof['problems'].append('no property theorems found in ' + path)
            return False
        res, raw = axiom_audit(self.pid, names)
        ok = 0
        for n in names:
            ax = res.get(n)
            if ax is None:
                self.proof['problems'].append('theorem not found by audit: ' + n)
            elif not set(ax) <= ALLOWED_AXIOMS:
                self.proof['problems'].append('theorem {} uses axioms {}'.format(n, ax))
            else:
                ok += 1
            self.proof['theorems'].append({'name': n, 'axioms': ax})
        self.proof['discharged'] = ok if not hits else 0
        if with_leanchecker:
            t = time.time()
            rc, out = sh(['lake', 'env', 'leanchecker'] + prop_modules(self.pid), cwd=LEAN, timeout=7200)
            self.extra['leanchecker_s'] = round(time.time() - t, 1)
            self.extra['leanchecker_rc'] = rc
            if rc != 0:
                self.proof['problems'].append('leanchecker failed: ' + out[-2000:])
        return not self.proof['problems']

    # -- finishing
    def finish(self, rule, search=None, explanation=None):
        """write evidence, decide exit status.
        search(mismatch) -> optional counterexample dict (property false on the real code)"""
        self.flush()
        n_mis = len(self.mismatches)
        violations = []
        # 1. correspondence breaks -> failing-input search
        if n_mis:
            found = None
            if search is not None:
                for m in [x for x in self.mismatches if x][:50]:
                    try:
                        found = search(m)
                    except Exception as ex:  # search must never mask the break
                        found = None
                        self.extra.setdefault('search_errors', []).append(repr(ex)[:200])
                    if found:
                        break
            first = next(x for x in self.mismatches if x)
            if found:
                violations.append({'kind': 'counterexample', 'via': 'correspondence-break', 'counterexample': found,
                                   'first_mismatch': first, 'mismatches': n_mis})
            else:
                violations.append({'kind': 'correspondence-break', 'first_mismatch': first, 'mismatches': n_mis,
                                   'broken': 'correspondence {}: model reply differs from /repo/src output'.format(
                                       self.pid),
                                   'note': 'no-failing-input-found'})
        # 2. monitor counterexamples (property predicate false on real output)
        fresh = []
        for c in self.counterexamples:
            k = self.match_known(c)
            if k:
                self.known_hits.append((k, c))
            else:
                fresh.append(c)
        if fresh:
            violations.append({'kind': 'counterexample', 'via': 'monitor', 'counterexample': fresh[0],
                               'count': len(fresh)})
        # 3. proof problems
        if self.proof['problems']:
            violations.append({'kind': 'proof-break', 'problems': self.proof['problems'],
                               'broken': 'theorems of Props/{}.lean'.format(self.pid),
                               'note': 'no-failing-input-found'})
        for k in sorted(set(k['key'] for k, _ in self.known_hits)):
            what = next(kk['what'] for kk, _ in self.known_hits if kk['key'] == k)
            print('KNOWN-FINDING: property={} {} [{}]'.format(self.pid, what, k))
        self.write_evidence(rule, explanation, len(violations))
        if violations:
            path = self.write_replay(violations)
            v = violations[0]
            tail = ' no-failing-input-found' if v.get('note') == 'no-failing-input-found' and all(
                x.get('note') == 'no-failing-input-found' for x in violations) else ''
            print('VIOLATION property={} replay={}{}'.format(self.pid, path, tail))
            return 1
        print('OK property={} tier={} seed={} evaluations={} distinct_nontrivial={} theorems={}/{} wall={:.1f}s'.format(
            self.pid, self.tier, self.seed, self.evaluations, len(self.distinct), self.proof['discharged'],
            self.proof['obligations'], time.time() - self.t0))
        return 0

    def match_known(self, c):
        for k in self.known:
            if k.get('property') == self.pid and k.get('status') == 'known' and c.get('key') and \
                    c['key'] == k.get('key'):
                return k
        return None

    def write_replay(self, violations):
        os.makedirs(os.path.join(VERIF, 'replays'), exist_ok=True)
        body = {'property': self.pid, 'tier': self.tier, 'seed': self.seed, 'violations': violations,
                'repo': REPO, 'how_to_replay': './check {} --replay <this file>'.format(self.pid)}
        txt = json.dumps(body, indent=1, default=str)
        h = hashlib.sha256(txt.encode()).hexdigest()[:10]
        rel = os.path.join('replays', '{}-{}.json'.format(self.pid, h))
        with open(os.path.join(VERIF, rel), 'w') as f:
            f.write(txt)
        return rel

    def write_evidence(self, rule, explanation, n_viol):
        cov = {
            'evaluations': self.evaluations,
            'distinct_nontrivial': len(self.distinct),
            'rule': rule,
            'samples': self.samples[:12] or [{'note': 'no sample recorded'}],
            'traces_validated_against_impl': self.evaluations - len(self.mismatches),
            'obligations': self.proof['obligations'],
            'discharged': self.proof['discharged'],
            'checker_cmd': 'cd lean/QecVerif && lake build ' + ' '.join(prop_modules(self.pid)) + ' qvdriver && lake env lean '
                           '<file importing those modules with #print axioms for every theorem of Props/{0}.lean and '
                           'Props/{0}/*.lean>'.format(self.pid) +
                           (' && lake env leanchecker ' + ' '.join(prop_modules(self.pid)) if 'leanchecker_rc' in self.extra
                            else ''),
            'trusted_base': TRUSTED_BASE,
            'theorems': self.proof['theorems'],
            'input_distribution': {k: dict(v.most_common(40)) for k, v in self.hist.items()},
            'correspondence_mismatches': len(self.mismatches),
            'known_findings_hit': sorted(set(k['key'] for k, _ in self.known_hits)),
        }
        if self.exhaustive is not None:
            cov['exhaustive'] = bool(self.exhaustive)
        if explanation:
            cov['explanation'] = explanation
        if cov['discharged'] < 1 or cov['obligations'] < 1:
            # proof obligations not discharged on this run: do not present proof-level keys
            cov['obligations_stated'] = cov.pop('obligations')
            cov['obligations_discharged'] = cov.pop('discharged')
        if self.explored:
            cov['explored'] = self.explored
        cov.update(self.extra)
        ev = {'property_id': self.pid, 'tier': self.tier, 'seed': self.seed, 'level': self.level, 'coverage': cov,
              'assumptions': self.assumptions, 'wall_s': round(time.time() - self.t0, 2), 'violations': n_viol}
        if getattr(self, 'nolean', False):
            print('[dev] --no-lean: evidence not written'); return
        validate_evidence(ev)
        os.makedirs(os.path.join(VERIF, 'evidence'), exist_ok=True)
        with open(os.path.join(VERIF, 'evidence', self.pid + '.json'), 'w') as f:
            json.dump(ev, f, indent=1, default=str)


def load_known():
    p = os.path.join(VERIF, 'known_findings.json')
    if not os.path.exists(p):
        return []
    return json.load(open(p)).get('findings', [])


def validate_evidence(ev):
    schema_path = '/root/.vp/EVIDENCE.schema.json'
    local = os.path.join(VERIF, 'harness', 'EVIDENCE.schema.json')
    p = local if os.path.exists(local) else schema_path
    if not os.path.exists(p):
        return
    try:
        import jsonschema
        jsonschema.validate(ev, json.load(open(p)))
        return
    except ImportError:
        pass
    # /venv has no jsonschema: use the tooling interpreter when present, else a minimal structural check
    import shutil
    vt = shutil.which('python3-vt')
    if vt:
        code = ('import json,sys,jsonschema; jsonschema.validate(json.load(sys.stdin), json.load(open(sys.argv[1])))')
        r = subprocess.run([vt, '-c', code, p], input=json.dumps(ev, default=str), text=True,
                           stdout=subprocess.PIPE, stderr=subprocess.PIPE)
        if r.returncode != 0:
            raise Infra('evidence does not validate: ' + r.stderr[-800:])
        return
    for k in ('property_id', 'tier', 'seed', 'level', 'coverage', 'wall_s'):
        if k not in ev:
            raise Infra('evidence lacks ' + k)


def do_replay(mod, pid, path, level):
    """./check Cxx --replay file: first the module's own targeted replay (re-evaluates the recorded case on the current
    tree); if the module has none, or it reports nothing, re-run the whole check deterministically with the recorded
    tier and seed (dev mode: no evidence is rewritten). Exit 1 + VIOLATION line iff the violation is still there."""
    body = json.load(open(path))
    tier, seed = body.get('tier', 'quick'), int(body.get('seed', 0))
    ctx = Ctx(pid, tier, seed, level=level)
    ctx.nolean = True
    rc = None
    if hasattr(mod, 'replay') and not getattr(mod, 'REPLAY_GENERIC', False):
        try:
            rc = mod.replay(ctx, path)
        except Exception as ex:
            print('targeted replay failed ({!r}); falling back to a full deterministic re-run'.format(ex))
            rc = None
    if rc == 1:
        print('VIOLATION property={} replay={}'.format(pid, path))
        return 1
    if rc == 0 and not getattr(mod, 'REPLAY_RERUN', True):
        return 0
    ctx = Ctx(pid, tier, seed, level=level)
    ctx.nolean = True
    return mod.run(ctx)
