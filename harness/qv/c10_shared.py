"""
C10 helper — the PROCEDURE of `_coset_probabilities` of the three MPS decoders that contract by column / row (`PlanarMPSDecoder`, `RotatedPlanarMPSDecoder`, `RotatedPlanarRMPSDecoder`): which partially contracted bra is SHARED between which cosets, recorded from outside and compared with the model's bookkeeping and four values.

The network theorems (`planar_tn_value`, ...) are about the plain contraction of each coset's own network.  The real
decoders do something else: `PlanarMPSDecoder` (mode 'c') contracts `tns[0]` with `stop=-1` ONCE and combines that bra
with the last column of `tns[0]` (coset I) and of `tns[1]` (coset X), then `tns[3]` once for the cosets Y (last column of
`tns[2]`) and Z; mode 'r' does the same on the transposed networks with the pairing I/Z, X/Y; mode 'a' does both and
averages.  `RotatedPlanarRMPSDecoder` pairs I/Z, X/Y by column and I/X, Z/Y by row.  `RotatedPlanarMPSDecoder` shares
nothing (four plain contractions per mode).  These procedures are modelled literally (Model/PlanarTn.lean `runPlan`,
`planC`, `planR`, `cosetValuesC / R / A`; Model/RotatedPlanarRmpsTn.lean `planCols`, `planRows`; Model/RotatedPlanarTn.lean
`fullValue`) and proved to return the four exact `cosetProb`s for all sizes (Props/C10/PlanarShared.lean,
RotatedPlanarShared.lean, RotatedPlanarRmpsShared.lean).

`cases(ctx)` runs, for every decoder, every accepted small lattice shape with rows = cols, rows > cols AND rows < cols
(an independent change once broke the pairing only on tall lattices), the three modes 'c', 'r', 'a', random Paulis and
the decoder's own `sample_recovery` samples and several distributions, the REAL
`Decoder(mode=m)._coset_probabilities(dist, sample)` while recording (module attributes wrapped for the duration of the
call, no /repo edit):

  * every `TNC.create_tn` call (the sample handed over and the network object returned);
  * every `tt.mps2d.transpose` call (source object, result object);
  * every top-level `tt.mps2d.contract` call: WHICH network object (index into the current `tns`), start / stop / step,
    chi / tol / mask, and the object returned;
  * every top-level `tt.mps.inner_product` call: whether the bra IS the object the latest contract returned, and WHICH
    network's last column the ket is (element-wise object identity);

and queues the correspondence cases

  tnvalues  the recorded call sequence, written as `t` / `c<net>:<start>:<stop>:<step>` / `i<net>` in execution order,
            == the model's `planTrace` of the plan it executes (driver op `<tok> tnvalues R C mode f aI aX aY aZ`), the four
            samples handed to `create_tn` == f, f·X̄, f·X̄·Z̄, f·Z̄ by the real Pauli methods, and the four returned
            coset probabilities within 1e-11 (relative) of the model's four values (mode 'a': exact rationals);
            and (small groups) the model's four values == the exact coset sums, Lean `cosetProb` on the REAL
            `code.stabilizers / code.logicals` (`c10 cosets`) — the statement of `…_coset_values_c/_r/_a`.

`evaluate_input(meta)` (family 'tn-shared') evaluates the PROPERTY on the real code for a recorded input: the decoder's
`_coset_probabilities(dist, sample)` in modes c, r, a against coset sums enumerated in Python.

Standalone:  QV_LEAN_DIR=<lean dir> VERIF_SEED=k /venv/bin/python harness/qv/c10_shared.py [quick|thorough]
"""
import contextlib
import inspect
import os
import random
import sys
from fractions import Fraction

import numpy as np

if __name__ == '__main__':
    sys.path.insert(0, os.path.join(os.path.dirname(os.path.abspath(__file__)), '..'))

from qv import core  # noqa: E402
from qv.core import bits, mat  # noqa: E402

FAMILY = 'tn-shared'

# decoder -> (driver token, code family)
DECODERS = {'PlanarMPSDecoder': ('c10', 'planar'),
            'RotatedPlanarMPSDecoder': ('c10rplanar', 'rotatedplanar'),
            'RotatedPlanarRMPSDecoder': ('c10rprmps', 'rotatedplanar')}


def _c10():
    from qv.props import c10   # lazy: c10.py imports this module
    return c10


def make_code(fam, size):
    if fam == 'planar':
        from qecsim.models.planar import PlanarCode
        return PlanarCode(*size)
    from qecsim.models.rotatedplanar import RotatedPlanarCode
    return RotatedPlanarCode(*size)


def make_decoder(name, mode):
    if name == 'PlanarMPSDecoder':
        from qecsim.models.planar import PlanarMPSDecoder
        return PlanarMPSDecoder(mode=mode)
    import qecsim.models.rotatedplanar as rp
    return getattr(rp, name)(mode=mode)


def plan(ctx):
    """(decoder, size, items, modes, spec) — spec: 'cosets' = the model values also exactly against the REAL matrices,
    'float' = only the real float values against the model values (group too large for the quick enumeration)"""
    q = ctx.quick()
    P = []
    A = ('c', 'r', 'a')
    # planar: square, tall (rows > cols) and wide (rows < cols)
    P += [('PlanarMPSDecoder', (2, 2), 2 if q else 8, A, 'cosets')]
    P += [('PlanarMPSDecoder', s, 2 if q else 6, A, 'cosets') for s in [(3, 2), (2, 3), (4, 2), (2, 4)]]
    P += [('PlanarMPSDecoder', (3, 3), 1 if q else 4, A, 'cosets')]
    P += [('PlanarMPSDecoder', s, 1 if q else 3, A, 'float' if q else 'cosets') for s in [(4, 3), (3, 4)]]
    P += [('PlanarMPSDecoder', s, 1 if q else 3, ('a',) if q else A, 'cosets') for s in [(5, 2), (2, 5)]]
    if not q:
        P += [('PlanarMPSDecoder', s, 2, A, 'float') for s in [(4, 4), (5, 3), (3, 5), (6, 2), (2, 6)]]
    # rotated planar RMPS: odd / even, tall / wide
    R = 'RotatedPlanarRMPSDecoder'
    P += [(R, (3, 3), 2 if q else 8, A, 'cosets')]
    P += [(R, s, 2 if q else 6, A, 'cosets') for s in [(4, 3), (3, 4)]]
    P += [(R, s, 1 if q else 4, A, 'cosets') for s in [(5, 3), (3, 5), (4, 4)]]
    if not q:
        P += [(R, s, 2, A, 'float') for s in [(5, 4), (4, 5), (6, 3), (3, 6), (5, 5)]]
    # rotated planar MPS: nothing shared (the tie pins that down)
    R = 'RotatedPlanarMPSDecoder'
    P += [(R, s, 1 if q else 4, A, 'cosets') for s in [(3, 3), (4, 3), (3, 4)]]
    if not q:
        P += [(R, s, 2, A, 'cosets') for s in [(5, 3), (3, 5), (4, 4)]]
    return P


# ------------------------------------------------------------------------------------------------ recording

@contextlib.contextmanager
def recording(decoder):
    """wrap `decoder._tnc.create_tn`, `tt.mps2d.contract`, `tt.mps2d.transpose`, `tt.mps.inner_product` for the
    duration of the block; calls made INSIDE `mps2d.contract` are not recorded"""
    import qecsim.tensortools.mps as m1
    import qecsim.tensortools.mps2d as m2
    rec = {'create': [], 'events': []}
    o_contract, o_transpose, o_ip, o_tnc = m2.contract, m2.transpose, m1.inner_product, decoder._tnc
    sig = inspect.signature(o_contract)
    depth = [0]

    class Tnc:
        def create_tn(self, prob_dist, sample_pauli):
            f = [int(x) for x in sample_pauli.to_bsf()]
            tn = o_tnc.create_tn(prob_dist, sample_pauli)
            rec['create'].append((f, tn))
            return tn

        def __getattr__(self, name):
            return getattr(o_tnc, name)

    def contract(*a, **kw):
        ba = sig.bind(*a, **kw)
        ba.apply_defaults()
        depth[0] += 1
        try:
            res = o_contract(*a, **kw)
        finally:
            depth[0] -= 1
        if depth[0] == 0:
            rec['events'].append(('c', dict(ba.arguments), res))
        return res

    def transpose(tn):
        out = o_transpose(tn)
        if depth[0] == 0:
            rec['events'].append(('t', tn, out))
        return out

    def inner_product(bra, ket):
        depth[0] += 1
        try:
            res = o_ip(bra, ket)
        finally:
            depth[0] -= 1
        if depth[0] == 0:
            rec['events'].append(('i', bra, ket))
        return res

    m2.contract, m2.transpose, m1.inner_product, decoder._tnc = contract, transpose, inner_product, Tnc()
    try:
        yield rec
    finally:
        m2.contract, m2.transpose, m1.inner_product, decoder._tnc = o_contract, o_transpose, o_ip, o_tnc


def _same_col(a, b):
    return len(a) == len(b) and all(x is y for x, y in zip(a, b))


def describe(rec):
    """canonical description of the recorded procedure, `<call sequence>` in the model's `planTrace` notation, or a
    `bad:` string"""
    creates = rec['create']
    if len(creates) != 4:
        return 'bad:create_tn called {} times'.format(len(creates))
    nets = [tn for _, tn in creates]
    toks = []
    ev = rec['events']
    k = 0
    last_bra = None
    while k < len(ev):
        e = ev[k]
        if e[0] == 't':
            grp = ev[k:k + 4]
            if len(grp) != 4 or any(g[0] != 't' for g in grp) or any(g[1] is not nets[j] for j, g in enumerate(grp)):
                return 'bad:transposes are not tns[0..3] in order'
            nets = [g[2] for g in grp]
            toks.append('t')
            k += 4
            continue
        if e[0] == 'c':
            a, res = e[1], e[2]
            idx = [j for j, tn in enumerate(nets) if a['tn'] is tn]
            if len(idx) != 1:
                return 'bad:contract on an object that is not one of the current tns'
            if any(a[x] is not None for x in ('chi', 'tol', 'mask')):
                return 'bad:truncation arguments {}'.format({x: a[x] for x in ('chi', 'tol', 'mask')})
            toks.append('c{}:{}:{}:{}'.format(idx[0], a['start'], a['stop'], a['step']))
            last_bra = res[0] if isinstance(res, tuple) and len(res) == 2 else None
        else:
            bra, ket = e[1], e[2]
            if last_bra is None or bra is not last_bra:
                return 'bad:inner_product bra is not the result of the latest contract'
            col = list(ket)
            idx = [j for j, tn in enumerate(nets) if _same_col(col, list(tn[:, -1]))]
            toks.append('i' + ('|'.join(str(j) for j in idx) if idx else '?'))
        k += 1
    return ','.join(toks)


# ------------------------------------------------------------------------------------------------ cases

def _variants(code, f):
    sp = code.new_pauli(np.array(f, dtype=int))
    return [sp, sp.copy().logical_x(), sp.copy().logical_x().logical_z(), sp.copy().logical_z()]


def _parse_vals(tok, D, n):
    out = []
    for x in tok.split(','):
        if '/' in x:
            p, q = x.split('/')
            out.append(Fraction(int(p), int(q)) / Fraction(D) ** n)
        else:
            out.append(Fraction(int(x)) / Fraction(D) ** n)
    return out


def cases(ctx):
    P = _c10()
    rng = random.Random(ctx.seed * 7919 + 1010)   # own stream: the other parts' draws are unchanged
    raw = P.raw_model_dists()
    items = []
    for name, size, n_items, modes, spec in plan(ctx):
        tok, fam = DECODERS[name]
        code = make_code(fam, size)
        n = code.n_k_d[0]
        dec0 = make_decoder(name, 'c')
        for j in range(n_items):
            if j % 2 == 1:   # the decoder's own sample for a random syndrome (low weight half the time)
                i = rng.getrandbits(len(code.stabilizers))
                if j % 4 == 3:
                    i &= rng.getrandbits(len(code.stabilizers))
                syn = [(i >> k) & 1 for k in range(len(code.stabilizers))]
                f = [int(x) for x in dec0.sample_recovery(code, np.array(syn, dtype=int)).to_bsf()]
                src = 'sample_recovery'
            else:            # any Pauli
                f = [rng.randrange(2) for _ in range(2 * n)]
                src = 'random'
            if rng.random() < 0.15:
                kind, dist = raw[rng.randrange(len(raw))]
            else:
                kind = P.KINDS[rng.randrange(len(P.KINDS))]
                dist = P.make_dist(rng, kind, rng.choice(P.PS))
            items.append((name, size, code, f, src, kind, tuple(float(x) for x in dist), modes, spec))
    # phase 1: the exact spec values on the REAL matrices, from the driver (Lean `cosetProb`)
    spec_lines = []
    for name, size, code, f, src, kind, dist, modes, spec in items:
        a, D = P.numerators(dist)
        if spec == 'cosets':
            spec_lines.append('c10 cosets {} {} {} {} {} {} {}'.format(mat(code.stabilizers), mat(code.logicals),
                                                                      bits(f), *a))
    spec_out = iter(ctx.driver.ask(spec_lines))
    # phase 2: the cases
    for name, size, code, f, src, kind, dist, modes, spec in items:
        tok, fam = DECODERS[name]
        a, D = P.numerators(dist)
        n = code.n_k_d[0]
        meta = {'family': FAMILY, 'decoder': name, 'size': list(size), 'sample': bits(f),
                'dist': [x.hex() for x in dist], 'kind': kind, 'sample_source': src}
        want = next(spec_out).split()[0] if spec == 'cosets' else None
        try:
            expect_samples = [bits(sp.to_bsf()) for sp in _variants(code, f)]
        except Exception as ex:
            ctx.monitor_fail('logical_x / logical_z raised ' + repr(ex)[:80], meta, key='C10:tn-shared:variants')
            continue
        for mode in modes:
            mmeta = dict(meta, mode=mode)
            dec = make_decoder(name, mode)
            try:
                with recording(dec) as rec, core.TimeLimit(P.DECODE_LIMIT):
                    ps, _ = dec._coset_probabilities(dist, code.new_pauli(np.array(f, dtype=int)))
                desc = describe(rec)
                got_samples = [bits(g) for g, _ in rec['create']]
            except Exception as ex:
                ctx.monitor_fail('{}(mode={})._coset_probabilities raised {!r}'.format(name, mode, ex)[:200],
                                 mmeta, key='C10:tn-shared:raises')
                continue
            if got_samples != expect_samples:
                desc = 'bad:samples handed to create_tn ' + '/'.join(got_samples)
            shape = 'square' if size[0] == size[1] else ('tall' if size[0] > size[1] else 'wide')
            ctx.count('shared_decoder', name); ctx.count('shared_mode', mode); ctx.count('shared_shape', shape)
            ctx.count('shared_code', '{}{}x{}'.format(fam, *size)); ctx.count('shared_sample', src)
            ctx.extra['shared_runs'] = ctx.extra.get('shared_runs', 0) + 1
            real_vals = [P.to_fraction(p) for p in ps]
            line = '{} tnvalues {} {} {} {} {} {} {} {}'.format(tok, size[0], size[1], mode, bits(f), *a)

            # exact (small groups): the model's procedure == cosetProb on the REAL matrices (the statement of the
            # theorems); mode 'a' replies rationals
            w = None if want is None else (want if mode != 'a' else ','.join(x + '/1' for x in want.split(',')))

            def post(reply, real_vals=real_vals, D=D, n=n, exact=w is not None):
                toks = reply.split()
                if len(toks) != 3 or toks[0] != 'ok':
                    return 'model ' + reply[:60]
                vals = _parse_vals(toks[2], D, n)
                verdict = 'values-ok'
                if len(vals) != len(real_vals):
                    verdict = 'count'
                top = max(vals) if vals else 0
                for i, (rv, ev) in enumerate(zip(real_vals, vals)):
                    if rv is None or abs(rv - ev) > P.REL_TOL * (ev if ev > 0 else (top if top > 0 else 1)):
                        verdict = 'coset {} real {!r} model {:.17e}'.format(
                            'IXYZ'[i], None if rv is None else float(rv), float(ev))
                        break
                return '{} {}{}'.format(toks[1], verdict, ' ' + toks[2] if exact else '')
            ctx.case(line, desc + ' values-ok' + ('' if w is None else ' ' + w), nontrivial=True, meta=mmeta, post=post)
            if w is not None:
                ctx.extra['shared_exact'] = ctx.extra.get('shared_exact', 0) + 1
    ctx.flush()


# ------------------------------------------------------------------------------------------------ search

def evaluate_input(meta):
    """the property on the real code for a recorded case: `_coset_probabilities(dist, sample)` of the real decoder
    (modes c, r, a) against the exact coset sums enumerated in Python"""
    P = _c10()
    name = meta.get('decoder', 'PlanarMPSDecoder')
    tok, fam = DECODERS[name]
    code = make_code(fam, tuple(meta['size']))
    n = code.n_k_d[0]
    if len(code.stabilizers) > 17:
        return None
    dist = tuple(float.fromhex(x) for x in meta['dist'])
    f = np.array([int(c) for c in meta['sample']], dtype=int)
    a, D = P.numerators(dist)
    exact = [Fraction(x) / Fraction(D) ** n for x in P.python_exact(code, f, a)]
    cname = '{}{}'.format(type(code).__name__, tuple(meta['size']))
    for mode in ('c', 'r', 'a'):
        try:
            with core.TimeLimit(P.DECODE_LIMIT):
                ps, _ = make_decoder(name, mode)._coset_probabilities(dist, code.new_pauli(f))
        except Exception as ex:
            return {'what': '{}(mode={})._coset_probabilities raised {!r}'.format(name, mode, ex)[:300],
                    'code': cname, 'sample_pauli_bsf': meta['sample'], 'prob_dist': list(dist)}
        for i, (p, e) in enumerate(zip(ps, exact)):
            pf = P.to_fraction(p)
            tol = P.REL_TOL * e if e > 0 else P.REL_TOL * (max(exact) if max(exact) else 1)
            if pf is None or abs(pf - e) > tol:
                return {'what': '{}(mode={}, chi=None)._coset_probabilities: coset {} probability {!r} differs from '
                                'the exact coset sum {:.17e}'.format(name, mode, 'IXYZ'[i], p, float(e)),
                        'decoder': name, 'mode': mode, 'code': cname, 'sample_pauli_bsf': meta['sample'],
                        'prob_dist': list(dist), 'real_coset_probabilities': [float(x) for x in ps],
                        'exact_coset_probabilities_IXYZ': [float(x) for x in exact]}
    return None


def search(m):
    meta = m.get('meta')
    if not meta or meta.get('family') != FAMILY:
        return None
    found = evaluate_input(meta)
    if found is None:
        # near variants: the same decoder on the small tall / wide / square shapes, a few random samples
        rng = np.random.default_rng(0)
        fam = DECODERS[meta.get('decoder', 'PlanarMPSDecoder')][1]
        sizes = [(3, 2), (2, 3), (2, 2), (4, 2), (2, 4), (3, 3)] if fam == 'planar' else [(4, 3), (3, 4), (3, 3), (5, 3), (3, 5)]
        for size in sizes:
            code = make_code(fam, size)
            for _ in range(3):
                f = rng.integers(0, 2, 2 * code.n_k_d[0])
                found = evaluate_input(dict(meta, size=list(size), sample=bits(f)))
                if found:
                    return found
    return found


def _main():
    """standalone run (no evidence written): queue the cases, flush, report mismatches and — as `finish` would —
    the first failing input of the property found by `search`"""
    import logging
    import time
    logging.getLogger('qecsim').setLevel(logging.CRITICAL)
    logging.disable(logging.WARNING)
    tier = sys.argv[1] if len(sys.argv) > 1 else 'quick'
    seed = int(os.environ.get('VERIF_SEED', '0') or 0)
    core.assert_repo_binding()
    ctx = core.Ctx('C10', tier, seed)
    t0 = time.time()
    cases(ctx)
    ctx.flush()
    mis = [x for x in ctx.mismatches if x]
    if mis or ctx.counterexamples:
        found = None
        for m in mis[:50]:
            found = search(m)
            if found:
                break
        print('MISMATCHES {} monitor {}'.format(len(ctx.mismatches), len(ctx.counterexamples)))
        if mis:
            m = mis[0]
            print(' first: op={} ...\n   impl ={}\n   model={}\n   meta={}'.format(
                m['op'][:120], m['impl'][:300], m['model'][:300], m['meta']))
        if ctx.counterexamples:
            print(' monitor:', ctx.counterexamples[0])
        print(' failing input of the property:', found)
        return 1
    print('OK c10_shared tier={} seed={} evaluations={} distinct={} runs={} exact={} decoders={} modes={} shapes={} '
          'wall={:.1f}s'.format(tier, seed, ctx.evaluations, len(ctx.distinct), ctx.extra.get('shared_runs'),
                                ctx.extra.get('shared_exact'),
                                dict(ctx.hist['shared_decoder']), dict(ctx.hist['shared_mode']),
                                dict(ctx.hist['shared_shape']), time.time() - t0))
    return 0


if __name__ == '__main__':
    sys.exit(_main())
