"""shared generators: random valid stabilizer codes (random Clifford image of a trivial code), matrix codes"""
import numpy as np

from qecsim.model import StabilizerCode


class MatCode(StabilizerCode):
    """a StabilizerCode given directly by (arbitrary) binary matrices — no validity assumed"""

    def __init__(self, S, Lx, Lz, nkd=None, label='matcode'):
        self._S = np.array(S, dtype=int)
        self._Lx = np.array(Lx, dtype=int)
        self._Lz = np.array(Lz, dtype=int)
        n = self._S.shape[1] // 2 if self._S.ndim == 2 and self._S.shape[0] else self._Lx.shape[1] // 2
        self._nkd = nkd if nkd is not None else (n, len(self._Lx), None)
        self._label = label

    @property
    def stabilizers(self):
        return self._S

    @property
    def logical_xs(self):
        return self._Lx

    @property
    def logical_zs(self):
        return self._Lz

    @property
    def logicals(self):  # not cached: each MatCode is its own object and lru_cache on a property keys on self
        return np.vstack((self._Lx, self._Lz))

    @property
    def n_k_d(self):
        return self._nkd

    @property
    def label(self):
        return self._label


def trivial_code(n, k):
    """stabilizers Z_k..Z_{n-1}; logical X_i, Z_i on qubit i < k   (rows are bsf vectors of length 2n)"""
    def x(i):
        v = [0] * (2 * n); v[i] = 1; return v

    def z(i):
        v = [0] * (2 * n); v[n + i] = 1; return v
    S = [z(i) for i in range(k, n)]
    Lx = [x(i) for i in range(k)]
    Lz = [z(i) for i in range(k)]
    return S, Lx, Lz


def random_clifford_cols(rng, n, n_gates=None):
    """a random sequence of H / S / CNOT gates, as a function acting on bsf row vectors"""
    gates = []
    for _ in range(n_gates if n_gates is not None else 6 * n):
        g = rng.choice('HSC') if n > 1 else rng.choice('HS')
        if g == 'C':
            c, t = rng.sample(range(n), 2)
            gates.append(('C', c, t))
        else:
            gates.append((g, rng.randrange(n)))

    def apply(v):
        v = list(v)
        for g in gates:
            if g[0] == 'H':
                q = g[1]; v[q], v[n + q] = v[n + q], v[q]
            elif g[0] == 'S':
                q = g[1]; v[n + q] ^= v[q]
            else:
                _, c, t = g
                v[t] ^= v[c]
                v[n + c] ^= v[n + t]
        return v
    return apply


def random_valid_code(rng, n, k, mix_generators=True):
    S, Lx, Lz = trivial_code(n, k)
    f = random_clifford_cols(rng, n)
    S, Lx, Lz = [f(v) for v in S], [f(v) for v in Lx], [f(v) for v in Lz]
    if mix_generators and len(S) > 1:
        # replace generators by products of generators (still a generating set): random unitriangular mixing
        for i in range(len(S)):
            for j in range(i + 1, len(S)):
                if rng.random() < 0.3:
                    S[i] = [a ^ b for a, b in zip(S[i], S[j])]
        # multiply logicals by stabilizers (still valid logicals)
        for L in (Lx, Lz):
            for i in range(len(L)):
                if rng.random() < 0.5:
                    s = rng.choice(S)
                    L[i] = [a ^ b for a, b in zip(L[i], s)]
    return S, Lx, Lz


def rand_bits(rng, n, density=0.5):
    return [1 if rng.random() < density else 0 for _ in range(n)]
