"""C16 — error-model probability distributions are valid and as documented
   (qecsim.models.generic: Depolarizing / BitFlip / PhaseFlip / BitPhaseFlip / BiasedDepolarizing / BiasedYX /
   CenterSlice  against  Model/ErrorModels.lean).

What is a theorem (Props/C16.lean, over Q; over R where the biased-Y-X square root appears), for ALL p in [0,1] and
all accepted parameters: entries >= 0, sum = 1, Pr(I) = 1-p for every model; equal thirds; high/sum-of-low = bias
along the axis; biased-Y-X: discriminant >= 0, rates in [0,1], p_x+p_y+p_z = p, p_y = bias p_x, independence
p_z = r_x r_y, uniqueness of the solution; centre slice: normalised limit / negative limit lie on the triangle
boundary on the line through the centre, ratio sums to 1, entries >= 0 (for limits with non-negative components),
special cases (bias 1/2, pos 0, bias 0, unit limits), and the constructor domains over a universe of Python values.

What is explored, not proved: the FLOAT evaluation.  The tie sends the exact rational value of the float inputs
(Fraction(p), Fraction(bias), ...) to the driver, which answers the exact model value.  All tolerances are
SCALE-AWARE (relative to the entry itself, never to 1): an entry X,Y,Z with exact value e must satisfy
|f - e| <= 1e-14 e (+ a floor only where the DOCUMENTED formula itself subtracts: centre slice with pos < 0 gets
+ 1e-15 p |pos| for the cancelling component of the negative limit; biased-Y-X gets + 2e-15 r_x on p_x = r_x (1 - r_y)
and + 2e-15 r_y on p_y = r_y (1 - r_x));  Pr(I) = 1 - sum gets + 1e-15.  In particular an entry whose exact value is
positive must be positive and every documented ratio (high / sum of low = bias, Y : X = bias, slice ratio) holds to
relative accuracy at bias 1e-15 just as at bias 1.  Measured on the unchanged tree (fix commits 6e154a9, edff675,
2b01af0): relative error <= 4.6e-16 (cancellation-free entries), floors used up to 4.6e-16 r resp. 1.6e-16 p |pos|.
Biased-Y-X has no rational closed form: (a) the real floats are substituted into the defining equations by the Lean
checker `biasedYXResidual`; accepted when |p_x+p_y+p_z - p| <= 1e-12 p, |p_y - bias p_x| <= 1e-9 bias p_x +
2e-15 (r_y + bias r_x), |p_z - r_x r_y| <= 1e-9 p_z (r_x = p_x+p_z, r_y = p_y+p_z); by `biasedYX_unique` vanishing
residuals single out the model; (b) a rigorous rational ENCLOSURE of the documented closed form
r_x = (a - s)/2, r_y = (b - s)/(2 bias), s = sqrt(a^2 - 4p) (s bracketed to 2^-400 by integer square roots) is
compared entry by entry within the bound above, for every bias (log-spaced grid 1e-15 ... 1e15 and log-uniform random);
(c) where the discriminant is a rational square (dyadic rate pairs), against the exact closed form `biasedYX?`.
NOT flagged, by decision of the tolerance above: in the saturated corner min(1-r_x, 1-r_y) < ~1e-6 (p within ~3e-7
of 1) the float 1 - r loses digits, so p_y / p_x deviates from bias by up to eps / min(1-r_x, 1-r_y) relative
(e.g. bias 8e14, p = 1 - 2^-52: p_x = 3.2e-16 instead of 6.5e-16) while every entry stays within 5e-16 absolute;
counted in the histogram `byx.ratio-rel>1e-9`.

Direct monitors on the real floats (independent of the Lean model; a failure is a counterexample of the property):
every entry finite and >= 0 — STRICTLY: numpy's Generator.choice, the consumer in SimpleErrorModel.generate, raises
ValueError('Probabilities are not non-negative') on an entry of -1e-17 just as on -0.1, so no noise margin is
granted; |sum - 1| <= 1e-12; |Pr(I) - (1-p)| <= 1e-12; documented shapes and special cases; out-of-domain
constructor arguments rejected.  Known-finding keys (all inputs of one defect map to one key, nothing else does):
  BiasedYXErrorModel.tiny-bias-cancellation   the float evaluation of the documented closed form loses all digits
      (negative entries, math domain error, residual above tolerance); recognised only when the real output equals
      bit-for-bit this module's copy of the documented closed form (so a changed formula never matches the key)
  CenterSliceErrorModel.negative-limit-accepted   a limit with a negative component is accepted
  CenterSliceErrorModel.nonfinite-limit-accepted  a limit with a NaN / +inf component (none negative) is accepted
  probability_distribution.negative-identity-rounding   Pr(I) = 1 - sum(...) is in [-2^-50, 0) for p >= 1 - 2^-50
  CenterSliceErrorModel.neg-lim-rounding   pos < 0: an entry whose exact value is <= 1e-15 p is in [-1e-15 p, 0)
  BiasedYXErrorModel.huge-bias-overflow   an accepted finite bias > sqrt(max double) = 1.34e154 makes
      probability_distribution raise OverflowError for every p (`h ** 2` in _root); recognised only for that exception
      and only when bias*bias overflows
  CenterSliceErrorModel.limit-sum-overflow   an accepted limit with finite components whose sum overflows (e.g.
      (1.7e308, 9e307, 0)) is normalised to (0, 0, 0): pos >= 0 gives Pr(I) != 1-p (pos 1: (1,0,0,0) for every p), pos < 0
      gives NaN entries
PARAMETER MAGNITUDES.  The documented domains are scale-free (bias > 0 resp. >= 0 and finite; limit = non-negative
finite components with one or two zeros, "possibly unnormalised"; -1 <= pos <= 1), so every parameter also ranges over
the whole positive double range: log-uniform over all decades 5e-324 ... 1.8e308 (sub-normals included), the regime
thresholds of x*x, x*x*x, 1/x, 1/(x*x), x+x with a neighbour on each side (EDGE_MAGS), independent magnitudes per limit
component (dynamic range up to 1e632), one extreme common scale times ordinary numbers, near-ties at an extreme scale,
tiny positions.  Constructor: interior limits (three positive components) must be rejected at every magnitude (also
when the product / sum of the components underflows), boundary limits and every positive finite bias accepted
(`in_domain` compares the values themselves).  For accepted values the same monitors and the same exact tie apply;
claims are relative and therefore waived only for entries whose exact value is below 1e-290 (underflow range), the
biased-Y-X enclosure brackets the square root RELATIVELY (shifted integer square root) and uses the exactly equal
quotient forms 2p/(a+s), 2hp/(b+s) so that it stays tight at bias 1e-300; the bias equation gets an absolute floor of
16 sub-normal ulps (2^-1070).
Measured failing region of the biased-Y-X closed form on the unchanged tree (eps = 2.2e-16, a = 1+h+p-hp):
negative p_y, p_z when bias <~ 1.5e-8 sqrt((1-p)/p) (r_y = (b-s)/(2h) has absolute error eps/(2h)); |Pr(I)-(1-p)| >
1e-12 when bias <~ 1e-4 or 1e4 <~ bias <~ 1e11 (r_x = (a-s)/2 has absolute error eps*a); ValueError('math domain
error') or negative p_x when (1-p)*max(bias,1e-16) <~ 4e-16, in particular at p = 1.0 for about a quarter of all biases
below 1.
A tree that rejects limits with negative / non-finite components (ValueError) passes the constructor tie as well.
"""
import json
import math
import sys
import warnings
from fractions import Fraction

from qv.core import rat

LEVEL = 'proof'

RULE = ('probability_distribution(p) of the real models on p in {0,1e-30,1e-12,1e-6,.01,.1,.25,.5,.75,.9,.999,1-1e-6,'
        '1-1e-12,1-2^-53,1} plus uniform / log-uniform (1e-30..1) / within-ulps-of-1 random p; biased-depolarizing and '
        'biased-Y-X with bias 10^k (k=-15..15), 0.5, 1, 10, 100, 2^+-40 and log-uniform random (extra weight on '
        '1e-15..1e-6 and 1e6..1e15), all axes; centre slice with limits having one or two zeros (components from '
        'fixed and log-uniform values in [1e-15,1e15], ints and floats, near-tie pairs with relative offsets '
        '1e-15..1e-3) and pos in {-1,-.5,0,.5,1,+-1e-12,+-(1-1e-12),+-(1-2^-53), random incl. log-uniform near 0 and '
        'near +-1}; every entry compared RELATIVELY (1e-14, floors only where the documented formula subtracts) with '
        'the exact value / a rigorous rational enclosure of the biased-Y-X closed form; constructor calls over a '
        'value universe (ints, bools, floats incl. -0.0, NaN, '
        '+-inf, str, None, sequences of length 0..4 with zero / negative / non-finite components); PARAMETER MAGNITUDES '
        'over the whole positive double range (bias, limit components, |pos| log-uniform in 5e-324..1.8e308, regime '
        'thresholds of x*x, x^3, 1/x, x+x, independent / common / near-tie component scales; interior limits with '
        'underflowing products must be rejected, boundary limits and biases of any magnitude accepted). Compared with the '
        'exact rational Lean model within the tolerance stated in the module docstring; direct monitors on the real '
        'floats. non-trivial = a case with 0 < p and a parameterised model, or a constructor rejection')

K_D3 = 'BiasedYXErrorModel.tiny-bias-cancellation'
K_D4 = 'CenterSliceErrorModel.negative-limit-accepted'
K_NF = 'CenterSliceErrorModel.nonfinite-limit-accepted'
K_PI = 'probability_distribution.negative-identity-rounding'
K_NL = 'CenterSliceErrorModel.neg-lim-rounding'
K_OV = 'BiasedYXErrorModel.huge-bias-overflow'
K_SO = 'CenterSliceErrorModel.limit-sum-overflow'

REL = Fraction(1, 10 ** 14)        # relative tolerance of every entry (clean tree: <= 4.6e-16)
ABS_I = Fraction(1, 10 ** 15)      # additive floor of Pr(I) = 1 - sum
FLOOR = Fraction(1, 10 ** 15)      # floor unit where the documented formula subtracts (scaled by p |pos| resp. 2 r)
TOL = Fraction(1, 10 ** 12)
RES = Fraction(1, 10 ** 9)         # relative residual of the bias / independence equations
RES_SUM = Fraction(1, 10 ** 12)    # relative residual of p_x + p_y + p_z = p
SQRT_BITS = 400
TINY = Fraction(1, 10 ** 290)      # below this a double underflows: no positivity / relative claim
SUBN = Fraction(1, 2 ** 1070)      # 16 ulps of the sub-normal range: absolute rounding noise of a gradual underflow
FMAX = sys.float_info.max          # 1.797e308
FMIN = sys.float_info.min          # 2.225e-308, smallest normal
DMIN = 5e-324                      # smallest sub-normal
NAMES = 'IXYZ'
SIMPLE = ('dep', 'bf', 'pf', 'bpf')


# ------------------------------------------------------------------------------------------ real code access

def build(model, args):
    from qecsim.models import generic as g
    if model == 'dep':
        return g.DepolarizingErrorModel()
    if model == 'bf':
        return g.BitFlipErrorModel()
    if model == 'pf':
        return g.PhaseFlipErrorModel()
    if model == 'bpf':
        return g.BitPhaseFlipErrorModel()
    if model == 'bd':
        return g.BiasedDepolarizingErrorModel(*args)
    if model == 'byx':
        return g.BiasedYXErrorModel(*args)
    if model == 'slice':
        lim, pos = args
        return g.CenterSliceErrorModel(tuple(lim) if isinstance(lim, list) else lim, pos)
    raise ValueError(model)


def real_dist(model, args, p):
    """('ok', (floats)) or ('exc', ExceptionName)"""
    with warnings.catch_warnings():
        warnings.simplefilter('ignore')
        try:
            em = build(model, args)
            d = em.probability_distribution(p)
            return 'ok', tuple(float(x) for x in d)
        except Exception as ex:  # noqa: BLE001 - any exception is an observation here
            return 'exc', type(ex).__name__


def byx_reference(bias, p):
    """this module's copy of the documented closed form as the unchanged tree evaluates it (only used to decide
    whether a biased-Y-X failure is the known float-cancellation defect)"""
    def rate_x(h, p):
        if h == 0:
            return p
        return 1 / 2 * (1 + h + p - h * p - math.sqrt(-4 * p + (1 + h + p - h * p) ** 2))

    def rate_y(h, p):
        if h == 0:
            return 0
        return 1 / (2 * h) * (1 + h - p + h * p - math.sqrt(-4 * p + (1 + h + p - h * p) ** 2))
    try:
        r_x, r_y = rate_x(bias, p), rate_y(bias, p)
        p_x, p_y, p_z = r_x * (1 - r_y), r_y * (1 - r_x), r_x * r_y
        return 'ok', tuple(float(x) for x in (1 - sum((p_x, p_y, p_z)), p_x, p_y, p_z))
    except Exception as ex:  # noqa: BLE001
        return 'exc', type(ex).__name__


# ------------------------------------------------------------------------------------------ independent spec

def slice_ratio_spec(lim, pos):
    """documented geometry, written independently of the code's line-plane intersection: the point at |pos| between
    the centre and the limit (pos >= 0) resp. the negative limit = the last point of the ray from the limit through
    the centre that is still inside the triangle"""
    s = sum(lim)
    L = [x / s for x in lim]
    c = Fraction(1, 3)
    if pos >= 0:
        return [c + pos * (x - c) for x in L]
    dirn = [c - x for x in L]
    t = min(c / (-dx) for dx in dirn if dx < 0)
    N = [c + t * dx for dx in dirn]
    return [c + (-pos) * (x - c) for x in N]


def spec(model, args, p):
    """exact documented distribution (Fractions) or None (biased-Y-X: no rational closed form)"""
    if model == 'dep':
        return [1 - p, p / 3, p / 3, p / 3]
    if model == 'bf':
        return [1 - p, p, 0, 0]
    if model == 'pf':
        return [1 - p, 0, 0, p]
    if model == 'bpf':
        return [1 - p, 0, p, 0]
    if model == 'bd':
        b, ax = Fraction(args[0]), args[1].upper()
        lr, hr = p / (2 * (b + 1)), b * p / (b + 1)
        v = [lr, lr, lr]
        v['XYZ'.index(ax)] = hr
        return [1 - p] + v
    if model == 'slice':
        r = slice_ratio_spec([Fraction(x) for x in args[0]], Fraction(args[1]))
        return [1 - p] + [x * p for x in r]
    if model == 'byx' and args[0] == 0:
        return [1 - p, p, 0, 0]
    return None


def byx_enclosure(bias, p):
    """rigorous enclosure of the documented biased-Y-X closed form at the exact rational inputs:
    (lo[4], hi[4], (r_x upper bound, r_y upper bound)).  r_x = (a - s)/2, r_y = (b - s)/(2 bias) with a = 1+h+p-hp,
    b = 1+h-p+hp, s = sqrt(a^2 - 4p) = sqrt(b^2 - 4h^2 p) bracketed by integer square roots to 2^-SQRT_BITS
    (both rates decrease in s).  Written from the docstring / the Lean model `biasedYXWith`, not from the code."""
    h, p = Fraction(bias), Fraction(p)
    if h == 0:
        e = [1 - p, p, Fraction(0), Fraction(0)]
        return e, e, (p, Fraction(0))
    a, b = 1 + h + p - h * p, 1 + h - p + h * p
    disc = a * a - 4 * p
    assert disc >= 0
    if disc == 0:
        s_lo = s_hi = Fraction(0)
    else:
        # RELATIVE bracket of s (bias ranges over the whole double range, 5e-324 ... 1.8e308): shift the radicand so
        # that its integer square root has at least SQRT_BITS bits
        n, dn = disc.numerator, disc.denominator
        k = max(0, SQRT_BITS + 1 - (n.bit_length() - dn.bit_length()) // 2)
        r = math.isqrt((n << (2 * k)) // dn)
        s_lo, s_hi = Fraction(r, 1 << k), Fraction(r + 1, 1 << k)
        if s_lo * s_lo == disc:
            s_hi = s_lo
    one, zero = Fraction(1), Fraction(0)
    # (a - s)/2 = 2p/(a + s) and (b - s)/(2h) = 2hp/(b + s) exactly (s^2 = a^2 - 4p = b^2 - 4h^2 p; a, b > 0): the
    # quotients keep the bracket relative where the differences would lose it (bias 1e-300: (b - s)/(2h))
    rx_lo, rx_hi = max(zero, 2 * p / (a + s_hi)), min(one, 2 * p / (a + s_lo))
    ry_lo, ry_hi = max(zero, 2 * h * p / (b + s_hi)), min(one, 2 * h * p / (b + s_lo))
    lo = [None, rx_lo * (1 - ry_hi), ry_lo * (1 - rx_hi), rx_lo * ry_lo]
    hi = [None, rx_hi * (1 - ry_lo), ry_hi * (1 - rx_lo), rx_hi * ry_hi]
    lo[0], hi[0] = 1 - p, 1 - p
    return lo, hi, (rx_hi, ry_hi)


def bounds(model, args, p):
    """(lo, hi, rates): the exact documented distribution lies in [lo, hi] entrywise (lo = hi for the rational
    models); rates = upper bounds of (r_x, r_y) for biased-Y-X, else None"""
    if model == 'byx':
        return byx_enclosure(args[0], p)
    e = spec(model, args, p)
    return e, e, None


def entry_tol(model, args, p, i, e, rates):
    """allowed |float - exact| of entry i whose exact value is e: relative, plus a floor only where the documented
    formula itself subtracts nearly equal numbers (module docstring)"""
    if i == 0:
        return REL * abs(e) + ABS_I
    t = REL * abs(e)
    if model == 'slice' and Fraction(args[1]) < 0:
        t += FLOOR * p * abs(Fraction(args[1]))
    if model == 'byx' and i in (1, 2) and Fraction(args[0]) != 0:
        t += 2 * FLOOR * rates[i - 1]
    return t


def entry_ok(model, args, p, i, f, lo, hi, rates):
    f = Fraction(f)
    return lo[i] - entry_tol(model, args, p, i, lo[i], rates) <= f <= hi[i] + entry_tol(model, args, p, i, hi[i],
                                                                                           rates)


def close(f, e, floor):
    return abs(Fraction(f) - e) <= REL * abs(e) + floor


# ------------------------------------------------------------------------------------------ property monitors

def lim_class(lim):
    """None (in domain) | 'negative' | 'nonfinite' for a numeric 3-sequence"""
    try:
        vals = [float(x) for x in lim]
    except (TypeError, ValueError):
        return None
    if any(x < 0 for x in vals):
        return 'negative'
    if any(not math.isfinite(x) for x in vals):
        return 'nonfinite'
    return None


def lim_sum_overflows(lim):
    """all components finite and non-negative but their float sum is +inf"""
    try:
        vals = [float(x) for x in lim]
    except (TypeError, ValueError, OverflowError):
        return False
    return all(math.isfinite(x) and x >= 0 for x in vals) and math.isinf(sum(vals))


def square_overflows(bias):
    """bias is a finite float whose square is not (bias > sqrt(max double) = 1.34e154)"""
    return isinstance(bias, (int, float)) and math.isfinite(bias) and math.isinf(float(bias) * float(bias))


def evaluate(model, args, p):
    """evaluate the property on the real code for one input. returns (status, value, fails) where fails is a list of
    (what, key-or-None)"""
    st, d = real_dist(model, args, p)
    fails = []
    byx_known = None
    if model == 'byx':
        byx_known = (byx_reference(args[0], p) == (st, d))
    # the whole failure of a limit whose component sum overflows (normalised to (0, 0, 0)) is one defect
    k_so = K_SO if model == 'slice' and lim_sum_overflows(args[0]) else None
    if st == 'exc':
        key = K_D3 if byx_known else k_so
        if model == 'byx' and d == 'OverflowError' and square_overflows(args[0]):
            key = K_OV
        fails.append(('probability_distribution raised {} for p in [0,1] and accepted parameters'.format(d), key))
        return st, d, fails
    if any(not math.isfinite(x) for x in d):
        fails.append(('non-finite entry', K_D3 if byx_known else k_so))
        return st, d, fails
    pf = Fraction(p)
    e = spec(model, args, pf)
    lo, hi, rates = bounds(model, args, pf)
    F = [Fraction(x) for x in d]
    for i, x in enumerate(d):
        if x < 0:
            key = k_so
            if byx_known:
                key = K_D3
            elif model != 'byx' and i == 0 and x >= -2.0 ** -50 and p >= 1 - 2.0 ** -50:
                key = K_PI
            elif model == 'slice' and i > 0 and Fraction(args[1]) < 0 and e is not None and \
                    F[i] >= -ABS_I * pf and e[i] <= ABS_I * pf:
                key = K_NL
            fails.append(('negative entry Pr({}) = {!r}'.format(NAMES[i], x), key))
    kk = K_D3 if byx_known else k_so
    if abs(sum(F) - 1) > TOL:
        fails.append(('entries sum to {!r}, not 1'.format(float(sum(F))), kk))
    if abs(F[0] - (1 - pf)) > TOL:
        fails.append(('Pr(I) = {!r} but 1-p = {!r}'.format(d[0], float(1 - pf)), kk))
    # documented shapes
    if model == 'dep':
        if not (d[1] == d[2] == d[3]):
            fails.append(('depolarizing rates are not equal thirds', None))
    elif model in ('bf', 'pf', 'bpf'):
        if any(Fraction(d[i]) != e[i] for i in (1, 2, 3)):
            fails.append(('pure single-Pauli model has the wrong support / rate', None))
    elif model == 'bd':
        i = 'XYZ'.index(args[1].upper()) + 1
        lows = [F[j] for j in (1, 2, 3) if j != i]
        if lows[0] != lows[1]:
            fails.append(('the two low rates differ', None))
        # (no ratio claim where the exact high or low rate is in the underflow range of doubles)
        if min(e[1:]) >= TINY and abs(F[i] - Fraction(args[0]) * sum(lows)) > REL * F[i]:
            fails.append(('high rate / sum of low rates = {!r}, not bias'.format(
                float(F[i] / sum(lows)) if sum(lows) else None), None))
    elif model == 'byx':
        h = Fraction(args[0])
        r1, r2, r3 = byx_residuals(pf, h, F)
        if not byx_res_ok(pf, h, F, r1, r2, r3):
            fails.append(('defining equations violated: (p_x+p_y+p_z-p)/p = {:.3e}, (p_y - bias p_x)/(bias p_x) = '
                          '{:.3e}, (p_z - r_x r_y)/p_z = {:.3e}'.format(
                              *[float(r / q) if q else float(r) for r, q in ((r1, pf), (r2, h * F[1]), (r3, F[3]))]),
                          kk))
        if h > 0 and 0 < pf < 1:
            # only bias exactly zero is the pure X model: Y and Z are in the support for every positive bias
            for i in (2, 3):
                if lo[i] >= TINY and d[i] <= 0:
                    fails.append(('Pr({}) = {!r} although bias = {!r} > 0 and 0 < p < 1 (documented Y:X = bias; '
                                  'exact value {:.6e})'.format(NAMES[i], d[i], args[0], float(lo[i])), None))
    for i in (1, 2, 3):
        if hi[i] != 0 and hi[i] < TINY:
            continue        # underflow range of doubles
        if not entry_ok(model, args, pf, i, d[i], lo, hi, rates):
            fails.append(('Pr({}) = {!r}, documented value {!r} (relative error {:.3e})'.format(
                NAMES[i], d[i], float(lo[i]), float(abs(F[i] - lo[i]) / lo[i]) if lo[i] else float('inf')),
                k_so))
    return st, d, fails


def byx_residuals(p, b, F):
    return (F[1] + F[2] + F[3] - p, F[2] - b * F[1], F[3] - (F[1] + F[3]) * (F[2] + F[3]))


def byx_res_ok(p, b, F, r1, r2, r3):
    """scale-aware acceptance of the residuals of the defining equations: each relative to the quantity it
    constrains; the bias equation gets the floor 2e-15 (r_y + bias r_x) of the two documented subtractions
    p_x = r_x (1 - r_y), p_y = r_y (1 - r_x), with r_x = p_x + p_z and r_y = p_y + p_z read off the candidate;
    the absolute sub-normal rounding noise SUBN of p_y and of p_x enters the bias equation as SUBN (1 + bias) (a p_x that
    underflows at bias ~1e307 is not a violation)"""
    rx, ry = F[1] + F[3], F[2] + F[3]
    return (abs(r1) <= RES_SUM * p and
            abs(r2) <= RES * b * abs(F[1]) + 2 * FLOOR * (abs(ry) + b * abs(rx)) + SUBN * (1 + b) and
            abs(r3) <= RES * abs(F[3]) + TINY)


# ------------------------------------------------------------------------------------------ wire helpers

def pv(v):
    """Python value -> wire (None if outside the modelled universe)"""
    if v is None:
        return 'N'
    if isinstance(v, bool):
        return 'b:%d' % v
    if isinstance(v, int):
        return 'i:%d' % v
    if isinstance(v, float):
        if math.isnan(v):
            return 'nan'
        if math.isinf(v):
            return '+inf' if v > 0 else '-inf'
        return 'f:' + rat(Fraction(v))
    if isinstance(v, str):
        return 's:' + v if v.isalnum() or v == '' else None
    if isinstance(v, (list, tuple)):
        items = [pv(x) for x in v]
        if any(x is None or x.startswith('[') for x in items):
            return None
        return '[' + ';'.join(items) + ']'
    return None


def dist_line(model, args, p):
    if model in SIMPLE:
        return 'c16 dist {} {}'.format(model, rat(p))
    if model == 'bd':
        return 'c16 dist bd {} {} {}'.format(rat(args[0]), args[1].upper(), rat(p))
    if model == 'slice':
        return 'c16 dist slice {} {} {} {} {}'.format(*[rat(x) for x in args[0]], rat(args[1]), rat(p))
    raise ValueError(model)


def parse_rats(toks):
    return [Fraction(t) for t in toks]


def dist_post(d, p, model, args):
    def post(reply):
        t = reply.split()
        if t[0] != 'ok':
            return reply
        e = parse_rats(t[1:5])
        pf = Fraction(p)
        rates = (e[1] + e[3], e[2] + e[3])
        bad = [NAMES[i] for i in range(4) if not (0 < e[i] < TINY) and
               abs(Fraction(d[i]) - e[i]) > entry_tol(model, args, pf, i, e[i], rates)]
        return 'ok' if not bad else 'differs in ' + ','.join(bad) + ' model=' + ' '.join(
            repr(float(x)) for x in e)
    return post


# ------------------------------------------------------------------------------------------ generators

P_GRID = [0.0, 1e-30, 1e-12, 1e-6, 0.01, 0.1, 0.25, 0.5, 0.75, 0.9, 0.999, 1 - 1e-6, 1 - 1e-12, 1 - 2.0 ** -53, 1.0]
BIAS_GRID = [10.0 ** k for k in range(-15, 16)] + [0.5, 1, 10, 100, 3e-10, 7e-14, 2.0 ** -40, 2.0 ** 40]
POS_GRID = [-1, -0.5, 0, 0.5, 1, 1e-12, -1e-12, 1 - 1e-12, -(1 - 1e-12), 1 - 2.0 ** -53, -(1 - 2.0 ** -53)]


def rand_p(rng):
    c = rng.random()
    if c < 0.45:
        return rng.random()
    if c < 0.7:
        return 10.0 ** rng.uniform(-30, 0)
    if c < 0.85:
        return 1 - 10.0 ** rng.uniform(-16, -1)
    if c < 0.95:
        return 1 - rng.randrange(0, 8) * 2.0 ** -53
    return rng.choice(P_GRID)


def rand_bias(rng):
    c = rng.random()
    if c < 0.55:
        return 10.0 ** rng.uniform(-15, 15)
    if c < 0.7:          # tiny and huge biases: where a tolerance-based "is it zero / infinite" shortcut would bite
        return 10.0 ** (rng.choice([-1, 1]) * rng.uniform(6, 15))
    if c < 0.85:
        return rng.choice(BIAS_GRID)
    return rng.choice([0.5, 1, 2, 3, 10, 100, 1000]) if c < 0.95 else rng.uniform(0, 2)


def rand_comp(rng):
    c = rng.random()
    if c < 0.35:
        return rng.choice([1, 2, 3, 0.5, 1.0, 0.25, 7, 1e-6, 1e6, 1e-12, 1e12, 1e-15, 1e15])
    if c < 0.7:
        return rng.random() or 0.5
    return 10.0 ** rng.uniform(-15, 15)


def rand_lim(rng):
    lim = [rand_comp(rng) for _ in range(3)]
    zeros = rng.choice([(0,), (1,), (2,), (0, 1), (0, 2), (1, 2)])
    for i in zeros:
        lim[i] = rng.choice([0, 0.0])
    if len(zeros) == 1 and rng.random() < 0.25:     # near the tie of the negative-limit branch
        a, b = [i for i in range(3) if i not in zeros]
        c = rng.random()
        if c < 0.3 or not isinstance(lim[a], float):
            lim[b] = lim[a]
        elif c < 0.6:
            lim[b] = math.nextafter(lim[a], rng.choice([0.0, math.inf]))
        else:            # relative offsets 1e-15 ... 1e-3: the negative limit has one component of that size
            lim[b] = lim[a] * (1 + rng.choice([-1, 1]) * 10.0 ** rng.uniform(-15, -3))
    return tuple(lim)


def rand_pos(rng):
    c = rng.random()
    if c < 0.4:
        return rng.choice([-1, -1.0, -0.5, 0, 0.0, 0.5, 1, 1.0, 1e-12, -1e-12, -0.999999, 0.999999])
    if c < 0.55:         # near the limits +-1
        return rng.choice([-1, 1]) * (1 - 10.0 ** rng.uniform(-16, -3))
    if c < 0.6:
        return rng.choice([-1, 1]) * (1 - rng.randrange(0, 4) * 2.0 ** -53)
    if c < 0.72:         # near the centre
        return rng.choice([-1, 1]) * 10.0 ** rng.uniform(-16, -3)
    return rng.uniform(-1, 1)


def _thresholds():
    """magnitudes at which an elementary operation on a double changes regime: ends of the sub-normal / normal range,
    and the points where x*x, x*x*x, 1/x, 1/(x*x), x + x, 2*(x + 1) over- or underflow (with a neighbour on each side)"""
    base = [DMIN, 2 * DMIN, 1e-320, 1e-310, FMIN, FMIN / 2, 1 / FMAX, 4 / FMAX, FMAX, FMAX / 2, FMAX / 3, FMAX / 4,
            math.sqrt(FMAX), 1 / math.sqrt(FMAX), math.sqrt(FMIN), math.sqrt(DMIN), 1 / math.sqrt(FMIN),
            1 / math.sqrt(DMIN), FMAX ** (1 / 3), DMIN ** (1 / 3), FMIN ** (1 / 3), FMAX ** 0.25, DMIN ** 0.25,
            2.0 ** -1022, 2.0 ** -537, 2.0 ** -511, 2.0 ** 511, 2.0 ** 512, 2.0 ** 1023]
    out = set(base)
    for x in base:
        for y in (math.nextafter(x, 0.0), math.nextafter(x, math.inf), x * 0.99, x * 1.01):
            if 0 < y < math.inf:
                out.add(y)
    return sorted(out)


EDGE_MAGS = _thresholds()
DECADES = [10.0 ** k for k in (-323, -320, -315, -310, -308, -305, -300, -280, -250, -200, -170, -165, -160, -155,
                               -154, -150, -120, -108, -100, -80, -50, -30, -20, 20, 30, 50, 80, 100, 102, 120, 150,
                               153, 154, 155, 160, 200, 250, 280, 300, 305, 307, 308)]
X_SHAPES = [(1, 0, 0), (0, 1, 0), (0, 0, 1), (4, 1, 0), (0, 1, 3), (2, 0, 3), (1, 1, 0), (0, 0.25, 0.75), (1, 0, 1.5)]
P_SHORT = [0.0, 1e-30, 0.1, 0.25, 0.5, 0.9, 1 - 2.0 ** -53, 1.0]


def rand_mag(rng):
    """a positive double anywhere in the representable range (log-uniform over all 632 decades, sub-normals included,
    or at / next to a regime threshold)"""
    c = rng.random()
    if c < 0.5:
        return max(DMIN, min(FMAX, 10.0 ** rng.uniform(-323.4, 308.25)))
    if c < 0.75:
        return rng.choice(EDGE_MAGS)
    if c < 0.9:
        return rng.choice(DECADES)
    return max(DMIN, min(FMAX, rng.choice(EDGE_MAGS) * rng.choice([0.5, 2, 3, 0.1, 10, rng.uniform(0.5, 2)])))


def rand_xlim(rng, zeros=None):
    """a limit with one or two zeros whose non-zero components range over the whole double range: independent
    magnitudes (dynamic range up to 1e632), one common extreme scale times ordinary numbers (both components matter),
    or a near-tie at an extreme scale"""
    if zeros is None:
        zeros = rng.choice([(0,), (1,), (2,), (0, 1), (0, 2), (1, 2)])
    c = rng.random()
    if c < 0.35:
        lim = [rand_mag(rng) for _ in range(3)]
    else:
        m = rand_mag(rng)
        if c < 0.8:
            lim = [m * rng.choice([1, 2, 3, 0.5, 0.25, 7, rng.uniform(0.1, 10)]) for _ in range(3)]
        else:
            lim = [m, m, math.nextafter(m, rng.choice([0.0, math.inf]))]
            rng.shuffle(lim)
    if rng.random() < 0.3:          # one ordinary component next to extreme ones, e.g. (1e-200, 1e-200, 1)
        lim[rng.randrange(3)] = float(rand_comp(rng))
    lim = [max(DMIN, min(FMAX, x)) for x in lim]
    for i in zeros:
        lim[i] = rng.choice([0, 0.0])
    return tuple(lim)


def rand_xpos(rng):
    c = rng.random()
    if c < 0.6:
        return rand_pos(rng)
    if c < 0.8:
        return rng.choice([-1, 1]) * min(1.0, rand_mag(rng))
    return rng.choice([-1, -1.0, -0.5, 0, 0.5, 1, 1.0, DMIN, -DMIN, FMIN, -FMIN, 1e-300, -1e-300])


SCALARS = [-1, 0, 1, 2, 3, True, False, -1.0, -0.0, 0.0, 1e-12, 0.5, 1.0, 3.0, 1e12, -1e-12,
           float('nan'), float('inf'), float('-inf'), '', 'X', 'y', 'Z', 'x', 'Y', 'z', 'a', 'XY', '1', None]
LIM_COMPS = [0, 0.0, -0.0, 1, 0.5, 2.5, 3, -1, -0.5, float('nan'), float('inf'), float('-inf'), True, False, 1e-12]
POS_VALS = [-1, -1.0, -0.5, 0, 0.0, 0.5, 1, 1.0, 1.0000001, -1.0000001, 2, -2, float('nan'), float('inf'),
            float('-inf'), None, 'a', True, False, [1], (0.5,)]


def _num(x):
    return isinstance(x, (int, float)) and not isinstance(x, bool)


def in_domain(model, args):
    """the documented constructor domain (written from the docstrings, exact comparisons on the values themselves:
    no products, no sums, no tolerances - the magnitude of a parameter never matters).  bool is accepted where the
    unchanged tree's duck-typed comparison accepts it (bias True)"""
    if model == 'bd':
        b, ax = args
        return (_num(b) or b is True) and math.isfinite(b) and b > 0 and \
            isinstance(ax, str) and ax in ('X', 'Y', 'Z', 'x', 'y', 'z')
    if model == 'byx':
        b, = args
        return isinstance(b, (int, float)) and math.isfinite(b) and b >= 0
    if model == 'slice':
        lim, pos = args
        return (isinstance(lim, (tuple, list)) and len(lim) == 3 and lim_class(lim) is None
                and all(isinstance(x, (int, float)) for x in lim)
                and sum(1 for x in lim if x != 0) in (1, 2)
                and isinstance(pos, (int, float)) and -1 <= pos <= 1)
    raise ValueError(model)


def ctor_result(model, args):
    """canonical outcome of the real constructor"""
    with warnings.catch_warnings():
        warnings.simplefilter('ignore')
        try:
            em = build(model, args)
        except ValueError:
            return 'ValueError', None
        except TypeError:
            return 'TypeError', None
        except Exception as ex:  # noqa: BLE001
            return type(ex).__name__, None
    return 'ok', em


# ------------------------------------------------------------------------------------------ run

def report(ctx, model, args, p, st, d, fails):
    for what, key in fails:
        ctx.monitor_fail('{}: {}'.format(label(model, args), what),
                         {'model': model, 'args': jsonable(args), 'p': p, 'real': d}, key=key)
        ctx.count('monitor', key or 'FRESH:' + what[:40])


def label(model, args):
    return '{}{}'.format({'dep': 'DepolarizingErrorModel', 'bf': 'BitFlipErrorModel', 'pf': 'PhaseFlipErrorModel',
                          'bpf': 'BitPhaseFlipErrorModel', 'bd': 'BiasedDepolarizingErrorModel',
                          'byx': 'BiasedYXErrorModel', 'slice': 'CenterSliceErrorModel'}[model],
                         tuple(args) if args else '()')


def jsonable(args):
    return [list(a) if isinstance(a, tuple) else a for a in args]


def one_case(ctx, model, args, p):
    """monitors + tie for one in-domain input"""
    st, d, fails = evaluate(model, args, p)
    report(ctx, model, args, p, st, d, fails)
    meta = {'model': model, 'args': jsonable(args), 'p': p}
    nt = p > 0 and model not in SIMPLE
    ctx.count('model', model)
    ctx.count('p', 'p=0' if p == 0 else 'p=1' if p == 1 else '1-p<1e-9' if 1 - p < 1e-9 else
              'p<1e-9' if p < 1e-9 else 'interior')
    if st != 'ok' or any(not math.isfinite(x) for x in d):
        return st, d
    if any(k in (K_SO, K_OV) for _, k in fails) or (model == 'slice' and lim_sum_overflows(args[0])):
        ctx.count('tie.skipped', 'reported under ' + (K_SO if model == 'slice' else K_OV))
        return st, d            # the whole output is the reported defect: nothing to compare
    if model == 'byx':
        b = args[0]
        ctx.count('byx.bias.decade', 'zero' if b == 0 else int(math.floor(math.log10(b))))
        if d[1] > 0 and b > 0 and abs(Fraction(d[2]) - Fraction(b) * Fraction(d[1])) > RES * Fraction(b) * Fraction(
                d[1]):
            ctx.count('byx.ratio-rel>1e-9', 'saturated corner (1-p < 1e-6)' if 1 - p < 1e-6 else 'ELSEWHERE')
        known = any(k == K_D3 for _, k in fails)
        line = 'c16 yxres {} {} {} {} {}'.format(rat(p), rat(b), rat(d[1]), rat(d[2]), rat(d[3]))

        def post(reply, b=b, known=known, p=p, d=d):
            t = reply.split()
            if t[0] != 'ok':
                return reply
            r1, r2, r3, disc = parse_rats(t[1:5])
            if disc < 0:
                return 'model discriminant negative'
            if byx_res_ok(Fraction(p), Fraction(b), [Fraction(x) for x in d], r1, r2, r3) or known:
                return 'ok'            # (known: already reported under the known-defect key by the monitor)
            return 'residuals {:.3e} {:.3e} {:.3e}'.format(float(r1), float(r2), float(r3))
        ctx.case(line, 'ok', nontrivial=nt, meta=meta, post=post)
    else:
        if model == 'bd':
            ctx.count('bd.bias.decade', int(math.floor(math.log10(args[0]))))
            ctx.count('bd.axis', args[1])
        if model == 'slice':
            ctx.count('slice.zeros', sum(1 for x in args[0] if x == 0))
            ctx.count('slice.pos', 'neg' if args[1] < 0 else 'zero' if args[1] == 0 else 'one' if args[1] == 1
                      else 'pos')
        ctx.case(dist_line(model, args, p), 'ok', nontrivial=nt, meta=meta, post=dist_post(d, p, model, args))
    return st, d


def special_ok(da, db, exact=False):
    if any(not math.isfinite(x) for x in da + db):
        return False
    return (da == db) if exact else all(close(x, Fraction(y), ABS_I) for x, y in zip(da, db))


def special_cases(ctx, p, rng, scale=None):
    """documented reductions, real code against real code"""
    def cmp(what, a, b, exact=False):
        (sa, da), (sb, db) = real_dist(*a, p), real_dist(*b, p)
        ctx.count('special', what)
        k_so = K_SO if a[0] == 'slice' and lim_sum_overflows(a[1][0]) else None
        if sa != 'ok' or sb != 'ok':
            ctx.monitor_fail('special case: {} — {} raised {}'.format(what, label(*(a if sa != 'ok' else b)),
                                                                    da if sa != 'ok' else db),
                             {'model': a[0], 'args': jsonable(a[1]), 'p': p}, key=k_so)
            return
        ok = special_ok(da, db, exact)
        if not ok and k_so:
            ctx.monitor_fail('special case: {} — {} gives {!r}'.format(what, label(*a), da),
                             {'model': a[0], 'args': jsonable(a[1]), 'p': p}, key=k_so)
        elif not ok:
            ctx.monitor_fail('special case: {} — {} gives {!r} but {} gives {!r}'.format(
                what, label(*a), da, label(*b), db), {'special': what, 'a': [a[0], jsonable(a[1])],
                                                      'b': [b[0], jsonable(b[1])], 'p': p}, key=None)
    for ax in 'XYZ':
        cmp('bias 1/2 is depolarizing', ('bd', (0.5, ax)), ('dep', ()))
    cmp('pos 0 is depolarizing', ('slice', (rand_lim(rng) if scale is None else rand_xlim(rng), 0)), ('dep', ()))
    cmp('bias 0 is bit-flip', ('byx', (0,)), ('bf', ()), exact=True)
    cmp('bias 0.0 is bit-flip', ('byx', (0.0,)), ('bf', ()), exact=True)
    k = rng.choice([1, 2.0, 0.3, 1e-9, 1e9]) if scale is None else scale
    cmp('unit X limit at pos 1 is bit-flip', ('slice', ((k, 0, 0), 1)), ('bf', ()))
    cmp('unit Y limit at pos 1 is bit-phase-flip', ('slice', ((0, k, 0), 1)), ('bpf', ()))
    cmp('unit Z limit at pos 1 is phase-flip', ('slice', ((0, 0, k), 1.0)), ('pf', ()))


def info_check(lim, pos):
    """(vals, what): the nine floats lim + ratio + neg_lim of the real model (None if unavailable) and the violated
    claim (None if they are points of the triangle)"""
    st, em = ctor_result('slice', (lim, pos))
    if st != 'ok':
        return None, 'CenterSliceErrorModel rejects an in-domain (lim, pos) with ' + st
    with warnings.catch_warnings():
        warnings.simplefilter('ignore')
        try:
            vals = [float(x) for x in em.lim] + [float(x) for x in em.ratio] + [float(x) for x in em.neg_lim]
        except Exception as ex:  # noqa: BLE001
            return None, 'CenterSliceErrorModel{}.lim/ratio/neg_lim raised {}'.format((lim, pos), type(ex).__name__)
    if any(not math.isfinite(x) for x in vals) or \
            any(x < -1e-15 for x in vals) or any(abs(sum(vals[i:i + 3]) - 1) > 1e-12 for i in (0, 3, 6)) or \
            min(abs(x) for x in vals[6:9]) > 1e-15 or min(abs(x) for x in vals[0:3]) != 0:
        return vals, ('CenterSliceErrorModel{}: lim / ratio / neg_lim are not points of the triangle (finite, sum 1, '
                      'entries >= 0, limits on the boundary): {!r}'.format((lim, pos), vals))
    return vals, None


def slice_info_case(ctx, lim, pos):
    k_so = K_SO if lim_sum_overflows(lim) else None
    vals, what = info_check(lim, pos)
    if what:
        ctx.monitor_fail(what, {'info': [list(lim), pos]}, key=k_so)
        ctx.count('monitor', k_so or 'FRESH:slice.info')
    if vals is None or k_so or any(not math.isfinite(x) for x in vals):
        return
    line = 'c16 slice.info {} {} {} {}'.format(*[rat(x) for x in lim], rat(pos))

    def post(reply, vals=vals):
        t = reply.split()
        if t[0] != 'ok' or 'E' in (t[2][6:], t[3][7:]):
            return reply
        e = parse_rats(t[1][4:].split(',') + t[2][6:].split(',') + t[3][7:].split(','))
        bad = [i for i in range(9) if not close(vals[i], e[i], ABS_I)]
        return 'ok' if not bad else 'differs at {} model={}'.format(bad, [float(x) for x in e])
    ctx.case(line, 'ok', nontrivial=True, meta={'info': [list(lim), pos]}, post=post)


def dyadic_rate_pairs():
    """(bias, p) both dyadic with a rational-square discriminant: from dyadic rates r_x, r_y"""
    out = []
    for k in (1, 2, 3, 4, 5):
        for a in range(1, 2 ** k):
            for kk in (1, 2, 3, 4, 5):
                for c in range(1, 2 ** kk):
                    rx, ry = Fraction(a, 2 ** k), Fraction(c, 2 ** kk)
                    h = ry * (1 - rx) / (rx * (1 - ry))
                    p = rx + ry - rx * ry
                    if h.denominator & (h.denominator - 1) == 0 and float(h) == h and float(p) == p:
                        out.append((float(h), float(p)))
    return sorted(set(out))


def ctor_cases(ctx):
    rng = ctx.rng
    # biased depolarizing / biased Y-X: full product over the scalar universe (+ a sequence)
    axes = ['X', 'Y', 'Z', 'x', 'y', 'z', '', 'a', 'XY', None, 1, ['X'], 0.5]
    def bd_case(b, ax):
        st, em = ctor_result('bd', (b, ax))
        impl = st if st != 'ok' else 'ok {} {}'.format(rat(Fraction(em.bias)), em.axis)
        ctx.case('c16 ctor bd {} {}'.format(pv(b), pv(ax)), impl, nontrivial=st != 'ok',
                 meta={'ctor': 'bd', 'args': [b, ax]})
        ctx.count('ctor.bd', st)
        ctor_monitor(ctx, 'bd', (b, ax), st, in_domain('bd', (b, ax)))

    def byx_case(b):
        st, em = ctor_result('byx', (b,))
        impl = st if st != 'ok' else 'ok {}'.format(rat(Fraction(em.bias)))
        ctx.case('c16 ctor byx {}'.format(pv(b)), impl, nontrivial=st != 'ok', meta={'ctor': 'byx', 'args': [b]})
        ctx.count('ctor.byx', st)
        ctor_monitor(ctx, 'byx', (b,), st, in_domain('byx', (b,)))

    for b in SCALARS + [[1.0], (2,)]:
        for ax in axes:
            bd_case(b, ax)
        byx_case(b)
    # the ends of the double range and the thresholds of x*x / 1/x, both signs: every positive (non-negative) finite
    # bias is in the domain
    xb = [DMIN, FMIN, 1e-310, 1e-300, 1e-160, 1e160, 1e300, FMAX, math.sqrt(FMAX), 1 / math.sqrt(FMAX)]
    for b in xb + [-x for x in xb] + rng.sample(EDGE_MAGS, 8):
        for ax in ('X', 'z', 'a'):
            bd_case(b, ax)
        byx_case(b)
    # centre slice
    fixed = [None, 1, 0.5, True, [], (1,), (1, 0), (1, 0, 0, 0), (0, 0, 0), (0.0, -0.0, 0), (1, 1, 1), (0.5, 2.5, 3),
             (1, 0, 0), [0, 2, 0], (0, 0.5, 0.5), (-1, 0.5, 0), (float('nan'), 0, 0), (float('inf'), 1, 0)]
    pairs = [(lim, pos) for lim in fixed for pos in POS_VALS]
    for _ in range(ctx.scale(1500, 10000)):
        lim = tuple(rng.choice(LIM_COMPS) for _ in range(3))
        pairs += [(lim, rng.choice(POS_VALS)) for _ in range(3)]
    # magnitudes: the domain is decided by the values themselves (sign, zero / non-zero, finiteness, order against
    # +-1) - an interior point (three positive components) is outside the domain even when the product or the sum of
    # its components underflows; a boundary point is inside however small / large / unbalanced its components are
    xpos = [DMIN, -DMIN, FMIN, -FMIN, 1e-300, -1e-300, math.nextafter(1, 2), -math.nextafter(1, 2), 1e300, -1e300,
            FMAX, -FMAX, 1, -1, 1.0, -1.0, 0.5, 0]
    for _ in range(ctx.scale(500, 5000)):
        c = rng.random()
        if c < 0.5:
            lim = rand_xlim(rng, zeros=())
        elif c < 0.55:
            lim = tuple(rng.choice([0, 0.0, -0.0]) for _ in range(3))
        else:
            lim = rand_xlim(rng)
        ctx.count('ctor.slice.extreme', '{} zeros'.format(sum(1 for x in lim if x == 0)))
        pairs.append((lim, rng.choice(xpos) if rng.random() < 0.5 else rand_xpos(rng)))
    for m in DECADES + EDGE_MAGS[::7]:      # the same interior shapes at every scale
        for shape in ((1, 1, 1), (1, 1, 0), (1, 0, 0)):
            pairs.append((tuple(float(m * x) for x in rng.sample(shape, 3)), rng.choice([1, 0.5, -1])))
        k = rng.choice([1.0, 3, 0.5])
        pairs.append((tuple(rng.sample([m, m, k], 3)), rng.choice([1, 0.5, -1])))
    for lim, pos in pairs:
        if True:
            st, em = ctor_result('slice', (lim, pos))
            cls = lim_class(lim) if isinstance(lim, (tuple, list)) and len(lim) == 3 else None
            if st == 'ok':
                nums = ','.join('nan' if math.isnan(x) else ('+inf' if x > 0 else '-inf') if math.isinf(x)
                                else rat(Fraction(x)) for x in (float(v) for v in lim))
                impl = 'ok {} {} dom={}'.format(nums, rat(Fraction(em.pos)), 0 if cls else 1)
            else:
                impl = st
            ctx.count('ctor.slice', st + ('' if not cls else ':' + cls))

            def post(reply, impl=impl, cls=cls):
                # out-of-domain limit (negative / non-finite component): the model mirrors the unchanged tree
                # (accepts it, then checks pos); a tree that rejects such a limit with ValueError is right as well
                return impl if (impl == 'ValueError' and cls) else reply
            ctx.case('c16 ctor slice {} {}'.format(pv(lim), pv(pos)), impl, nontrivial=st != 'ok',
                     meta={'ctor': 'slice', 'args': [lim, pos]}, post=post)
            if st == 'ok' and cls:
                sd, d = real_dist('slice', (lim, pos), 0.3)
                ctx.monitor_fail(
                    'CenterSliceErrorModel({!r}, {!r}) is accepted although the limit has a {} component (outside '
                    'the documented triangle); probability_distribution(0.3) = {!r}'.format(lim, pos, cls, d),
                    {'ctor': 'slice', 'args': [list(lim), pos], 'p': 0.3}, key=K_D4 if cls == 'negative' else K_NF)
                ctx.count('monitor', K_D4 if cls == 'negative' else K_NF)
            else:
                ctor_monitor(ctx, 'slice', (lim, pos), st, in_domain('slice', (lim, pos)))


def ctor_monitor(ctx, model, args, st, indom):
    """documented domain accepted, everything else rejected with ValueError / TypeError"""
    if indom and st != 'ok':
        ctx.monitor_fail('{} rejects documented-domain arguments with {}'.format(label(model, args), st),
                         {'ctor': model, 'args': jsonable(args)}, key=None)
    if not indom and st not in ('ValueError', 'TypeError'):
        ctx.monitor_fail('{} accepts arguments outside the documented domain ({})'.format(label(model, args), st),
                         {'ctor': model, 'args': jsonable(args)}, key=None)


def run(ctx):
    rng = ctx.rng
    ctor_cases(ctx)
    # grid: every model on the p grid; biases and axes
    for p in P_GRID:
        for m in SIMPLE:
            one_case(ctx, m, (), p)
        for b in BIAS_GRID:
            for ax in 'XYZ':
                one_case(ctx, 'bd', (b, ax), p)
            one_case(ctx, 'byx', (b,), p)
        one_case(ctx, 'byx', (0,), p)
        for lim in [(1, 0, 0), (0, 1, 0), (0, 0, 1), (1, 1, 0), (0, 1, 1), (1, 0, 1), (0.9, 0.1, 0), (0, 2, 6),
                    (1e-12, 0, 1e12), (3, 0, 3.0000000000000004), (1e-15, 1e15, 0), (0, 1.0, 1.000000001)]:
            for pos in POS_GRID:
                one_case(ctx, 'slice', (lim, pos), p)
        special_cases(ctx, p, rng)
    for lim in [(1, 0, 0), (0, 5, 0), (0, 0, 0.1), (1, 1, 0), (0.9, 0.1, 0), (0.1, 0.9, 0), (0, 2, 6), (7, 0, 1)]:
        for pos in (-1, -0.25, 0, 0.75, 1):
            slice_info_case(ctx, lim, pos)
    # exact biased-Y-X closed form where the discriminant is a rational square
    for h, p in dyadic_rate_pairs():
        st, d = real_dist('byx', (h,), p)
        ctx.count('byx.exact', st)
        if st == 'ok':
            ctx.case('c16 yxexact {} {}'.format(rat(h), rat(p)), 'ok', nontrivial=True,
                     meta={'model': 'byx', 'args': [h], 'p': p}, post=dist_post(d, p, 'byx', (h,)))
    # parameter magnitudes over the whole positive double range (sub-normals ... 1.8e308): grid of regime thresholds
    # and decades, then random
    xgrid = EDGE_MAGS[::3] + DECADES
    for n, m in enumerate(xgrid):
        for j, p in enumerate(P_SHORT):
            one_case(ctx, 'bd', (m, 'XYZ'[(n + j) % 3]), p)
            one_case(ctx, 'byx', (m,), p)
        for j, shape in enumerate(X_SHAPES):
            lim = tuple(float(m * x) for x in shape)
            if any(math.isinf(x) for x in lim) or not any(lim):
                continue
            for i, pos in enumerate((1, 0.5, 0, -0.5, -1)):
                one_case(ctx, 'slice', (lim, pos), P_SHORT[2 + (n + j + i) % 6])
            if j % 3 == n % 3:
                slice_info_case(ctx, lim, (1, -1, 0.5, -0.5, 0)[(n + j) % 5])
    for _ in range(ctx.scale(2500, 40000)):
        p = rand_p(rng) if rng.random() < 0.7 else rng.choice(P_SHORT)
        b = rand_mag(rng)
        one_case(ctx, 'bd', (b, rng.choice('XYZxyz')), p)
        one_case(ctx, 'byx', (b if rng.random() < 0.7 else rand_mag(rng),), p)
        lim, pos = rand_xlim(rng), rand_xpos(rng)
        one_case(ctx, 'slice', (lim, pos), p)
        if rng.random() < 0.2:
            slice_info_case(ctx, lim, pos)
        if rng.random() < 0.1:      # pos 0 / unit limits at any scale
            special_cases(ctx, p, rng, scale=rand_mag(rng))
    # random
    for _ in range(ctx.scale(8000, 150000)):
        p = rand_p(rng)
        one_case(ctx, rng.choice(SIMPLE), (), p)
        one_case(ctx, 'bd', (rand_bias(rng), rng.choice('XYZxyz')), p)
        one_case(ctx, 'byx', (rand_bias(rng),), p)
        lim, pos = rand_lim(rng), rand_pos(rng)
        one_case(ctx, 'slice', (lim, pos), p)
        if rng.random() < 0.2:
            slice_info_case(ctx, lim, pos)
        if rng.random() < 0.05:
            special_cases(ctx, p, rng)
    ctx.explored = {'float evaluation of the closed forms': {
        'evaluations': ctx.evaluations, 'exhaustive': False,
        'rule': 'real floats within 1e-14 relative (floors 1e-15 p |pos| for pos < 0, 2e-15 r for biased-Y-X p_x, p_y) '
                'of the exact Lean model at the exact rational value of the float inputs; biased-Y-X floats '
                'substituted into the defining equations by the Lean checker (relative residuals, module docstring) '
                'and compared with a rigorous rational enclosure of the documented closed form'}}
    ctx.assumptions = ['IEEE-754 double arithmetic and math.sqrt of CPython / numpy as installed (not modelled)',
                       'fractions.Fraction (exact value of a float) in the harness',
                       'p = 0 or p >= 1e-30; parameters over the whole positive double range; entries whose exact '
                       'value is below 1e-290 underflow and are not compared; Python ints beyond the double range '
                       'are not explored']
    return ctx.finish(RULE, search=search, explanation=__doc__)


# ------------------------------------------------------------------------------------------ search / replay

def eval_recipe(r):
    """evaluate the property on the real code for a recorded recipe; dict describing the failure, or None"""
    if 'ctor' in r:
        model, args = r['ctor'], r['args']
        st, em = ctor_result(model, args)
        if model == 'slice' and st == 'ok' and isinstance(args[0], (list, tuple)) and len(args[0]) == 3 and \
                lim_class(args[0]):
            _, d = real_dist('slice', args, r.get('p', 0.3))
            return {'what': 'CenterSliceErrorModel accepts a limit with a {} component'.format(lim_class(args[0])),
                    'args': args, 'p': r.get('p', 0.3), 'distribution': d}
        targs = tuple(tuple(a) if isinstance(a, list) and model == 'slice' else a for a in args)
        try:
            indom = in_domain(model, targs)
        except Exception:  # noqa: BLE001 - values outside the universe of the domain predicate
            return None
        if indom and st != 'ok':
            return {'what': '{} rejects documented-domain arguments with {}'.format(label(model, targs), st),
                    'ctor': model, 'args': args}
        if not indom and st not in ('ValueError', 'TypeError'):
            out = {'what': '{} accepts arguments outside the documented domain ({})'.format(label(model, targs), st),
                   'ctor': model, 'args': args}
            if st == 'ok':
                out['probability_distribution(0.3)'] = real_dist(model, targs, 0.3)[1]
            return out
        return None
    if 'special' in r:
        (sa, da), (sb, db) = real_dist(r['a'][0], r['a'][1], r['p']), real_dist(r['b'][0], r['b'][1], r['p'])
        if sa == sb == 'ok' and not special_ok(tuple(da), tuple(db)):
            return {'what': 'special case fails: ' + r['special'], 'a': da, 'b': db, 'p': r['p']}
        return None
    if 'info' in r:
        vals, what = info_check(tuple(r['info'][0]), r['info'][1])
        return {'what': what, 'lim': r['info'][0], 'pos': r['info'][1], 'values': vals} if what else None
    st, d, fails = evaluate(r['model'], r['args'], r['p'])
    if fails:
        return {'what': '{}.probability_distribution({!r}): {}'.format(label(r['model'], r['args']), r['p'],
                                                                       '; '.join(w for w, _ in fails)),
                'model': r['model'], 'args': r['args'], 'p': r['p'], 'real': d, 'keys': [k for _, k in fails]}
    return None


def search(m):
    """the property evaluated on the real code for the disagreeing case and near variants (same parameters on the
    p grid)"""
    meta = m.get('meta') or {}
    r = eval_recipe(meta)
    if r:
        return r
    if 'model' in meta:
        for p in P_GRID + [0.3, 0.123456789]:
            r = eval_recipe({'model': meta['model'], 'args': meta['args'], 'p': p})
            if r and not all(r.get('keys', [None])):
                return r
    if 'ctor' in meta:
        model, args = meta['ctor'], meta['args']
        st, em = ctor_result(model, args)
        if st == 'ok':
            # accepted by the real code but not by the model: is the accepted value in the documented domain?
            for p in (0.3, 1.0, 0.0):
                try:
                    r = eval_recipe({'model': model, 'args': args, 'p': p})
                except Exception as ex:  # noqa: BLE001
                    r = {'what': 'accepted constructor arguments outside the documented domain; evaluating the '
                                 'distribution raised ' + type(ex).__name__, 'ctor': model, 'args': args}
                if r:
                    return r
            return {'what': 'constructor accepts arguments the documented domain excludes (model: {})'.format(
                m['model']), 'ctor': model, 'args': args}
        if m['model'].startswith('ok') and 'dom=0' not in m['model']:
            return {'what': 'constructor rejects ({}) arguments of the documented domain'.format(st),
                    'ctor': model, 'args': args}
    return None


def replay(ctx, path):
    body = json.load(open(path))
    bad = 0
    for v in body.get('violations', []):
        ce = v.get('counterexample') or {}
        recs = []
        if isinstance(ce.get('input'), dict):
            recs.append(ce['input'])
        if 'model' in ce and 'p' in ce:
            recs.append({'model': ce['model'], 'args': ce['args'], 'p': ce['p']})
        if 'ctor' in ce:
            recs.append({'ctor': ce['ctor'], 'args': ce['args']})
        mm = v.get('first_mismatch')
        if mm and mm.get('meta'):
            recs.append(mm['meta'])
        for r in recs:
            res = eval_recipe(r)
            print('replay', json.dumps(r, default=str)[:200], '->', res)
            bad += bool(res)
    return 1 if bad else 0      # core.do_replay prints the VIOLATION line
