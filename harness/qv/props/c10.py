"""C10 — untruncated tensor-network decoders are maximum-likelihood decoders.

What is a THEOREM (Props/C10.lean, about Model/Coset.lean — the SPEC side only, over any commutative semiring /
linearly ordered field): the fold `spanEnum` enumerates exactly the XOR-combinations of the generators, each once when
they are independent; the errors with a given syndrome are the disjoint union of the 4^k logical cosets, so the coset
probabilities sum to Pr(syndrome); another sample with the same syndrome only permutes the cosets; returning a
representative of an arg-max coset maximises the success probability among all functions of the syndrome;
0 <= cosetProb <= 1; for pure-Y noise the Y-only coset sum equals the full coset sum.

What is EXPLORED, not proved (ctx.explored): that the real decoders' floating-point / mpmath tensor-network
contractions (`_coset_probabilities` of PlanarMPSDecoder, PlanarRMPSDecoder, RotatedPlanarMPSDecoder,
RotatedPlanarRMPSDecoder, Color666MPSDecoder; `_coset_probability` of PlanarYDecoder) return, for the coset of each of
their four (two) recoveries, the exact rational value of the Lean `cosetProb` (`yCosetProb`) within relative 1e-11, in
every mode c / r / a, with stp unset / 0.5 / 1.0, chi = tol = None, and that `decode` returns a recovery with the input
syndrome whose logical class is the exact arg-max wherever the exact relative gap exceeds 1e-9 — for weak AND strong
noise (p up to 0.95, distributions whose likeliest Pauli is not I: there the likeliest coset of the ZERO syndrome is a
logical coset on most codes), with the zero and the single-defect syndromes always among the inputs of every decoder
and mode (`special_cases`).  "Exactly the total
probability" holds in exact arithmetic only; the code works in floats — this check bounds the discrepancy on the
explored inputs, it does not prove it.  Standard vs rotated networks and by-column vs by-row are compared with the same
exact value, hence with each other.  The Lean value itself is cross-checked, for codes of at most 8 qubits, with an
independent Python enumeration of all 4^n errors grouped by (syndrome, logical class) — exact integer equality.

The planar MPS decoder's NETWORK is inside the model (Model/PlanarTn.lean, `planarTn`, mirroring `TNC.create_tn`): section
"planar network" below compares, for planar codes up to 4x4 / 2x6 / 3x5, random and decoder-made samples (and their
three logical variants, i.e. the four networks `_coset_probabilities` builds) and random distributions, EVERY TENSOR of
the real `create_tn` entry by entry with the model network (exactly: an h/v-node entry is one of the four given floats,
so entry * D is the integer numerator; deltas are integers), and the model network's exact contraction value (C11's
`contract`, proved equal to the index sum `exactValue`) with the exact spec `cosetProb` computed by the driver — on the
REAL code's stabilizer matrix (`cosets` op) and on the model's `Planar.stabilizers` (`tncoset` op, the statement of
theorem `planar_tn_value`).  Theorems (Props/C10/Network.lean): `factor_graph_identity` (generic) and the planar
instance; see that file for what is proved and what is only stated.  The PROCEDURE `_coset_probabilities` runs on these
networks (bras shared between pairs of cosets: planar MPS and rotated planar RMPS; four plain contractions: rotated planar
MPS) is tied and proved separately: `qv/c10_shared.py` records the real `mps2d.contract` / `mps2d.transpose` /
`mps.inner_product` calls (network object, start / stop / step, ket column) in modes c, r, a on square, tall and wide
lattices and compares them and the four values with the model's `cosetValuesC / R / A` (driver op `tnvalues`; theorems
`planar_tn_coset_values_c/_r/_a` etc. in Props/C10/PlanarShared.lean, RotatedPlanarShared.lean, RotatedPlanarRmpsShared.lean).

Two further input classes live in helper modules run from `run` (protocol: cases(ctx), FAMILY, evaluate_input(meta)):
`qv/c10_ybig.py` — the planar Y decoder on lattices up to 15x15 in every gcd regime, p from 1e-6 to 0.95 (coset
probabilities down to below 1e-1000, every comparison RELATIVE), errors up to weight n/3 and errors confined to one
boundary line (they reach every class of the residual look-up table), one decoder object for all of them, against an
exact reference computed by Gaussian elimination over GF(2) (independent of the decoder) and, where cheap, against
`planary decode / ystabs / ylogical` of Model/PlanarY.lean; `qv/c10_hist.py` — decoder-OBJECT histories: one instance
of every TN decoder and mode reused over pairs of lattices with equal qubit count and transposed shapes, two
distributions and the zero + low-weight syndromes, every answer compared with the exact `cosetProb` and with a fresh
instance; `qv/c10_calls.py` — CALL SHAPES of `decode` (neither / only error_model / only error_probability / both,
keyword vs positional, with the context keywords app adds) for every decoder whose decode takes the optional prior
arguments: the prior is (supplied value or DOCUMENTED default) per argument, the recorded `prob_dist` must equal its
distribution bit for bit and the answer is judged against the exact `cosetProb` for it.
"""
import importlib
import json
import math
from fractions import Fraction

import numpy as np

from qv import core
from qv.core import bits, mat

LEVEL = 'proof'

RULE = ('codes: planar RxC, rotated planar RxC, colour 6.6.6 with stabilizer group <= 2^14 (quick) / 2^18 (thorough); '
        'the harness sends the REAL code.stabilizers / code.logicals and the decoder\'s own sample recovery; syndromes: '
        'all of them where the tier budget allows (flagged per code in input_distribution.exhaustive_codes), else '
        'uniformly sampled; distributions: depolarizing, Z/X/Y-biased (eta 3..300), bit-flip / phase-flip / pure-Y with '
        'exact zeros, random, one dominant non-identity Pauli (0.1, 0.7, 0.1, 0.1), any point of the simplex, p in '
        '0.01..0.95, entries on the 2^-16 grid (exactly representable floats) plus the raw floats of qecsim error '
        'models; on top of the sampled syndromes, ALWAYS, for every code and every decoder x mode of its family: the '
        'zero syndrome and every single-defect syndrome (codes with >= 13 (thorough: 15) generators: zero + 5 random '
        'ones (thorough: + 1 or 0)) under >= 1 strong-noise distribution (p >= 0.5, the first with a non-identity '
        'Pauli most likely: the exact arg-max coset of the zero syndrome is then a logical coset on most codes, '
        'histogram zero_syndrome_argmax) and one weak one; Y decoder: no-error and every single-Y-error syndrome '
        '(n > 14, quick n > 13: two), also at p >= 0.5; decoders x modes c/r/a x stp None/0.5/1.0, chi=tol=None; one case = one '
        '(code, syndrome, distribution) with the group of real decoder configurations run on it; a case passes iff '
        'every recorded coset probability is within rel 1e-11 of the exact Lean rational, the four recoveries carry '
        'the syndrome and lie in four distinct logical cosets, and decode returns the exact arg-max class when the '
        'exact relative gap > 1e-9; non-trivial = non-zero syndrome; planar network section: planar 2x2..4x4, 2x5, 2x6, '
        '3x5 (and transposes), samples = decoder sample_recovery of random syndromes or uniformly random Paulis, each '
        'with its X/Y/Z logical variants, distributions as above: every tensor of TNC.create_tn equals the model '
        'planarTn entry-wise (exact integers over D), and the model network exact contraction equals the exact '
        'cosetProb (driver, real and model stabilizers) or, above 2^17 group elements, the real float contraction '
        'within rel 1e-11; Y decoder, large: planar RxC, 2 <= R, C <= 15, all gcd regimes (quick: 6x9 9x6 8x10 8x12 '
        '10x15 4x5 14x15 + 8 seed-rotated shapes), Y-only errors none / weight 1..4 / density 0.05..0.2 / weight up to '
        'n/3 / subsets of one boundary line (all subsets of a line of <= 6 edges on shapes with a look-up table), '
        'p in {1e-6 .. 0.95, 2^-20, 2^-10, 2^-4, 1/4} as raw BitPhaseFlip floats, one PlanarYDecoder object for all '
        'inputs in shuffled order, inputs with both cosets < 1e-60 decoded three times; passes iff the result is '
        'Y-only with the syndrome, the two evaluated cosets are exactly the two classes of e + ker(A) over GF(2), '
        'their probabilities are within rel 1e-11 of the exact sums and the class is the exact arg-max when the '
        'exact relative gap > 1e-9; histories: per family one recipe per pair of equal-qubit-count transposed '
        'lattices (planar 2x3/3x2 2x4/4x2 2x5/5x2, rotated 3x4/4x3 3x5/5x3, colour 3) = every combination of '
        '{lattice A, B} x {weak, strong distribution} x {zero, weight-1..2-error syndrome} in shuffled order + 3 '
        'repeats, run on ONE object per decoder configuration (quick: 6 of the 18 planar ones per pair, rotating); a '
        'step passes iff the single-call predicate holds against the exact value and the answer equals a fresh '
        'object\'s; call shapes: decode with neither / only error_model / only error_probability / both prior '
        'arguments, keyword or positional (+ app context keywords), on a default-constructed object of every TN decoder '
        'class (all 8 shapes x zero / weight-1 / adjacent-pair syndrome) and on every decoder x mode x stp configuration '
        '(quick: the 5 partial shapes), PlanarYDecoder and (prior only) the two symmetry-matching decoders; the expected '
        'prior is the supplied value or the documented default (Depolarizing / BitPhaseFlip, 0.1) per argument; passes '
        'iff the prob_dist handed to the coset computation is bit-identical to that prior and the single-call '
        'predicate holds against the exact value for it')

REL_TOL = Fraction(1, 10 ** 11)
GAP_TOL = Fraction(1, 10 ** 9)
DECODE_LIMIT = 120  # seconds per real decode (core.TimeLimit)
WORST = {'rel': 0.0, 'where': None, 'min_gap_compared': None}   # largest relative deviation seen on this run


# ------------------------------------------------------------------------------------------------ helpers

class DistModel:
    """minimal error model: only `probability_distribution` is used by the decoders"""

    def __init__(self, dist):
        self.dist = tuple(float(x) for x in dist)

    def probability_distribution(self, probability):
        return self.dist

    @property
    def label(self):
        return 'dist{}'.format(self.dist)


def numerators(dist):
    """exact integers a with dist[i] = a[i] / D, D the common (power of two) denominator of the four floats"""
    fr = [Fraction(float(x)) for x in dist]
    D = 1
    for f in fr:
        D = D * f.denominator // math.gcd(D, f.denominator)
    return [int(f * D) for f in fr], D


def to_fraction(p):
    """exact value of a float / mpmath mpf (None when not finite)"""
    try:
        from mpmath import mpf
        if isinstance(p, mpf):
            sign, man, exp, _bc = p._mpf_
            if man == 0 and exp != 0:   # inf / nan encodings
                return None
            v = Fraction(int(man)) * (Fraction(2) ** int(exp))
            return -v if sign else v
    except ImportError:
        pass
    p = float(p)
    if not math.isfinite(p):
        return None
    return Fraction(p)


def bsp(a, b):
    n = len(a) // 2
    return int(np.dot(a[:n], b[n:]) + np.dot(a[n:], b[:n])) % 2


def logical_class(code, r, f):
    """index (0=I, 1=X̄, 2=Ȳ, 3=Z̄) of the coset of r relative to f; None if r ⊕ f does not commute with the
    stabilizers.  r ⊕ f ~ X̄ anticommutes with Z̄ only, ~ Z̄ with X̄ only."""
    from qecsim import paulitools as pt
    d = np.array(r, dtype=int) ^ np.array(f, dtype=int)
    if np.any(pt.bsp(d, code.stabilizers.T)):
        return None
    ax, az = (int(v) for v in pt.bsp(d, code.logicals.T))   # anticommutes with X̄, with Z̄
    return {(0, 0): 0, (0, 1): 1, (1, 1): 2, (1, 0): 3}[(ax, az)]


def make_code(fam, size):
    if fam == 'planar':
        from qecsim.models.planar import PlanarCode
        return PlanarCode(*size)
    if fam == 'rotatedplanar':
        from qecsim.models.rotatedplanar import RotatedPlanarCode
        return RotatedPlanarCode(*size)
    if fam == 'color666':
        from qecsim.models.color import Color666Code
        return Color666Code(size[0])
    raise ValueError(fam)


def make_decoder(name, mode, stp):
    """chi and tol are left at their defaults ("unset"), so a changed default is part of the observed behaviour"""
    import qecsim.models.planar as pl
    import qecsim.models.rotatedplanar as rp
    import qecsim.models.color as co
    if name in ('PlanarMPSDecoder', 'PlanarRMPSDecoder'):
        kw = {'mode': mode}
        if stp is not None:
            kw['stp'] = stp
        return getattr(pl, name)(**kw)
    if name in ('RotatedPlanarMPSDecoder', 'RotatedPlanarRMPSDecoder'):
        return getattr(rp, name)(mode=mode)
    if name == 'Color666MPSDecoder':
        return co.Color666MPSDecoder()
    raise ValueError(name)


def all_configs(fam):
    if fam == 'planar':
        return [(n, m, s) for n in ('PlanarMPSDecoder', 'PlanarRMPSDecoder') for m in 'cra' for s in (None, 1.0, 0.5)]
    if fam == 'rotatedplanar':
        return [(n, m, None) for n in ('RotatedPlanarMPSDecoder', 'RotatedPlanarRMPSDecoder') for m in 'cra']
    return [('Color666MPSDecoder', 'c', None)]


def run_real(code, cfg, syndrome, dist, dec=None, call=None):
    """one real `decode` with its `_coset_probabilities` call recorded (recording proxy on the instance, removed
    afterwards); `dec` = an existing decoder object to reuse (decoder-object histories), else a fresh one;
    `call(dec, code, syndrome_array)` = how `decode` is invoked (call shapes, qv/c10_calls.py; default: both prior
    arguments as keywords); `dist` is then the prior the documentation prescribes for that call.
    returns dict(f, ps, recs, out) — everything as plain lists / exact Fractions"""
    name, mode, stp = cfg
    if dec is None:
        dec = make_decoder(name, mode, stp)
    rec = {}
    orig = dec._coset_probabilities

    def proxy(prob_dist, sample_pauli):
        f = sample_pauli.to_bsf().copy()
        out = orig(prob_dist, sample_pauli)
        if 'f' not in rec:
            rec['f'] = f
            rec['pd'] = tuple(prob_dist)
            rec['ps'] = list(out[0])
            rec['recs'] = [r.to_bsf().copy() for r in out[1]]
        return out
    dec._coset_probabilities = proxy
    s_arg = np.array(syndrome, dtype=int)
    try:
        with core.TimeLimit(DECODE_LIMIT):
            if call is not None:
                out = call(dec, code, s_arg)
            else:
                out = dec.decode(code, s_arg, error_model=DistModel(dist), error_probability=0.1)
            if 'f' not in rec:  # decode no longer goes through _coset_probabilities: observe it directly
                proxy(tuple(float(x) for x in dist), dec.sample_recovery(code, np.array(syndrome, dtype=int)))
                rec['direct'] = True
    except core.TimeLimit.Expired:
        return {'error': 'timeout'}
    except Exception as ex:  # any exception of the real decoder is part of the observed behaviour
        return {'error': type(ex).__name__ + ':' + str(ex)[:80]}
    finally:
        dec.__dict__.pop('_coset_probabilities', None)
    rec['out'] = np.array(out, dtype=int)
    rec['cfg'] = cfg
    rec['syndrome_kept'] = bool(np.array_equal(s_arg, np.array(syndrome, dtype=int)))
    return rec


def verdict(code, syndrome, dist, D, n, r, exact_nums):
    """evaluate the property for one recorded real run against the exact numerators (order I, X̄, Ȳ, Z̄ relative to
    the recorded sample r['f']).  returns 'ok' or a short description."""
    from qecsim import paulitools as pt
    if 'error' in r:
        return 'raised ' + r['error']
    if tuple(r['pd']) != tuple(float(x) for x in dist):
        return 'decoder used distribution {} not {}'.format(r['pd'], dist)
    s = np.array(syndrome, dtype=int)
    f = r['f']
    if not np.array_equal(pt.bsp(f, code.stabilizers.T), s):
        return 'sample recovery does not carry the syndrome'
    if not r.get('syndrome_kept', True):
        return 'decode changed the syndrome array it was given'
    den = Fraction(D) ** n
    exact = [Fraction(x) / den for x in exact_nums]
    total = sum(exact)
    classes = []
    for i, (p, rv) in enumerate(zip(r['ps'], r['recs'])):
        if not np.array_equal(pt.bsp(rv, code.stabilizers.T), s):
            return 'recovery {} does not carry the syndrome'.format(i)
        c = logical_class(code, rv, f)
        classes.append(c)
        pf = to_fraction(p)
        if pf is None:
            return 'coset probability {} not finite'.format(i)
        if exact[c] > 0:
            rel = float(abs(pf - exact[c]) / exact[c])
            if rel > WORST['rel']:
                WORST['rel'] = rel; WORST['where'] = '{} {}'.format(code, r.get('cfg'))
        # a coset of exact probability 0 (distributions with zeros) is allowed rounding noise relative to the
        # largest coset of this syndrome class; every other coset is compared relative to its own exact value
        # (for a syndrome of probability 0 — impossible under a distribution with zeros — absolute 1e-11)
        if abs(pf - exact[c]) > (REL_TOL * exact[c] if exact[c] > 0 else REL_TOL * (max(exact) if total else 1)):
            return 'coset {} (class {}) probability {!r} differs from exact {:.17e} (rel {:.3e})'.format(
                i, 'IXYZ'[c], float(pf), float(exact[c]),
                float(abs(pf - exact[c]) / exact[c]) if exact[c] else float('inf'))
    if sorted(classes) != [0, 1, 2, 3]:
        return 'recoveries do not represent the four cosets: {}'.format(classes)
    if not np.array_equal(pt.bsp(r['out'], code.stabilizers.T), s):
        return 'decode result does not carry the syndrome'
    cr = logical_class(code, r['out'], f)
    best = max(exact)
    if best > 0:
        others = sorted(exact)[-2]
        near = [i for i in range(4) if (best - exact[i]) <= GAP_TOL * best]
        if (best - others) > GAP_TOL * best and cr != exact.index(best):
            return 'decode returned class {} (Pr {:.6e}) but the maximum-likelihood class is {} (Pr {:.6e})'.format(
                'IXYZ'[cr], float(exact[cr]), 'IXYZ'[exact.index(best)], float(best))
        if cr not in near:
            return 'decode returned class {} (Pr {:.6e}) outside the near-maximal set {}'.format(
                'IXYZ'[cr], float(exact[cr]), near)
    return 'ok'


def python_exact(code, f, dist_nums, lx=None, lz=None):
    """independent exact coset sums (integers over D^n) by enumerating the stabilizer group in Python with a Gray
    code over the generators; order I, X̄, Ȳ, Z̄ relative to f (used only in the failing-input search / replay)"""
    S = [int(''.join(str(int(b)) for b in row), 2) for row in code.stabilizers]
    n = code.n_k_d[0]
    tobits = lambda v: int(''.join(str(int(b)) for b in v), 2)  # noqa: E731
    lx = tobits(code.logical_xs[0]); lz = tobits(code.logical_zs[0])
    aI, aX, aY, aZ = dist_nums
    tab = {(0, 0): aI, (1, 0): aX, (1, 1): aY, (0, 1): aZ}
    mask = (1 << n) - 1

    def w(v):
        x, z = v >> n, v & mask
        p = 1
        for q in range(n):
            p *= tab[((x >> q) & 1, (z >> q) & 1)]
            if p == 0:
                return 0
        return p
    out = []
    for l in (0, lx, lx ^ lz, lz):
        v = tobits(f) ^ l
        tot = w(v)
        for i in range(1, 1 << len(S)):
            v ^= S[(i & -i).bit_length() - 1]
            tot += w(v)
        out.append(tot)
    return out


def error_table(code, dist_nums):
    """independent spec: enumerate ALL 4^n errors, group by (syndrome, logical class of the error) — integers"""
    from qecsim import paulitools as pt
    n = code.n_k_d[0]
    aI, aX, aY, aZ = dist_nums
    tab = {(0, 0): aI, (1, 0): aX, (1, 1): aY, (0, 1): aZ}
    N = 4 ** n
    idx = np.arange(N, dtype=np.int64)
    E = ((idx[:, None] >> np.arange(2 * n - 1, -1, -1)) & 1).astype(int)
    syn = pt.bsp(E, code.stabilizers.T)
    log = pt.bsp(E, code.logicals.T)
    table = {}
    for e, s, l in zip(E, syn, log):
        w = 1
        for q in range(n):
            w *= tab[(int(e[q]), int(e[n + q]))]
        key = (bits(s), int(l[0]), int(l[1]))
        table[key] = table.get(key, 0) + w
    return table


# ------------------------------------------------------------------------------------------------ distributions

def grid(x, k=16):
    return Fraction(round(x * 2 ** k), 2 ** k)


def make_dist(rng, kind, p):
    """(pI, pX, pY, pZ) as floats on the 2^-16 grid, summing to exactly 1"""
    if kind == 'depolarizing':
        px = py = pz = p / 3
    elif kind.startswith('bias'):
        eta = {'3': 3, '10': 10, '100': 100, '300': 300}[kind[5:]]
        hi = p * eta / (eta + 1); lo = p / (2 * (eta + 1))
        ax = kind[4]
        px, py, pz = [(hi if a == ax else lo) for a in 'XYZ']
    elif kind == 'bitflip':
        px, py, pz = p, 0, 0
    elif kind == 'phaseflip':
        px, py, pz = 0, 0, p
    elif kind == 'bitphaseflip':
        px, py, pz = 0, p, 0
    elif kind == 'xz':  # independent X and Z flips
        px, py, pz = p * (1 - p), p * p, p * (1 - p)
    elif kind == 'noy':
        px, py, pz = p / 2, 0, p / 2
    elif kind.startswith('dom'):  # ONE Pauli carries p, the others (I included) share the rest: (0.1, 0.7, 0.1, 0.1)
        px, py, pz = [(p if a == kind[3] else (1 - p) / 3) for a in 'XYZ']
    elif kind == 'simplex':  # any point of the simplex (p unused): I need not be the most likely Pauli
        w = [rng.random() + 0.02 for _ in range(4)]
        px, py, pz = [x / sum(w) for x in w[1:]]
    else:  # random
        w = [rng.random() for _ in range(3)]
        t = sum(w)
        px, py, pz = [p * x / t for x in w]
    g = [grid(px), grid(py), grid(pz)]
    g = [(Fraction(1, 2 ** 16) if (v == 0 and x > 0) else v) for v, x in zip(g, (px, py, pz))]
    d = [1 - sum(g)] + g
    return tuple(float(x) for x in d)


KINDS = ['depolarizing', 'biasZ10', 'biasX10', 'biasY10', 'biasZ100', 'biasX3', 'biasY300', 'bitflip', 'phaseflip',
         'bitphaseflip', 'xz', 'noy', 'random', 'random', 'domX', 'domY', 'domZ', 'simplex']
# the property quantifies over ALL single-qubit distributions: weak noise, and strong noise where the identity coset
# is no longer the likeliest one for the zero syndrome (depolarizing p > 3/4, biased p > 1/2, a dominant non-I Pauli)
PS_STRONG = [0.5, 0.6, 0.7, 0.8, 0.9, 0.95]
PS = [0.01, 0.03, 0.05, 0.1, 0.15, 0.2, 0.3, 0.4] + PS_STRONG
STRONG_KINDS = ['depolarizing', 'biasX10', 'biasZ10', 'biasY10', 'biasZ100', 'biasX3', 'domX', 'domY', 'domZ',
                'bitflip', 'phaseflip', 'bitphaseflip', 'xz', 'noy', 'random', 'simplex']


def raw_model_dists():
    from qecsim.models.generic import DepolarizingErrorModel, BiasedDepolarizingErrorModel, BitFlipErrorModel
    return [('raw-depolarizing', DepolarizingErrorModel().probability_distribution(0.1)),
            ('raw-biasedZ10', BiasedDepolarizingErrorModel(10, 'Z').probability_distribution(0.07)),
            ('raw-bitflip', BitFlipErrorModel().probability_distribution(0.21))]


# ------------------------------------------------------------------------------------------------ plan

def plan(ctx):
    """(family, size, n_syndromes or None for all, n_dists, configs_per_case)"""
    q = ctx.quick()
    P = []
    # planar
    P += [('planar', (2, 2), None, 8 if q else 18, 4 if q else 18)]
    P += [('planar', s, None if not q else 24, 2 if q else 4, 3 if q else 6) for s in [(2, 3), (3, 2)]]
    P += [('planar', s, 12 if q else 350, 2, 3 if q else 6) for s in [(2, 4), (4, 2)]]
    P += [('planar', (3, 3), 16 if q else 800, 2 if q else 1, 3 if q else 2)]
    P += [('planar', s, 3 if q else 60, 1, 3 if q else 6) for s in [(2, 5), (5, 2)]]
    if not q:
        P += [('planar', s, 4, 1, 6) for s in [(3, 4), (4, 3), (2, 6), (6, 2)]]
    # rotated planar
    P += [('rotatedplanar', (3, 3), 32 if q else None, 2 if q else 4, 3 if q else 6)]
    P += [('rotatedplanar', s, 8 if q else 300, 2 if q else 1, 3 if q else 6) for s in [(3, 4), (4, 3)]]
    P += [('rotatedplanar', s, 3 if q else 30, 1, 3 if q else 6) for s in [(3, 5), (5, 3)]]
    if not q:
        P += [('rotatedplanar', (4, 4), 8, 1, 6)]
        P += [('rotatedplanar', s, 4, 1, 6) for s in [(3, 6), (6, 3)]]
    # colour
    P += [('color666', (3,), None, 2 if q else 20, 1)]
    if not q:
        P += [('color666', (5,), 4, 1, 1)]
    return P


def syndromes_for(ctx, n_bits, count):
    if count is None or count >= 2 ** n_bits:
        return [[(i >> (n_bits - 1 - j)) & 1 for j in range(n_bits)] for i in range(2 ** n_bits)], True
    seen, out = set(), []
    out.append([0] * n_bits); seen.add(0)
    while len(out) < count:
        i = ctx.rng.getrandbits(n_bits)
        # half the samples low weight (typical of actual errors), half uniform
        if len(out) % 2:
            i &= ctx.rng.getrandbits(n_bits) & ctx.rng.getrandbits(n_bits)
        if i in seen:
            continue
        seen.add(i)
        out.append([(i >> (n_bits - 1 - j)) & 1 for j in range(n_bits)])
    return out, False


def special_cases(ctx, fam, size, code, label):
    """the inputs that are cheapest to special-case in a decoder — the ZERO syndrome and the single-defect syndromes —
    are always run, on every code of the plan, through EVERY decoder and mode of the family (planar stp: rotating
    with the syndrome; all three values on codes with <= 8 generators in the thorough tier), under strong-noise
    distributions (the first one always has a non-identity Pauli as the most likely one) and a weak one.  Under strong
    noise the likeliest coset of the zero syndrome is a LOGICAL coset on most codes (counted in zero_syndrome_argmax),
    so `decode` must really take the arg-max.  The exact value costs an enumeration of 4 * 2^r group elements per
    syndrome, so: EVERY single-defect syndrome on codes with r <= 12 generators (thorough: r <= 14 under the strong
    distribution); above that zero + a random five (strong) / two (weak), and in the thorough tier for r >= 15
    (seconds per value) zero (+ one for r = 15) under the strong distribution only — their zero syndrome is also in
    the main sample."""
    rng, q = ctx.rng, ctx.quick()
    r = len(code.stabilizers)
    singles = [[int(i == j) for j in range(r)] for i in range(r)]
    zero = [0] * r
    cfgs_all = all_configs(fam)
    n_more = (5 if r <= 6 else 2 if r <= 8 else 0) if q else (3 if r <= 8 else 1 if r <= 12 else 0)
    n_strong, n_weak = ((r, r) if r <= 12 else (5 if q else r, 2) if r <= 14 else (5, 2) if q else
                        (1 if r <= 15 else 0, None))
    kinds = ['dom' + rng.choice('XYZ')] + [rng.choice(STRONG_KINDS) for _ in range(n_more)]
    dists = [('strong-' + k, make_dist(rng, k, rng.choice(PS_STRONG[1:] if k.startswith('dom') else PS_STRONG)),
              [zero] + rng.sample(singles, n_strong)) for k in kinds]
    if n_weak is not None:
        weak = rng.choice(['depolarizing', 'biasZ10', 'biasX10', 'biasY10', 'xz', 'random'])
        dists.append((weak, make_dist(rng, weak, rng.choice(PS[:8])), [zero] + rng.sample(singles, n_weak)))
    for di, (kind, dist, ss) in enumerate(dists):
        for si, syndrome in enumerate(ss):
            if fam == 'planar' and (q or r > 8):
                stp = (None, 1.0, 0.5)[(si + di) % 3]
                cfgs = [c for c in cfgs_all if c[2] == stp]
            else:
                cfgs = cfgs_all
            group_case(ctx, fam, size, code, syndrome, kind, dist, cfgs)
            ctx.count('code', label); ctx.count('dist_kind', kind)
            ctx.count('special_syndrome', 'single-defect' if any(syndrome) else 'zero')
    ctx.flush()


# ------------------------------------------------------------------------------------------------ run

def group_case(ctx, fam, size, code, syndrome, kind, dist, cfgs, table=None):
    """run the real decoders of `cfgs` on (code, syndrome, dist); queue one correspondence case per distinct sample"""
    a, D = numerators(dist)
    n = code.n_k_d[0]
    runs = [(cfg, run_real(code, cfg, syndrome, dist)) for cfg in cfgs]
    by_f = {}
    for cfg, r in runs:
        key = bits(r['f']) if 'f' in r else 'none'
        by_f.setdefault(key, []).append((cfg, r))
        ctx.count('decoder', cfg[0]); ctx.count('mode', cfg[1]); ctx.count('stp', cfg[2])
    ctx.extra['real_decodes'] = ctx.extra.get('real_decodes', 0) + len(runs)
    for fkey, grp in sorted(by_f.items()):
        if fkey == 'none':
            # the decoder raised / timed out before producing a sample: the property fails outright on this input
            for cfg, r in grp:
                ctx.monitor_fail('real decoder did not decode: ' + r.get('error', '?'),
                                 {'family': fam, 'size': list(size), 'syndrome': bits(syndrome), 'dist': list(dist),
                                  'config': list(cfg)}, key='C10:{}:{}'.format(cfg[0], r.get('error', '?')[:20]))
            continue
        line = 'c10 cosets {} {} {} {} {} {} {}'.format(mat(code.stabilizers), mat(code.logicals), fkey, *a)
        labels = ['{}/{}/{}'.format(*cfg) for cfg, _ in grp]
        impl = ' '.join(l + '=ok' for l in labels) + (' table=ok' if table is not None else '')
        meta = {'family': fam, 'size': list(size), 'syndrome': bits(syndrome), 'dist': [float(x).hex() for x in dist],
                'kind': kind, 'configs': [list(cfg) for cfg, _ in grp]}

        def post(reply, grp=grp, labels=labels, table=table, fkey=fkey):
            toks = reply.split()
            nums = [int(x) for x in toks[0].split(',')]
            if len(nums) != 4:
                return 'bad-reply ' + reply[:60]
            res = [l + '=' + verdict(code, syndrome, dist, D, n, r, nums) for l, (cfg, r) in zip(labels, grp)]
            if not any(syndrome) and max(nums) > 0:
                # which coset is the exact arg-max for the zero syndrome: the stabilizer group itself or a logical coset
                ci = logical_class(code, [0] * (2 * n), grp[0][1]['f'])
                ctx.count('zero_syndrome_argmax',
                          fam + (':identity-coset' if nums[ci] == max(nums) else ':logical-coset'))
            if table is not None:
                # exact equality with the independent enumeration of all 4^n errors: the class of an error e
                # relative to the sample f is the class of e ⊕ f
                f = np.array([int(c) for c in fkey])
                want = [0, 0, 0, 0]
                for (sb, lx_, lz_), w in table.items():
                    if sb == bits(syndrome):
                        fx, fz = (bsp(f, code.logical_xs[0]), bsp(f, code.logical_zs[0]))
                        c = {(0, 0): 0, (0, 1): 1, (1, 1): 2, (1, 0): 3}[(lx_ ^ fx, lz_ ^ fz)]
                        want[c] += w
                ok = want == nums and int(toks[1]) == max(range(4), key=lambda i: (nums[i], -i)) \
                    and int(toks[2]) == max(0, max(x for i, x in enumerate(nums) if i != int(toks[1])))
                res.append('table=' + ('ok' if ok else 'model {} enumeration {}'.format(nums, want)))
            return ' '.join(res)
        ctx.case(line, impl, nontrivial=any(syndrome), meta=meta, post=post)


def run(ctx):
    rng = ctx.rng
    ctx.assumptions = ['numpy / LAPACK (QR, SVD inside tensortools.mps) and mpmath as installed',
                       'IEEE-754 double arithmetic; Fraction(float) is the exact value of a float',
                       'code.stabilizers / code.logicals of the real lattice codes are what the decoder works with '
                       '(their validity is property C07)']
    exhaustive_codes = []
    raw = raw_model_dists()
    n_cases = 0
    import time as _time
    T = ctx.extra.setdefault('part_seconds', {})
    for fam, size, n_syn, n_dist, n_cfg in plan(ctx):
        _t0 = _time.time()
        code = make_code(fam, size)
        n = code.n_k_d[0]
        r = len(code.stabilizers)
        syns, exhaustive = syndromes_for(ctx, r, n_syn)
        label = '{}{}'.format(fam, 'x'.join(str(x) for x in size))
        if exhaustive:
            exhaustive_codes.append(label)
        cfgs_all = all_configs(fam)
        dists = []
        for j in range(n_dist):
            kind = 'depolarizing' if (j == 0 and n_dist > 1) else KINDS[rng.randrange(len(KINDS))]
            dists.append((kind, make_dist(rng, kind, rng.choice(PS))))
        if r <= 8:
            dists.append(raw[rng.randrange(len(raw))])
        for kind, dist in dists:
            a, D = numerators(dist)
            table = None
            if n <= (7 if ctx.quick() else 8) and (kind.startswith('raw') or kind == 'depolarizing' or n <= 5):
                table = error_table(code, a)
                # Pr(syndrome) by the Lean enumeration of all errors = independent Python enumeration (exact)
                for sb in sorted(set(k[0] for k in table))[:: max(1, 2 ** r // 16)]:
                    tot = sum(w for k, w in table.items() if k[0] == sb)
                    ctx.case('c10 syndprob {} {} {} {} {} {} {}'.format(mat(code.stabilizers), sb, 2 * n, *a),
                             str(tot), nontrivial='1' in sb)
            for si, syndrome in enumerate(syns):
                if len(cfgs_all) <= n_cfg:
                    cfgs = cfgs_all
                else:
                    # rotate through the configurations so that every one is used, plus random extras
                    k0 = (si * n_cfg) % len(cfgs_all)
                    cfgs = [cfgs_all[(k0 + j) % len(cfgs_all)] for j in range(n_cfg)]
                group_case(ctx, fam, size, code, syndrome, kind, dist, cfgs, table=table)
                ctx.count('code', label); ctx.count('dist_kind', kind)
                n_cases += 1
        ctx.flush()
        T['main:' + label] = round(_time.time() - _t0, 1)
        _t0 = _time.time()
        special_cases(ctx, fam, size, code, label)
        ctx.flush()
        T['special:' + label] = round(_time.time() - _t0, 1)
    _t0 = _time.time(); y_cases(ctx); ctx.flush(); T['y_cases'] = round(_time.time() - _t0, 1)
    _t0 = _time.time(); tn_cases(ctx); ctx.flush(); T['planar_tn'] = round(_time.time() - _t0, 1)
    ctx.extra['exhaustive_codes'] = exhaustive_codes
    ctx.extra['worst_relative_deviation'] = dict(WORST)
    if getattr(ctx, 'nolean', False):
        print('[dev] worst relative deviation', WORST, 'real decodes', ctx.extra.get('real_decodes'))
        print('[dev] part seconds', T)
        print('[dev] specials', dict(ctx.hist['special_syndrome']), dict(ctx.hist['zero_syndrome_argmax']))
    ctx.exhaustive = False
    ctx.explored = {
        'float-vs-exact coset probabilities and arg-max class of the real decoders': {
            'evaluations': ctx.extra.get('real_decodes', 0),
            'rule': 'each real decode: 4 (Y decoder: 2) coset probabilities within rel 1e-11 of the exact Lean '
                    'rational; recoveries carry the syndrome and cover all cosets; decode class = exact arg-max when '
                    'rel gap > 1e-9',
            'exhaustive': False,
            'all_syndromes_for': exhaustive_codes},
        'planar network: real create_tn tensors == model planarTn (entry-wise, exact); model exact contraction == '
        'exact spec cosetProb': {
            'evaluations': ctx.extra.get('tn_networks', 0),
            'rule': 'each (size, sample variant, distribution): all (2R-1)(2C-1) tensors equal; exact value equal '
                    'where the stabilizer group has <= 2^17 elements (quick) / 2^22 (thorough), else the real float '
                    'contraction within rel 1e-11 of the model value',
            'exhaustive': False}}
    # further decoder networks inside the model (one helper module each: tensors of the real create_tn == model tensors,
    # model contraction == exact coset probability)
    for name in NETWORK_HELPERS + CLASS_HELPERS:
        mod = importlib.import_module('qv.' + name)
        before = ctx.evaluations
        _t0 = _time.time()
        mod.cases(ctx)
        ctx.flush()
        T[name] = round(_time.time() - _t0, 1)
        ctx.explored[name + ('_network_tie' if name in NETWORK_HELPERS else '_inputs')] = {
            'evaluations': ctx.evaluations - before, 'exhaustive': False,
            'rule': (mod.__doc__ or '').strip().split('\n')[0][:300]}
    if getattr(ctx, 'nolean', False):
        print('[dev] part seconds (all)', T)
    return ctx.finish(RULE, search=search, explanation=(
        'spec theorems proved in Lean; the numerical agreement of the float/mpf contractions with the spec is bounded '
        'on the explored inputs only (see explored)'))


# ------------------------------------------------------------------------------------------------ Y decoder

def y_plan(ctx):
    q = ctx.quick()
    P = [((2, 2), None, 4 if q else 12), ((2, 3), None, 2 if q else 6), ((3, 2), None, 2 if q else 6),
         ((3, 3), 30 if q else 200, 2), ((2, 4), 20 if q else 400, 2), ((4, 2), 20 if q else 400, 2),
         ((2, 5), 6 if q else 30, 1), ((5, 2), 6 if q else 30, 1)]
    if not q:
        P += [((3, 4), 4, 1), ((4, 3), 4, 1), ((2, 6), 4, 1)]
    return P


def run_real_y(code, syndrome, dist, call=None):
    from qecsim.models.planar import PlanarYDecoder
    dec = PlanarYDecoder()
    calls = []
    orig = dec._coset_probability

    def proxy(prob_dist, coset):
        p = orig(prob_dist, coset)
        calls.append((tuple(prob_dist), np.array(coset, dtype=int).copy(), +p))
        return p
    dec._coset_probability = proxy
    try:
        with core.TimeLimit(DECODE_LIMIT):
            if call is not None:
                out = call(dec, code, np.array(syndrome, dtype=int))
            else:
                out = dec.decode(code, np.array(syndrome, dtype=int), error_model=DistModel(dist), error_probability=0.1)
            f = np.array(dec._sample_recovery(code, np.array(syndrome, dtype=int)), dtype=int)
            ly = np.array(dec._y_logical(code), dtype=int)
            if not calls:   # decode no longer goes through _coset_probability: observe the documented steps directly
                import mpmath
                with mpmath.mp.workdps(50):
                    ys = dec._y_stabilizers(code)
                    proxy(dist, ys ^ f); proxy(dist, ys ^ (f ^ ly))
    except core.TimeLimit.Expired:
        return {'error': 'timeout'}
    except Exception as ex:
        return {'error': type(ex).__name__ + ':' + str(ex)[:80]}
    return {'out': np.array(out, dtype=int), 'f': f, 'ly': ly, 'calls': calls}


def y_verdict(code, syndrome, dist, D, n, r, nums, ysize):
    """nums = exact Y-only coset sums of f and f ⊕ ly"""
    from qecsim import paulitools as pt
    if 'error' in r:
        return 'raised ' + r['error']
    s = np.array(syndrome, dtype=int)
    f, ly = r['f'], r['ly']
    yonly = lambda v: np.array_equal(v[:n], v[n:])  # noqa: E731
    if not yonly(f) or not np.array_equal(pt.bsp(f, code.stabilizers.T), s):
        return 'sample recovery is not an all-Y operator with the syndrome'
    if not yonly(ly) or np.any(pt.bsp(ly, code.stabilizers.T)) or not np.any(pt.bsp(ly, code.logicals.T)):
        return 'y-logical is not an all-Y non-trivial logical operator'
    den = Fraction(D) ** n
    exact = [Fraction(x) / den for x in nums]
    if len(r['calls']) != 2:
        return 'expected two coset evaluations, saw {}'.format(len(r['calls']))
    seen = []
    for pd, coset, p in r['calls']:
        if tuple(pd) != tuple(float(x) for x in dist):
            return 'decoder used distribution {}'.format(pd)
        rows = {bits(v) for v in coset}
        if len(rows) != len(coset) or len(rows) != ysize:
            return 'coset has {} distinct elements of {}, the all-Y stabilizer group has {}'.format(
                len(rows), len(coset), ysize)
        c = None
        for v in coset:
            if not yonly(v) or not np.array_equal(pt.bsp(v, code.stabilizers.T), s):
                return 'coset element is not all-Y with the syndrome'
            cv = 1 if np.any(pt.bsp(v ^ f, code.logicals.T)) else 0
            if c is not None and cv != c:
                return 'coset mixes logical classes'
            c = cv
        seen.append(c)
        pf = to_fraction(p)
        if pf is None or abs(pf - exact[c]) > (REL_TOL * exact[c] if exact[c] > 0
                                               else REL_TOL * (max(exact) if max(exact) else 1)):
            return 'coset class {} probability {!r} differs from exact {:.17e}'.format(c, p, float(exact[c]))
    if sorted(seen) != [0, 1]:
        return 'the two cosets are not the two logical classes'
    if not np.array_equal(pt.bsp(r['out'], code.stabilizers.T), s) or not yonly(r['out']):
        return 'decode result is not all-Y with the syndrome'
    cr = 1 if np.any(pt.bsp(r['out'] ^ f, code.logicals.T)) else 0
    best = max(exact)
    if best > 0 and abs(exact[0] - exact[1]) > GAP_TOL * best and cr != exact.index(best):
        return 'decode returned class {} (Pr {:.6e}) but the more probable is {} (Pr {:.6e})'.format(
            cr, float(exact[cr]), exact.index(best), float(best))
    return 'ok'


def y_case(ctx, size, code, syndrome, dist):
    a, D = numerators(dist)
    n = code.n_k_d[0]
    r = run_real_y(code, syndrome, dist)
    ctx.extra['real_decodes'] = ctx.extra.get('real_decodes', 0) + 1
    ctx.count('decoder', 'PlanarYDecoder')
    meta = {'family': 'planar-y', 'size': list(size), 'syndrome': bits(syndrome),
            'dist': [float(x).hex() for x in dist]}
    if 'f' not in r:
        ctx.monitor_fail('PlanarYDecoder did not decode: ' + r.get('error', '?'), meta,
                         key='C10:PlanarYDecoder:' + r.get('error', '?')[:20])
        return
    line = 'c10 ycosets {} {} {} {} {} {} {}'.format(mat(code.stabilizers), bits(r['ly']), bits(r['f']), *a)

    def post(reply):
        toks = reply.split()
        nums = [int(x) for x in toks[0].split(',')]
        return 'PlanarYDecoder=' + y_verdict(code, syndrome, dist, D, n, r, nums, int(toks[2]))
    ctx.case(line, 'PlanarYDecoder=ok', nontrivial=any(syndrome), meta=meta, post=post)
    # pure-Y noise: the Y-only coset sums equal the full coset sums (theorem yCosetProb_eq_cosetProb), checked on
    # the model through the full-group op when the sample is small enough
    if dist[1] == 0 and dist[3] == 0 and len(code.stabilizers) <= 10:
        lz_like = r['ly']
        ctx.case('c10 ycheck {} {} {} {} {} {} {}'.format(mat(code.stabilizers), bits(lz_like), bits(r['f']), *a), '1',
                 nontrivial=True)


def y_cases(ctx):
    from qecsim.models.planar import PlanarCode
    from qecsim import paulitools as pt
    rng = ctx.rng
    for size, n_syn, n_dist in y_plan(ctx):
        code = PlanarCode(*size)
        n = code.n_k_d[0]
        # reachable syndromes: those of all-Y errors
        if n_syn is None:
            errs = [[(i >> (n - 1 - j)) & 1 for j in range(n)] for i in range(2 ** n)]
        else:
            errs = [[0] * n] + [[int(rng.random() < rng.choice([0.1, 0.3, 0.5])) for _ in range(n)]
                                for _ in range(n_syn - 1)]
        # the cheapest inputs to special-case — no error and every single-qubit Y error (n > 14, quick n > 13: two of them;
        # qv/c10_ybig.py runs weight-1..4 errors on every one of its lattices against the GF(2) reference) — are
        # always there, and are run once more under strong noise (p >= 1/2: the all-Y operator beats the identity)
        single = [[int(i == j) for j in range(n)] for i in range(n)]
        special = sorted({tuple(int(x) for x in pt.bsp(np.array(e + e), code.stabilizers.T))
                          for e in [[0] * n] + (single if n <= (13 if ctx.quick() else 14) else rng.sample(single, 2))})
        syns = sorted({tuple(int(x) for x in pt.bsp(np.array(e + e), code.stabilizers.T)) for e in errs}
                      | set(special))
        for j in range(n_dist + 1):
            p = rng.choice(PS if j < n_dist else PS_STRONG)
            dist = make_dist(rng, 'bitphaseflip', p) if j or size != (2, 2) else \
                tuple(__import__('qecsim.models.generic', fromlist=['x']).BitPhaseFlipErrorModel()
                      .probability_distribution(0.1))
            for s in (syns if j < n_dist else special):
                y_case(ctx, size, code, list(s), dist)
                ctx.count('code', 'planar-y{}x{}'.format(*size)); ctx.count('dist_kind', 'pure-Y')
        ctx.flush()


# ------------------------------------------------------------------------------------------------ planar network

def tn_plan(ctx):
    """(size, items, spec) — spec: 'cosets' = all four variants against the REAL matrices, 'tncoset' = the sample
    itself against the model's stabilizers, 'float' = only the real float contraction (group too large)"""
    q = ctx.quick()
    P = [((2, 2), 6 if q else 24, 'cosets')]
    P += [(s, 3 if q else 10, 'cosets') for s in [(2, 3), (3, 2), (3, 3), (2, 4), (4, 2)]]
    P += [(s, 2 if q else 4, 'cosets') for s in [(2, 5), (5, 2)]]
    P += [(s, 1 if q else 3, 'tncoset') for s in [(3, 4), (4, 3), (2, 6), (6, 2)]]
    P += [(s, 1 if q else 3, 'float') for s in [(4, 4), (5, 3)]]
    P += [((3, 5), 1, 'float' if q else 'tncoset')]
    return P


def ser_real_tn(tn, D):
    """the real network in the C11 wire format, float entries as exact multiples of 1/D (an entry that is not such
    a multiple is written as a fraction and can never equal the model's integer)"""
    toks = []
    for r in range(tn.shape[0]):
        for c in range(tn.shape[1]):
            t = tn[r, c]
            if t is None:
                toks.append('N'); continue
            t = np.asarray(t)
            if t.ndim != 4:
                toks.append('ndim{}'.format(t.ndim)); continue
            ent = []
            for x in t.flatten():
                if isinstance(x, (int, np.integer)):
                    ent.append(str(int(x)))       # delta tensors: dtype=int, compared as they are
                else:
                    x = float(x)
                    v = Fraction(x) * D if math.isfinite(x) else None
                    ent.append(repr(x) if v is None else (str(int(v)) if v.denominator == 1 else
                                                          '{}/{}'.format(v.numerator, v.denominator)))
            toks.append('.'.join(str(int(d)) for d in t.shape) + ':' + ','.join(ent))
    return 'ok {}x{} {}'.format(tn.shape[0], tn.shape[1], ';'.join(toks))


def tn_variants(code, f):
    """the four sample Paulis of `_coset_probabilities` (I, X̄, Ȳ, Z̄), made by the real PlanarPauli methods"""
    sp = code.new_pauli(np.array(f, dtype=int))
    return [sp, sp.copy().logical_x(), sp.copy().logical_x().logical_z(), sp.copy().logical_z()]


def tn_cases(ctx):
    from qecsim.models.planar import PlanarCode, PlanarMPSDecoder
    from qecsim import tensortools as tt
    rng = ctx.rng
    raw = raw_model_dists()
    items = []
    for size, n_items, spec in tn_plan(ctx):
        code = PlanarCode(*size)
        n = code.n_k_d[0]
        for j in range(n_items):
            if j % 2 == 0:   # the decoder's own sample for a random syndrome (low weight half the time)
                i = rng.getrandbits(len(code.stabilizers))
                if j % 4 == 2:
                    i &= rng.getrandbits(len(code.stabilizers))
                syn = [(i >> k) & 1 for k in range(len(code.stabilizers))]
                f = [int(x) for x in PlanarMPSDecoder.sample_recovery(code, np.array(syn, dtype=int)).to_bsf()]
                src = 'sample_recovery'
            else:            # any Pauli
                f = [rng.randrange(2) for _ in range(2 * n)]
                src = 'random'
            if j == 0 and size == (2, 2):
                kind, dist = raw[0]
            elif rng.random() < 0.15:
                kind, dist = raw[rng.randrange(len(raw))]
            else:
                kind = KINDS[rng.randrange(len(KINDS))]
                dist = make_dist(rng, kind, rng.choice(PS))
            items.append((size, code, f, src, kind, tuple(float(x) for x in dist), spec))
    # phase 1: the exact spec values, from the driver (Lean `cosetProb`)
    spec_lines = []
    for size, code, f, src, kind, dist, spec in items:
        a, D = numerators(dist)
        if spec == 'cosets':
            spec_lines.append('c10 cosets {} {} {} {} {} {} {}'.format(mat(code.stabilizers), mat(code.logicals),
                                                                      bits(f), *a))
        elif spec == 'tncoset':
            spec_lines.append('c10 tncoset {} {} {} {} {} {} {}'.format(size[0], size[1], bits(f), *a))
    spec_out = iter(ctx.driver.ask(spec_lines))
    # phase 2: the cases
    tnc = PlanarMPSDecoder.TNC()
    for size, code, f, src, kind, dist, spec in items:
        a, D = numerators(dist)
        n = code.n_k_d[0]
        meta = {'family': 'planar-tn', 'size': list(size), 'sample': bits(f), 'dist': [x.hex() for x in dist],
                'kind': kind, 'sample_source': src}
        want = None
        if spec == 'cosets':
            want = next(spec_out).split()[0].split(',')
        elif spec == 'tncoset':
            want = [next(spec_out)]
        try:
            variants = tn_variants(code, f)
        except Exception as ex:
            ctx.monitor_fail('PlanarPauli logical_x / logical_z raised ' + repr(ex)[:80], meta, key='C10:tn:variants')
            continue
        for vi, sp in enumerate(variants):
            fv = bits(sp.to_bsf())
            vmeta = dict(meta, variant='IXYZ'[vi])
            real_val = None
            try:
                tn = tnc.create_tn(dist, sp)
                impl = ser_real_tn(tn, D)
                if spec == 'float':
                    with core.TimeLimit(DECODE_LIMIT):
                        real_val = to_fraction(tt.mps2d.contract(tn))
            except Exception as ex:
                impl = 'raised {}:{}'.format(type(ex).__name__, str(ex)[:60])
            ctx.case('c10 tn {} {} {} {} {} {} {}'.format(size[0], size[1], fv, *a), impl,
                     nontrivial=True, meta=vmeta)
            ctx.extra['tn_networks'] = ctx.extra.get('tn_networks', 0) + 1
            ctx.count('tn_code', 'planar{}x{}'.format(*size)); ctx.count('tn_sample', src)
            line = 'c10 tnvalue {} {} {} {} {} {} {}'.format(size[0], size[1], fv, *a)
            if want is not None and vi < len(want):
                # exact: contraction of the model network == cosetProb (both Lean, both integers over D^n)
                ctx.case(line, 'ok s ' + want[vi], nontrivial=True, meta=vmeta)
            elif spec == 'float':
                def post(reply, real_val=real_val, D=D, n=n):
                    toks = reply.split()
                    if toks[:2] != ['ok', 's'] or real_val is None:
                        return 'model {} real {}'.format(reply[:40], real_val)
                    exact = Fraction(int(toks[2])) / Fraction(D) ** n
                    dev = abs(real_val - exact)
                    return 'ok' if dev <= REL_TOL * exact or (exact == 0 and dev <= REL_TOL) else \
                        'real contraction {!r} differs from the model network value {:.17e}'.format(
                            float(real_val), float(exact))
                ctx.case(line, 'ok', nontrivial=True, meta=vmeta, post=post)
        if size == (2, 2):
            # the literal index sum (`exactValue`, 2^12 assignments) == contraction == spec
            ctx.case('c10 tnexact 2 2 {} {} {} {} {}'.format(bits(f), *a), 'ok ' + want[0], nontrivial=True, meta=meta)
        if spec == 'cosets' and len(code.stabilizers) <= 10:
            # the spec on the model's own stabilizers (statement of planar_tn_value) == the spec on the real matrices
            ctx.case('c10 tncoset {} {} {} {} {} {} {}'.format(size[0], size[1], bits(f), *a), want[0],
                     nontrivial=True, meta=meta)
    ctx.flush()


def evaluate_tn_input(meta):
    """the property on the real code for a network case: `_coset_probabilities(dist, sample)` of the real
    PlanarMPSDecoder (modes c and r) against the exact coset sums enumerated in Python"""
    from qecsim.models.planar import PlanarCode, PlanarMPSDecoder
    code = PlanarCode(*meta['size'])
    n = code.n_k_d[0]
    if len(code.stabilizers) > 17:
        return None
    dist = tuple(float.fromhex(x) for x in meta['dist'])
    f = np.array([int(c) for c in meta['sample']], dtype=int)
    a, D = numerators(dist)
    exact = [Fraction(x) / Fraction(D) ** n for x in python_exact(code, f, a)]
    for mode in ('c', 'r'):
        try:
            with core.TimeLimit(DECODE_LIMIT):
                ps, _ = PlanarMPSDecoder(mode=mode)._coset_probabilities(dist, code.new_pauli(f))
        except Exception as ex:
            return {'what': 'PlanarMPSDecoder(mode={})._coset_probabilities raised {!r}'.format(mode, ex)[:300],
                    'code': 'PlanarCode{}'.format(tuple(meta['size'])), 'sample_pauli_bsf': meta['sample'],
                    'prob_dist': list(dist)}
        for i, (p, e) in enumerate(zip(ps, exact)):
            pf = to_fraction(p)
            if pf is None or abs(pf - e) > (REL_TOL * e if e > 0 else REL_TOL * (max(exact) if max(exact) else 1)):
                return {'what': 'PlanarMPSDecoder(mode={}, chi=None)._coset_probabilities: coset {} probability {!r} '
                                'differs from the exact coset sum {:.17e}'.format(mode, 'IXYZ'[i], p, float(e)),
                        'decoder': 'PlanarMPSDecoder', 'mode': mode, 'code': 'PlanarCode{}'.format(
                            tuple(meta['size'])), 'sample_pauli_bsf': meta['sample'], 'prob_dist': list(dist),
                        'real_coset_probabilities': [float(x) for x in ps],
                        'exact_coset_probabilities_IXYZ': [float(x) for x in exact]}
    return None


# ------------------------------------------------------------------------------------------------ search / replay

def evaluate_input(meta):
    """evaluate the PROPERTY on the real code for the recorded input, with an exact value computed independently of
    Lean (Python integers, Gray-code enumeration of the stabilizer group).  returns a failing-input dict or None"""
    fam = meta['family']
    if fam == 'planar-tn':
        return evaluate_tn_input(meta)
    dist = tuple(float.fromhex(x) for x in meta['dist'])
    syndrome = [int(c) for c in meta['syndrome']]
    a, D = numerators(dist)
    if fam == 'planar-y':
        from qecsim.models.planar import PlanarCode
        code = PlanarCode(*meta['size'])
        n = code.n_k_d[0]
        r = run_real_y(code, syndrome, dist)
        if 'f' not in r:
            return {'what': 'PlanarYDecoder did not decode: ' + r.get('error', '?'), **meta}
        # exact Y-only sums: enumerate all 2^n all-Y operators
        from qecsim import paulitools as pt
        nums = [0, 0]; ysize = 0
        for i in range(2 ** n):
            e = np.array([(i >> (n - 1 - j)) & 1 for j in range(n)])
            v = np.concatenate((e, e))
            sv = pt.bsp(v, code.stabilizers.T)
            if not np.any(sv) and not np.any(pt.bsp(v, code.logicals.T)):
                ysize += 1
            if np.array_equal(sv, np.array(syndrome)):
                c = 1 if np.any(pt.bsp(v ^ r['f'], code.logicals.T)) else 0
                k = int(e.sum())
                nums[c] += a[2] ** k * a[0] ** (n - k)
        v = y_verdict(code, syndrome, dist, D, n, r, nums, ysize)
        if v != 'ok':
            return {'what': 'PlanarYDecoder: ' + v, 'decoder': 'PlanarYDecoder', 'code': 'PlanarCode{}'.format(
                tuple(meta['size'])), 'syndrome': meta['syndrome'], 'prob_dist': list(dist),
                'exact_coset_probabilities': [float(Fraction(x) / Fraction(D) ** n) for x in nums]}
        return None
    code = make_code(fam, tuple(meta['size']))
    n = code.n_k_d[0]
    cache = {}
    for cfg in meta['configs']:
        cfg = tuple(cfg)
        r = run_real(code, cfg, syndrome, dist)
        if 'f' not in r:
            return {'what': 'decoder did not decode: ' + r.get('error', '?'), 'config': list(cfg), **meta}
        fk = bits(r['f'])
        if fk not in cache:
            cache[fk] = python_exact(code, r['f'], a)
        v = verdict(code, syndrome, dist, D, n, r, cache[fk])
        if v != 'ok':
            return {'what': '{}(mode={}, stp={}, chi=None, tol=None): {}'.format(cfg[0], cfg[1], cfg[2], v),
                    'decoder': cfg[0], 'mode': cfg[1], 'stp': cfg[2], 'code': '{}{}'.format(fam, tuple(meta['size'])),
                    'syndrome': meta['syndrome'], 'prob_dist': list(dist),
                    'sample_recovery': fk,
                    'real_coset_probabilities': [float(p) for p in r['ps']],
                    'exact_coset_probabilities_IXYZ': [float(Fraction(x) / Fraction(D) ** n) for x in cache[fk]]}
    return None


NETWORK_HELPERS = ['c10_rplanar', 'c10_rmps', 'c10_color', 'c10_rprmps', 'c10_shared']
# further input classes (same helper protocol: cases(ctx), FAMILY, evaluate_input(meta)): the Y decoder on large
# lattices / extreme probabilities / every residual class, and decoder-object histories of every TN decoder
CLASS_HELPERS = ['c10_ybig', 'c10_hist', 'c10_calls']


def search(m):
    meta = m.get('meta')
    if not meta or 'family' not in meta:
        return None
    for name in NETWORK_HELPERS + CLASS_HELPERS:
        mod = importlib.import_module('qv.' + name)
        if meta.get('family') == getattr(mod, 'FAMILY', None):
            return mod.search(m) if hasattr(mod, 'search') else mod.evaluate_input(meta)
    return evaluate_input(meta)


def replay(ctx, path):
    body = json.load(open(path))
    bad = 0
    for v in body.get('violations', []):
        metas = []
        mm = v.get('first_mismatch')
        if mm and mm.get('meta'):
            metas.append(mm['meta'])
        c = v.get('counterexample') or {}
        if isinstance(c.get('input'), dict) and 'family' in c['input']:
            i = dict(c['input'])
            if 'config' in i:
                i['configs'] = [i['config']]
                i['dist'] = [float(x).hex() for x in i['dist']]
            metas.append(i)
        for meta in metas:
            mod = next((mm for mm in (importlib.import_module('qv.' + nm) for nm in NETWORK_HELPERS + CLASS_HELPERS)
                        if meta.get('family') == mm.FAMILY), None)
            r = mod.evaluate_input(meta) if mod is not None else evaluate_input(meta)
            print('replay', meta.get('family'), meta.get('size'), meta.get('syndrome', meta.get('sample')), '->',
                  str(r)[:1500])
            bad += bool(r)
    return 1 if bad else 0   # core.do_replay prints the VIOLATION line
