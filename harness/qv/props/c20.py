"""C20 — validation decides the code conditions exactly (qecsim.model.StabilizerCode.validate, logicals, DecodeResult)

Input classes (beyond random small codes and their single-operator corruptions):
  SIZE    the number of ROWS is an input: codes with more than 64 / 128 stabilizers (independent generators on n up to
          ~140 qubits built by sparse random Clifford circuits with tracked destabilizers, and over-complete stabilizer
          lists on ~10 qubits) and with more than 128 logical operators (k = 66), each with ONE corruption placed at every
          pair of row-index classes (first / last row, around every multiple of 8, 16, 32, 64, 128: same block, adjacent
          blocks, far apart) so that exactly one pair of rows violates exactly one condition.
  SHAPES  the PRESENTATION of the three matrices is an input: a user-defined subclass (`UserCode`: the five abstract
          properties and nothing else — `logicals` and `validate` are the base class's) returns stabilizers / logical_xs /
          logical_zs as 2-d matrices, 1 x 2n matrices, 1-d vectors (one stabilizer, k = 1: "numpy.array (1d or 2d)" in the
          interface documentation), in every integer dtype, Fortran-ordered, strided views, read-only.  Whatever the
          presentation, validate must give the verdict of the canonical 2-d int matrices, `logicals` must be the 2k x 2n
          stack, and the user's arrays must not be modified.  Lists / tuples are not numpy arrays (outside the documented
          return type) and are not used.
          bool arrays: "binary symplectic vector or matrix / numpy.array" does not exclude them; a mismatch there is
          reported under the stable key 'validate:bool-dtype' (BOOL_FORMS; QV_C20_BOOL=0 leaves the class out).
  REPEAT  the CALL HISTORY on one code object is an input: validate() is called 2-3 times on the SAME object (user-defined
          subclass and BasicCode; valid codes and codes breaking each of the three conditions), interleaved with
          accesses to stabilizers / logical_xs / logical_zs / logicals / n_k_d / label / repr and with the caller catching
          the error; EVERY call's verdict must be the model's and the code conditions' (a check that passed or raised
          once decides nothing about the next call's answer other than by the operators being the same).
  CALLS   the way a DecodeResult is constructed is an input: by keyword, positionally in the documented order
          (success, logical_commutations, recovery, custom_values) with every prefix length and every positional /
          keyword split, with explicit None arguments, and through eval(repr(result)); all 16 None / not-None
          combinations, success True and False, zero / non-zero recovery.  Constructible iff success or recovery is
          given, each value stored under the documented name, repr round trip gives the same four fields.
"""
import itertools
import json
import os

import numpy as np

from qv import gens
from qv.core import bits, mat

RULE = ('valid codes = random Clifford images of trivial [[n,k]] codes (k=1..3, n<=8) with generator mixing; each is '
        'also corrupted by every single-operator replacement class (random Pauli for a stabilizer / logical, swapped '
        'logical pair, swapped X/Z of one logical qubit, reversed order) plus arbitrary random matrices; SIZE: codes '
        'with > 64 / > 128 stabilizer rows (independent on n <= ~140 qubits, over-complete on ~10 qubits) and > 128 '
        'logical rows with exactly one violating pair of rows at every pair of row-index classes (first, last, around '
        'multiples of 8..128); SHAPES: user-defined subclass returning 1-d / 1x2n / 2-d arrays of every integer dtype, '
        'Fortran / strided / read-only, verdict and `logicals` equal those of the canonical matrices; BasicCode '
        'built from strings; REPEAT: validate() called 2-3 times on ONE code object (user subclass and BasicCode, valid '
        'and invalid in each of the three conditions) interleaved with property accesses, every call judged against the '
        'model and the code conditions; DecodeResult over all 16 None / not-None argument subsets x construction by '
        'keyword / positionally in the documented order (every positional-keyword split, trailing Nones dropped or '
        'explicit) / eval(repr(.)), success True and False, zero and non-zero recovery: constructible iff success or '
        'recovery given, values stored under the documented names, repr round trip; non-trivial = not the unmodified '
        'valid code')


_USER = []


def user_code_class():
    if not _USER:
        _USER.append(_make_user_code_class())
    return _USER[0]


def _make_user_code_class():
    from qecsim.model import StabilizerCode

    class UserCode(StabilizerCode):
        """what an extension author writes: the five abstract properties and nothing else; the matrix properties return
        the objects they were given, in whatever presentation"""

        def __init__(self, S, Lx, Lz, nkd, label='user'):
            self._S, self._Lx, self._Lz, self._nkd, self._label = S, Lx, Lz, nkd, label

        stabilizers = property(lambda self: self._S)
        logical_xs = property(lambda self: self._Lx)
        logical_zs = property(lambda self: self._Lz)
        n_k_d = property(lambda self: self._nkd)
        label = property(lambda self: self._label)
    return UserCode


# ------------------------------------------------------------------------------------------ presentations

INT_DTYPES = ('int64', 'int8', 'uint8', 'int16', 'uint16', 'int32', 'uint32', 'uint64')
LAYOUTS_2D = ('2d', 'fortran', 'strided', 'rowstrided', 'readonly')
LAYOUTS_1D = ('1d', '1d-strided', '1d-row', '1d-readonly')
BOOL_FORMS = os.environ.get('QV_C20_BOOL', '1') != '0'


def present(M, form):
    """the matrix M (list of 0/1 rows) as the numpy array a user's property might return; form = layout[:dtype]"""
    layout, _, dt = form.partition(':')
    dtype = np.dtype(dt or 'int64')
    A = np.array(M, dtype=int).astype(dtype)
    fill = True if dtype == np.dtype(bool) else 1
    if layout == '2d':
        return A
    if layout == 'fortran':
        return np.asfortranarray(A)
    if layout == 'strided':
        big = np.full((A.shape[0], 2 * A.shape[1]), fill, dtype=dtype); big[:, ::2] = A
        return big[:, ::2]
    if layout == 'rowstrided':
        big = np.full((2 * A.shape[0], A.shape[1]), fill, dtype=dtype); big[::2] = A
        return big[::2]
    if layout == 'readonly':
        A.setflags(write=False)
        return A
    assert len(M) == 1, 'a 1-d presentation needs a single operator'
    if layout == '1d':
        return A[0].copy()
    if layout == '1d-strided':
        big = np.full(2 * A.shape[1], fill, dtype=dtype); big[::2] = A[0]
        return big[::2]
    if layout == '1d-row':     # a row of a larger matrix (view)
        big = np.full((3, A.shape[1]), fill, dtype=dtype); big[1] = A[0]
        return big[1]
    if layout == '1d-readonly':
        v = A[0].copy(); v.setflags(write=False)
        return v
    raise ValueError(form)


def forms_for(M, dtypes):
    lay = LAYOUTS_2D + (LAYOUTS_1D if len(M) == 1 else ())
    return ['{}:{}'.format(l, d) for l in lay for d in dtypes]


def verdict_of(code):
    from qecsim.error import QecsimError
    try:
        code.validate()
        return 'ok'
    except QecsimError as ex:
        msg = str(ex)
        if 'mutually' in msg:
            return 'QecsimError:stabilizers'
        if 'commute with logicals' in msg:
            return 'QecsimError:stablogicals'
        if 'as expected' in msg:
            return 'QecsimError:logicals'
        return 'QecsimError:?' + msg
    except ValueError as ex:
        if 'array split does not result in an equal division' in str(ex):
            return 'ValueError:hsplit'
        return 'ValueError:' + str(ex)[:80]
    except Exception as ex:
        return type(ex).__name__ + ':' + str(ex)[:80]


def build(S, Lx, Lz, forms=None):
    """a user-defined code object over the given operators; forms = (form of S, of Lx, of Lz) or None (2-d int)"""
    fs = forms or ('2d', '2d', '2d')
    n = len((list(S) + list(Lx) + list(Lz))[0]) // 2
    return user_code_class()(present(S, fs[0]), present(Lx, fs[1]), present(Lz, fs[2]), (n, len(Lx), None))


def impl_validate(S, Lx, Lz, forms=None):
    return verdict_of(build(S, Lx, Lz, forms))


def logicals_of(code, rows, n):
    """wire value of code.logicals: the matrix when it is a (number of logical operators) x 2n array of 0/1, else a
    description"""
    try:
        L = code.logicals
    except Exception as ex:
        return type(ex).__name__ + ':' + str(ex)[:80]
    if not isinstance(L, np.ndarray) or L.ndim != 2 or L.shape != (rows, 2 * n):
        return 'not-2k-x-2n:{}:shape={}'.format(type(L).__name__, getattr(L, 'shape', None))
    if not np.isin(L, (0, 1)).all():
        return 'not-binary'
    return mat(L.astype(int))


def to_int(r):
    v = 0
    for x in r:
        v = (v << 1) | (1 if x else 0)
    return v


def spec_validate(S, Lx, Lz):
    """the property, evaluated directly (independent of model and code): commutation via the Pauli table
    (per qubit x_a z_b + z_a x_b, summed mod 2; rows packed into integers)"""
    rows = list(S) + list(Lx) + list(Lz)
    n = len(rows[0]) // 2
    mask = (1 << n) - 1

    def anti(a, b):
        return (((a >> n) & (b & mask)) ^ ((a & mask) & (b >> n))).bit_count() & 1
    Si = [to_int(r) for r in S]
    L = [to_int(r) for r in list(Lx) + list(Lz)]
    k = len(Lx)
    if any(anti(a, b) for a in Si for b in Si):
        return 'QecsimError:stabilizers'
    if any(anti(a, b) for a in Si for b in L):
        return 'QecsimError:stablogicals'
    if len(Lx) != len(Lz):
        return None  # outside the property's domain (unequal numbers of logical X and Z)
    for i, a in enumerate(L):
        for j, b in enumerate(L):
            want = 1 if abs(i - j) == k else 0
            if anti(a, b) != want:
                return 'QecsimError:logicals'
    return 'ok'


def violating_pairs(S, Lx, Lz):
    """for failing-input reports on large codes: which pairs of rows violate which condition"""
    rows = list(S) + list(Lx) + list(Lz)
    n = len(rows[0]) // 2
    mask = (1 << n) - 1
    anti = lambda a, b: (((a >> n) & (b & mask)) ^ ((a & mask) & (b >> n))).bit_count() & 1  # noqa: E731
    Si, L = [to_int(r) for r in S], [to_int(r) for r in list(Lx) + list(Lz)]
    k = len(Lx)
    out = {'stabilizer_rows_anticommuting': [[i, j] for i in range(len(Si)) for j in range(i + 1, len(Si))
                                             if anti(Si[i], Si[j])][:6],
           'stabilizer_row_vs_logical_row_anticommuting': [[i, j] for i in range(len(Si)) for j in range(len(L))
                                                           if anti(Si[i], L[j])][:6]}
    if len(Lx) == len(Lz):
        out['logical_rows_not_canonical'] = [[i, j] for i in range(len(L)) for j in range(i + 1, len(L))
                                             if anti(L[i], L[j]) != (1 if j - i == k else 0)][:6]
    return {k_: v for k_, v in out.items() if v}


# ------------------------------------------------------------------------------------------ SIZE: generators

def index_classes(m):
    """row indices that matter for anything processed in chunks / words: ends and both sides of multiples of 8..128"""
    c = {0, 1, m - 2, m - 1}
    for b in (8, 16, 32, 64, 128):
        for mult in range(b, m + 1, b):
            if mult == b or b >= 64:
                c |= {mult - 1, mult, mult + 1}
    return sorted(i for i in c if 0 <= i < m)


def pair_classes(rng, m, budget=None):
    """unordered pairs of index classes; with a budget: all pairs across the 64 / 128 block borders and the ends, the rest
    sampled"""
    I = index_classes(m)
    allp = [(i, j) for i in I for j in I if i < j]
    if budget is None or len(allp) <= budget:
        return allp
    core_i = [i for i in (0, 1, 63, 64, 65, 127, 128, 129, 255, 256, 257, 511, 512, 513, m - 2, m - 1) if 0 <= i < m]
    must = sorted({(i, j) for i in core_i for j in core_i if i < j} |
                  {(b - 1, b) for b in (8, 16, 32, 64, 128, 256, 512) if b < m} | {(0, b) for b in (8, 16, 32, 64, 128, 256, 512) if b < m})
    rest = [p for p in allp if p not in set(must)]
    return must + rng.sample(rest, max(0, min(len(rest), budget - len(must))))


def xor(a, b):
    return [x ^ y for x, y in zip(a, b)]


def code_with_destabilizers(rng, n, k, gates_per_qubit=6, mixing=2):
    """a valid [[n,k]] code with independent generators S (sparse random Clifford circuit: O(n) per gate and row, then
    sparse generator mixing and logicals multiplied by stabilizers) together with destabilizers D: D[j] anticommutes with
    S[j] and with nothing else among S, Lx, Lz"""
    S, Lx, Lz = gens.trivial_code(n, k)
    D = []
    for i in range(k, n):
        v = [0] * (2 * n); v[i] = 1; D.append(v)
    f = gens.random_clifford_cols(rng, n, gates_per_qubit * n)
    S, D, Lx, Lz = ([f(v) for v in M] for M in (S, D, Lx, Lz))
    m = len(S)
    if m > 1:
        for _ in range(mixing * m):
            i, j = rng.sample(range(m), 2)
            S[i] = xor(S[i], S[j]); D[j] = xor(D[j], D[i])
    for a in range(k):
        for L, P in ((Lx, Lz), (Lz, Lx)):
            if m and rng.random() < 0.5:
                j = rng.randrange(m)
                L[a] = xor(L[a], S[j]); D[j] = xor(D[j], P[a])
    return S, D, Lx, Lz


def overcomplete(rng, G, m, special, at):
    """m stabilizer rows over the generators G: row `at` is G[special], every other row is a random non-trivial product
    of the OTHER generators (so the destabilizer of G[special] anticommutes with row `at` only)"""
    others = [g for i, g in enumerate(G) if i != special]
    rows = []
    while len(rows) < m - 1:
        pick = [g for g in others if rng.random() < 0.5]
        if not pick:
            continue
        v = pick[0]
        for g in pick[1:]:
            v = xor(v, g)
        rows.append(v)
    rows.insert(at, G[special])
    return rows


def part_size(ctx, one):
    """SIZE: many rows.  Every case is a code in which exactly one pair of rows violates exactly one condition, the pair
    placed at a pair of row-index classes; the unmodified code is a case too."""
    rng = ctx.rng
    q = ctx.quick()
    # (a) independent generators on many qubits: stabilizer i times the destabilizer of stabilizer j
    configs = [(70, 2, None), (134, 3, 48)] if q else \
        [(66, 1, None), (70, 2, None), (97, 1, None), (131, 2, 120), (134, 3, 120), (142, 5, 100), (150, 4, 60)]
    for n, k, budget in configs:
        S, D, Lx, Lz = code_with_destabilizers(rng, n, k)
        m = len(S)
        tagk = 'size-independent n={} rows={}'.format(n, m)
        one(S, Lx, Lz, nontrivial=False, kind=tagk + ' valid')
        for i, j in pair_classes(rng, m, budget):
            if rng.random() < 0.5:
                i, j = j, i
            S2 = list(S); S2[i] = xor(S[i], D[j])
            one(S2, Lx, Lz, kind=tagk + ' one-pair', extra={'construction': 'stabilizer row {} multiplied by the '
                                                            'destabilizer of row {}: the only anticommuting pair of '
                                                            'stabilizers is rows {} and {}'.format(i, j, i, j)})
            ctx.count('size-pair-blocks64', '{}-{}'.format(min(i, j) // 64, max(i, j) // 64))
        # one stabilizer row anticommuting with one logical, at every row class (commutes with every other row)
        for i in index_classes(m):
            a = rng.randrange(k)
            S2 = list(S); S2[i] = xor(S[i], rng.choice((Lx, Lz))[a])
            one(S2, Lx, Lz, kind=tagk + ' row-vs-logical')
    # (b) over-complete stabilizer lists on few qubits: generator g at row j only, row i times the destabilizer of g
    # row counts beyond 256 / 512 too (block-wise implementations: remainder rows past the last full block)
    for n, k, m, bud in ([(10, 1, 70, None), (10, 1, 133, None), (12, 2, 141, None), (10, 1, 300, 90)] if q else
                         [(10, 1, 65, None), (10, 1, 70, None), (10, 1, 129, None), (10, 1, 133, None), (12, 2, 141, None),
                          (12, 1, 200, None), (13, 3, 260, None), (10, 1, 300, None), (11, 1, 523, 400)]):
        G, D, Lx, Lz = code_with_destabilizers(rng, n, k, mixing=4)
        tagk = 'size-overcomplete n={} rows={}'.format(n, m)
        first = True
        for i, j in pair_classes(rng, m, bud):
            if rng.random() < 0.5:
                i, j = j, i
            g = rng.randrange(len(G))
            S = overcomplete(rng, G, m, g, j)
            if first:
                one(S, Lx, Lz, nontrivial=False, kind=tagk + ' valid'); first = False
            S2 = list(S); S2[i] = xor(S[i], D[g])
            one(S2, Lx, Lz, kind=tagk + ' one-pair', extra={'construction': 'over-complete stabilizer list; rows {} and {} '
                                                            'are the only anticommuting pair'.format(i, j)})
            ctx.count('size-pair-blocks64', '{}-{}'.format(min(i, j) // 64, max(i, j) // 64))
        S = overcomplete(rng, G, m, 0, 0)
        for i in index_classes(m):
            a = rng.randrange(k)
            S2 = list(S); S2[i] = xor(S[i], rng.choice((Lx, Lz))[a])
            one(S2, Lx, Lz, kind=tagk + ' row-vs-logical')
    # (c) many logical operators: logical row p times the partner of row q -> rows p and q alone break the pairing
    for n, k, budget in ([(70, 66, 60)] if q else [(70, 66, 150), (135, 130, 60), (72, 33, None)]):
        S, D, Lx, Lz = code_with_destabilizers(rng, n, k)
        tagk = 'size-logicals n={} rows={}'.format(n, 2 * k)
        one(S, Lx, Lz, nontrivial=False, kind=tagk + ' valid')
        for p, qq in pair_classes(rng, 2 * k, budget):
            if rng.random() < 0.5:
                p, qq = qq, p
            L = [list(r) for r in Lx + Lz]
            L[p] = xor(L[p], L[(qq + k) % (2 * k)])
            one(S, L[:k], L[k:], kind=tagk + (' one-pair' if (qq - p) % k else ' zero-row'))
        for i in index_classes(len(S)):
            for p in rng.sample(index_classes(2 * k), 3):
                S2 = list(S); S2[i] = xor(S[i], (Lx + Lz)[p])
                one(S2, Lx, Lz, kind=tagk + ' row-vs-logical')


def shape_codes(rng, count):
    """small valid codes (single stabilizer, k = 1, and general) and single-operator corruptions of them"""
    out = []
    for _ in range(count):
        n, k = rng.choice([(2, 1), (2, 1), (3, 1), (4, 1), (5, 1), (3, 2), (4, 3), (4, 2), (5, 2), (6, 3)])
        S, Lx, Lz = gens.random_valid_code(rng, n, k)
        out.append((S, Lx, Lz, 'valid'))
        for which in ('S', 'Lx', 'Lz'):
            S2, X2, Z2 = [r[:] for r in S], [r[:] for r in Lx], [r[:] for r in Lz]
            tgt = {'S': S2, 'Lx': X2, 'Lz': Z2}[which]
            tgt[rng.randrange(len(tgt))] = gens.rand_bits(rng, 2 * n)
            out.append((S2, X2, Z2, 'replaced-' + which))
    return out


def check_presented(S, Lx, Lz, forms):
    """(verdict, logicals wire value, list of the user's arrays that were modified) for one presentation"""
    code = build(S, Lx, Lz, forms)
    held = [code.stabilizers, code.logical_xs, code.logical_zs]
    snap = [a.copy() for a in held]
    v = verdict_of(code)
    lg = logicals_of(code, len(Lx) + len(Lz), len(Lx[0]) // 2)
    v2 = verdict_of(code)
    if v2 != v:
        v = '{} then {}'.format(v, v2)
    touched = [nm for nm, a, b in zip(('stabilizers', 'logical_xs', 'logical_zs'), held, snap)
               if a.dtype != b.dtype or a.shape != b.shape or not np.array_equal(a, b)]
    return v, lg, touched


def part_shapes(ctx):
    rng = ctx.rng
    dts = INT_DTYPES + (('bool',) if BOOL_FORMS else ())
    for S, Lx, Lz, kind in shape_codes(rng, ctx.scale(24, 240)):
        spec = spec_validate(S, Lx, Lz)
        sS, sX, sZ = mat(S), mat(Lx), mat(Lz)
        fS, fX, fZ = forms_for(S, dts), forms_for(Lx, dts), forms_for(Lz, dts)
        triples = []
        for lay in LAYOUTS_2D + LAYOUTS_1D:          # the same layout for all three where possible
            for d in dts:
                t = tuple('{}:{}'.format(lay if (lay in LAYOUTS_2D or len(M) == 1) else '2d', d) for M in (S, Lx, Lz))
                triples.append(t)
        for f in fS:
            triples.append((f, '2d:int64', '2d:int64'))
        for f in fX:
            triples.append(('2d:int64', f, '2d:int64'))
        for f in fZ:
            triples.append(('2d:int64', '2d:int64', f))
        triples += [(rng.choice(fS), rng.choice(fX), rng.choice(fZ)) for _ in range(40)]
        for forms in dict.fromkeys(triples):
            v, lg, touched = check_presented(S, Lx, Lz, forms)
            isbool = any(f.endswith(':bool') for f in forms)
            ctx.count('shape-layouts', '/'.join(f.split(':')[0] for f in forms))
            ctx.count('shape-dtypes', '/'.join(f.split(':')[1] for f in forms))
            inp = {'S': sS, 'Lx': sX, 'Lz': sZ, 'forms': list(forms), 'validate': v, 'conditions': spec, 'kind': kind,
                   'presentation': 'user-defined StabilizerCode subclass whose stabilizers / logical_xs / logical_zs '
                                   'return numpy arrays in the layouts:dtypes ' + ', '.join(forms)}
            if isbool:
                # no correspondence case: a mismatch of this class is reported under its own key only
                if not agrees(v, spec) or lg != mat(Lx + Lz) or touched:
                    ctx.monitor_fail('validate / logicals differ from the code conditions when a matrix is a bool array',
                                     dict(inp, logicals=lg, arrays_modified=touched), key='validate:bool-dtype')
                ctx.evaluations += 1
                continue
            ctx.case('c20 validate {} {} {}'.format(sS, sX, sZ), v, nontrivial=True, meta={'forms': list(forms)})
            ctx.case('c20 logicals {} {}'.format(sX, sZ), lg, nontrivial=True, meta={'forms': list(forms)})
            if not agrees(v, spec):
                ctx.monitor_fail('validate verdict differs from the code conditions (same operators as a 2-d int matrix: '
                                 + impl_validate(S, Lx, Lz) + ')', inp)
            if lg != mat(Lx + Lz):
                ctx.monitor_fail('logicals is not the 2k x 2n stack of the logical Xs above the logical Zs',
                                 dict(inp, logicals=lg))
            if touched:
                ctx.monitor_fail('validate / logicals modified the arrays returned by the user\'s properties',
                                 dict(inp, arrays_modified=touched))


# ------------------------------------------------------------------------------------------ REPEAT: call histories

ACCESSES = ('stabilizers', 'logical_xs', 'logical_zs', 'logicals', 'n_k_d', 'label', 'repr')


def make_code(S, Lx, Lz, cls):
    if cls == 'basic':
        from qecsim.models.basic import BasicCode
        from qecsim import paulitools as pt
        ps = lambda M: tuple(pt.bsf_to_pauli(np.array(r)) for r in M)  # noqa: E731
        return BasicCode(ps(S), ps(Lx), ps(Lz))
    return build(S, Lx, Lz)


def run_history(S, Lx, Lz, cls, steps):
    """one code object, the steps applied in order; returns the verdict of every validate step (in order) and the
    first problem met in an access step"""
    code = make_code(S, Lx, Lz, cls)
    verdicts, problem = [], None
    for st in steps:
        if st == 'validate':
            verdicts.append(verdict_of(code))
            continue
        try:
            got = repr(code) if st == 'repr' else getattr(code, st)
            want = {'stabilizers': S, 'logical_xs': Lx, 'logical_zs': Lz, 'logicals': list(Lx) + list(Lz)}.get(st)
            if want is not None and np.asarray(got).tolist() != [list(r) for r in want] and problem is None:
                problem = '{} after {} validate() call(s) is not the matrix the code was built from'.format(st, len(verdicts))
        except Exception as ex:
            if problem is None:
                problem = 'access to {} raised {!r}'.format(st, ex)
    return verdicts, problem


def judge_history(S, Lx, Lz, cls, steps):
    """the property on one history: every validate() call gives the verdict of the code conditions"""
    spec = spec_validate(S, Lx, Lz)
    verdicts, problem = run_history(S, Lx, Lz, cls, steps)
    for i, v in enumerate(verdicts):
        if not agrees(v, spec):
            d = {'what': 'validate() call #{} of {} on ONE code object ({}) gives {} but the code conditions say {} '
                         '(verdicts of the calls in order: {})'.format(i + 1, len(verdicts), 'BasicCode' if cls == 'basic'
                                                                     else 'user-defined StabilizerCode subclass', v, spec,
                                                                     verdicts),
                 'S': mat(S), 'Lx': mat(Lx), 'Lz': mat(Lz), 'class': cls, 'history': list(steps), 'verdicts': verdicts,
                 'conditions': spec}
            d.update(violating_pairs(S, Lx, Lz))
            return d, verdicts
    if problem:
        return {'what': problem, 'S': mat(S), 'Lx': mat(Lx), 'Lz': mat(Lz), 'class': cls, 'history': list(steps)}, verdicts
    return None, verdicts


def part_repeat(ctx):
    rng = ctx.rng
    seen_fail = False
    for S, Lx, Lz, kind in shape_codes(rng, ctx.scale(60, 600)):
        for cls in ('user', 'basic'):
            steps = []
            for _ in range(rng.choice([2, 2, 3])):
                steps += rng.sample(ACCESSES, rng.choice([0, 0, 1, 2]))
                steps.append('validate')
            steps += rng.sample(ACCESSES, rng.choice([0, 1]))
            bad, verdicts = judge_history(S, Lx, Lz, cls, steps)
            sS, sX, sZ = mat(S), mat(Lx), mat(Lz)
            for i, v in enumerate(verdicts):
                ctx.case('c20 validate {} {} {}'.format(sS, sX, sZ), v, nontrivial=True,
                         meta={'history': steps, 'call': i, 'class': cls, 'kind': kind})
            ctx.count('repeat-calls', '{} x{}'.format(cls, len(verdicts)))
            ctx.count('repeat-verdicts', ' / '.join(verdicts))
            if bad and not seen_fail:
                seen_fail = True
                what = bad.pop('what')
                ctx.monitor_fail(what, bad)


# ------------------------------------------------------------------------------------------ CALLS: DecodeResult

DR_ORDER = ('success', 'logical_commutations', 'recovery', 'custom_values')   # documented order (model.py docstring)


def dr_values(variant):
    return {'success': [True, False][variant % 2], 'logical_commutations': np.array([1, 0]),
            'recovery': [np.array([0, 1, 1, 0]), np.zeros(4, dtype=int), np.array([0, 0])][variant % 3],
            'custom_values': np.array([3])}


def dr_calls(given):
    """every way of writing DecodeResult(...) for the set `given` of non-None arguments: (description, n positional,
    explicit Nones?)"""
    last = max([DR_ORDER.index(f) for f in given], default=-1)
    out = []
    for npos in range(0, 5):
        for explicit in (False, True):
            if npos > last + 1 and not explicit:
                continue        # positional Nones beyond the last given argument are explicit by nature
            out.append((npos, explicit))
    return out


def dr_build(given, npos, explicit, variant):
    """returns (source text of the call, args, kwargs)"""
    vals = dr_values(variant)
    full = [vals[f] if f in given else None for f in DR_ORDER]
    args = full[:npos]
    kwargs = {f: v for f, v in zip(DR_ORDER[npos:], full[npos:]) if explicit or v is not None}
    txt = 'DecodeResult({})'.format(', '.join([repr(a) for a in args] + ['{}={!r}'.format(k, v) for k, v in kwargs.items()]))
    return txt, args, kwargs, full


def same_value(a, b):
    if a is None or b is None:
        return a is None and b is None
    if isinstance(a, np.ndarray) or isinstance(b, np.ndarray):
        return isinstance(a, np.ndarray) and isinstance(b, np.ndarray) and a.shape == b.shape and np.array_equal(a, b)
    return type(a) is type(b) and a == b


def dr_eval(given, npos, explicit, variant, via_repr=False):
    """(model wire value, failure description or None, call text) for one construction"""
    from qecsim.model import DecodeResult
    from qecsim.error import QecsimError
    txt, args, kwargs, full = dr_build(given, npos, explicit, variant)
    should = ('success' in given) or ('recovery' in given)
    try:
        r = DecodeResult(*args, **kwargs)
    except QecsimError:
        return '0', (None if not should else 'raises QecsimError although {} given'.format(
            ' and '.join(f for f in ('success', 'recovery') if f in given) + ' is')), txt
    except Exception as ex:
        return type(ex).__name__, 'raises {!r}'.format(ex), txt
    if not should:
        return '1', 'is built although neither success nor recovery is given', txt
    wrong = [f for f, v in zip(DR_ORDER, full) if getattr(r, f, 'missing') is not v]
    if wrong:
        return 'fields-not-stored', 'stores {} (documented argument order: {})'.format(
            ', '.join('{}={!r}'.format(f, getattr(r, f, 'missing')) for f in wrong), ', '.join(DR_ORDER)), txt
    if via_repr:
        src = repr(r)
        try:
            r2 = eval(src, {'DecodeResult': DecodeResult, 'array': np.array, 'True': True, 'False': False, 'None': None})
        except QecsimError:
            return 'repr-0', 'eval(repr(r)) raises QecsimError for r = {} with repr {}'.format(txt, src), src
        except Exception as ex:
            return 'repr-' + type(ex).__name__, 'eval(repr(r)) raises {!r}; repr {}'.format(ex, src), src
        wrong = [f for f in DR_ORDER if not same_value(getattr(r2, f, 'missing'), getattr(r, f))]
        if wrong:
            return 'repr-differs', 'eval(repr(r)) differs from r in {}: repr {} gives {}'.format(
                ', '.join(wrong), src, ', '.join('{}={!r}'.format(f, getattr(r2, f, 'missing')) for f in wrong)), src
    return '1', None, txt


def part_decode_result(ctx):
    n = 0
    for bits_ in itertools.product([False, True], repeat=4):
        given = tuple(f for f, b in zip(DR_ORDER, bits_) if b)
        for npos, explicit in dr_calls(given):
            for via_repr in (False, True):
                variant = n; n += 1
                v, bad, txt = dr_eval(given, npos, explicit, variant, via_repr)
                ctx.case('c20 dr {} {}'.format(int('success' in given), int('recovery' in given)), v, nontrivial=True,
                         meta={'dr': [list(given), npos, explicit, variant, via_repr]})
                ctx.count('decode-result', '{} positional{}{}'.format(npos, ' +None kwargs' if explicit else '',
                                                                      ' repr' if via_repr else ''))
                ctx.count('decode-result-verdict', v)
                if bad:
                    ctx.monitor_fail('{} {}'.format(txt, bad), {'call': txt, 'given': list(given), 'positional': npos,
                                                                'documented_order': list(DR_ORDER), 'via_repr': via_repr,
                                                                'dr': [list(given), npos, explicit, variant, via_repr]},
                                     key=None)
                    return


def run(ctx):
    from qecsim.model import DecodeResult  # noqa: F401
    from qecsim.error import QecsimError
    from qecsim.models.basic import BasicCode, FiveQubitCode, SteaneCode
    from qecsim import paulitools as pt
    rng = ctx.rng

    def one(S, Lx, Lz, nontrivial=True, kind='', extra=None):
        if not len(S) or not len(Lx) or not len(Lz):
            return
        code = build(S, Lx, Lz)
        impl = verdict_of(code)
        sS, sX, sZ = mat(S), mat(Lx), mat(Lz)
        ctx.case('c20 validate {} {} {}'.format(sS, sX, sZ), impl, nontrivial=nontrivial, meta={'kind': kind})
        ctx.count('kind', kind)
        ctx.count('verdict', impl)
        # the property itself, directly on the real code (monitor)
        spec = spec_validate(S, Lx, Lz)
        if not agrees(impl, spec):
            inp = {'S': sS, 'Lx': sX, 'Lz': sZ, 'validate': impl, 'conditions': spec, 'kind': kind,
                   'n_qubits': len(S[0]) // 2, 'stabilizer_rows': len(S), 'logical_rows': len(Lx) + len(Lz)}
            inp.update(violating_pairs(S, Lx, Lz))
            inp.update(extra or {})
            ctx.monitor_fail('validate verdict differs from the code conditions', inp)
        lg = logicals_of(code, len(Lx) + len(Lz), len(Lx[0]) // 2)
        ctx.case('c20 logicals {} {}'.format(sX, sZ), lg, nontrivial=False)
        if lg != mat(list(Lx) + list(Lz)):
            ctx.monitor_fail('logicals is not the logical Xs stacked above the logical Zs',
                             {'Lx': sX, 'Lz': sZ, 'logicals': lg[:400], 'kind': kind})

    for _ in range(ctx.scale(150, 1500)):
        k = rng.choice([1, 1, 2, 2, 3])
        n = rng.randint(k + 1, 8)
        S, Lx, Lz = gens.random_valid_code(rng, n, k)
        ctx.count('n_k', '{}_{}'.format(n, k))
        one(S, Lx, Lz, nontrivial=False, kind='valid')
        rp = lambda: gens.rand_bits(rng, 2 * n)  # noqa: E731
        # every single-operator corruption class
        for i in range(len(S)):
            S2 = [r[:] for r in S]; S2[i] = rp(); one(S2, Lx, Lz, kind='stab-replaced')
        for i in range(k):
            L2 = [r[:] for r in Lx]; L2[i] = rp(); one(S, L2, Lz, kind='lx-replaced')
            L2 = [r[:] for r in Lz]; L2[i] = rp(); one(S, Lx, L2, kind='lz-replaced')
            # swap X/Z of one logical qubit (still canonical up to relabelling: must pass)
            X2 = [r[:] for r in Lx]; Z2 = [r[:] for r in Lz]; X2[i], Z2[i] = Z2[i], X2[i]
            one(S, X2, Z2, kind='xz-swapped-one')
        if k >= 2:
            i, j = rng.sample(range(k), 2)
            X2 = [r[:] for r in Lx]; X2[i], X2[j] = X2[j], X2[i]
            one(S, X2, Lz, kind='lx-pair-swapped')
            one(S, Lx[::-1], Lz[::-1], kind='both-reversed')
        one(S, Lz, Lx, kind='xs-zs-exchanged')
        # logical multiplied by another logical (breaks canonical pairing when k>=2, else not)
        if k >= 2:
            X2 = [r[:] for r in Lx]; X2[0] = [a ^ b for a, b in zip(Lx[0], Lx[1])]
            one(S, X2, Lz, kind='lx0*=lx1')
        # unequal number of logical xs/zs
        if k >= 2:
            one(S, Lx[:-1], Lz, kind='odd-logicals')
    for _ in range(ctx.scale(150, 1500)):  # arbitrary matrices
        n = rng.randint(1, 5); k = rng.randint(1, 2)
        d = rng.choice([0.1, 0.5])
        S = [gens.rand_bits(rng, 2 * n, d) for _ in range(rng.randint(1, 4))]
        Lx = [gens.rand_bits(rng, 2 * n, d) for _ in range(k)]
        Lz = [gens.rand_bits(rng, 2 * n, d) for _ in range(k)]
        one(S, Lx, Lz, kind='arbitrary')
    part_size(ctx, one)
    part_shapes(ctx)
    # twisted identity vs the code's construction
    for m in range(0, 13, 2):
        i1, i2 = np.hsplit(np.identity(m, dtype=int), 2)
        ctx.case('c20 twisted {}'.format(m), mat(np.hstack((i2, i1))), nontrivial=m > 0)
    # BasicCode from strings
    for cls in (FiveQubitCode, SteaneCode):
        c = cls()
        one(c.stabilizers.tolist(), c.logical_xs.tolist(), c.logical_zs.tolist(), nontrivial=False, kind='basic')
    for _ in range(ctx.scale(30, 300)):
        k = rng.choice([1, 2]); n = rng.randint(k + 1, 6)
        S, Lx, Lz = gens.random_valid_code(rng, n, k)
        ps = lambda M: tuple(pt.bsf_to_pauli(np.array(r)) for r in M)  # noqa: E731
        bc = BasicCode(ps(S), ps(Lx), ps(Lz))
        ctx.case('c20 logicals {} {}'.format(mat(Lx), mat(Lz)), mat(bc.logicals), nontrivial=True)
        try:
            bc.validate(); v = 'ok'
        except QecsimError:
            v = 'QecsimError'
        ctx.case('c20 validate {} {} {}'.format(mat(S), mat(Lx), mat(Lz)), v, nontrivial=True)
        if bc.n_k_d != (n, k, None):
            ctx.monitor_fail('BasicCode n_k_d default wrong', {'S': mat(S), 'nkd': bc.n_k_d})
    # BasicCode histories: codes built one after another in this process that differ in exactly one of stabilizers /
    # logical xs / logical zs (same n_k_d, same label) — the cached matrix properties of one object must never be
    # served to another (BasicCode keys its lru_cache'd properties on __eq__/__hash__)
    def bc_verdict(bc):
        try:
            bc.validate(); return 'ok'
        except QecsimError as ex:
            msg = str(ex)
            return ('QecsimError:stabilizers' if 'mutually' in msg else 'QecsimError:stablogicals'
                    if 'commute with logicals' in msg else 'QecsimError:logicals' if 'as expected' in msg else
                    'QecsimError:?')
    ps = lambda M: tuple(pt.bsf_to_pauli(np.array(r)) for r in M)  # noqa: E731
    for _ in range(ctx.scale(40, 400)):
        k = rng.choice([1, 1, 2]); n = rng.randint(k + 1, 6)
        S, Lx, Lz = gens.random_valid_code(rng, n, k)
        variants = [(S, Lx, Lz, 'base')]
        for which in ('S', 'Lx', 'Lz'):
            for _r in range(2):
                S2, X2, Z2 = [r[:] for r in S], [r[:] for r in Lx], [r[:] for r in Lz]
                tgt = {'S': S2, 'Lx': X2, 'Lz': Z2}[which]
                tgt[rng.randrange(len(tgt))] = gens.rand_bits(rng, 2 * n)
                variants.append((S2, X2, Z2, 'only-' + which))
        rng.shuffle(variants)
        nkd, label = (n, k, rng.choice([None, 3])), rng.choice([None, 'same-label'])
        for (S2, X2, Z2, kind) in variants + variants[:2]:
            bc = BasicCode(ps(S2), ps(X2), ps(Z2), n_k_d=nkd, label=label)
            v = bc_verdict(bc)
            ctx.count('basic-history', kind)
            ctx.case('c20 validate {} {} {}'.format(mat(S2), mat(X2), mat(Z2)), v, nontrivial=True,
                     meta={'basic_history': kind})
            got = (bc.stabilizers.tolist(), bc.logical_xs.tolist(), bc.logical_zs.tolist(), bc.logicals.tolist())
            if got != (S2, X2, Z2, X2 + Z2):
                ctx.monitor_fail('BasicCode matrices differ from the operators it was built from (after other codes '
                                 'were built in the same process)',
                                 {'S': mat(S2), 'Lx': mat(X2), 'Lz': mat(Z2), 'stabilizers': mat(got[0]),
                                  'logical_xs': mat(got[1]), 'logical_zs': mat(got[2]), 'logicals': mat(got[3]),
                                  'history': [kk for (_, _, _, kk) in variants]})
            spec = spec_validate(S2, X2, Z2)
            if spec is not None and (spec == 'ok') != (v == 'ok'):
                ctx.monitor_fail('BasicCode.validate verdict differs from the code conditions (history of codes '
                                 'differing in one operator set)',
                                 {'S': mat(S2), 'Lx': mat(X2), 'Lz': mat(Z2), 'validate': v, 'conditions': spec,
                                  'history': [kk for (_, _, _, kk) in variants]})
    part_repeat(ctx)
    part_decode_result(ctx)
    return ctx.finish(RULE, search=search)


def agrees(v, spec):
    """verdict v of the real code vs the conditions: passes iff they hold, raises QecsimError iff they do not"""
    return spec is None or (v == 'ok') == (spec == 'ok') and (v == 'ok' or v.startswith('QecsimError:'))


def search(m):
    toks = m['op'].split()
    forms = (m.get('meta') or {}).get('forms')
    P = lambda s: [[int(c) for c in r] for r in s.split('/')]  # noqa: E731
    meta = m.get('meta') or {}
    if toks[1] == 'validate' and meta.get('history'):
        bad, _ = judge_history(P(toks[2]), P(toks[3]), P(toks[4]), meta.get('class', 'user'), meta['history'])
        return bad
    if toks[1] == 'validate' and ' then ' in str(m.get('impl')):   # two calls on one object gave two verdicts
        bad, _ = judge_history(P(toks[2]), P(toks[3]), P(toks[4]), 'user', ['validate', 'logicals', 'validate'])
        if bad:
            return bad
    if toks[1] == 'validate':
        S, Lx, Lz = P(toks[2]), P(toks[3]), P(toks[4])
        impl = impl_validate(S, Lx, Lz, forms)
        spec = spec_validate(S, Lx, Lz)
        if not agrees(impl, spec):
            d = {'what': 'validate passes/raises contrary to the code conditions', 'S': toks[2], 'Lx': toks[3],
                 'Lz': toks[4], 'validate': impl, 'conditions': spec, 'n_qubits': len(S[0]) // 2,
                 'stabilizer_rows': len(S), 'logical_rows': len(Lx) + len(Lz)}
            d.update(violating_pairs(S, Lx, Lz))
            if forms:
                d['forms'] = forms
            return d
    if toks[1] == 'logicals':
        Lx, Lz = P(toks[2]), P(toks[3])
        got = logicals_of(build(Lx, Lx, Lz, forms), len(Lx) + len(Lz), len(Lx[0]) // 2)
        if got != mat(Lx + Lz):
            d = {'what': 'logicals is not xs stacked above zs', 'Lx': toks[2], 'Lz': toks[3], 'logicals': got}
            if forms:
                d['forms'] = forms
            return d
    if toks[1] == 'dr' and meta.get('dr'):
        given, npos, explicit, variant, via_repr = meta['dr']
        v, bad, txt = dr_eval(tuple(given), npos, explicit, variant, via_repr)
        return {'what': '{} {}'.format(txt, bad), 'call': txt, 'documented_order': list(DR_ORDER)} if bad else None
    if toks[1] == 'dr':
        return {'what': 'DecodeResult constructibility differs from "success or recovery given"', 'op': m['op'],
                'impl': m['impl']}
    return None


def replay(ctx, path):
    body = json.load(open(path)); bad = 0
    P = lambda s: [[int(ch) for ch in r] for r in s.split('/')]  # noqa: E731
    for v in body.get('violations', []):
        mm = v.get('first_mismatch')
        if mm:
            r = search(mm); print('replay', mm['op'][:120], '->', str(r)[:600]); bad += bool(r)
        c = v.get('counterexample')
        i = (c or {}).get('input') or c or {}
        if i.get('history') and i.get('S'):
            r, vs = judge_history(P(i['S']), P(i['Lx']), P(i['Lz']), i.get('class', 'user'), i['history'])
            print('replay history {} -> verdicts {} {}'.format(i['history'], vs, (r or {}).get('what', 'as the conditions')))
            bad += bool(r); continue
        if i.get('dr'):
            given, npos, explicit, variant, via_repr = i['dr']
            vv, r, txt = dr_eval(tuple(given), npos, explicit, variant, via_repr)
            print('replay', txt, '->', r or 'as documented'); bad += bool(r)
            continue
        if i.get('Lx') and i.get('Lz'):
            forms = i.get('forms')
            Lx, Lz = P(i['Lx']), P(i['Lz'])
            if i.get('S'):
                S = P(i['S'])
                impl = impl_validate(S, Lx, Lz, forms); spec = spec_validate(S, Lx, Lz)
                print('replay counterexample: validate={} conditions={}{}'.format(
                    impl, spec, ' forms=' + ','.join(forms) if forms else ''))
                bad += not agrees(impl, spec)
            got = logicals_of(build(i.get('S') and P(i['S']) or Lx, Lx, Lz, forms), len(Lx) + len(Lz), len(Lx[0]) // 2)
            if got != mat(Lx + Lz):
                print('replay counterexample: logicals={}'.format(got[:200])); bad += 1
    return 1 if bad else 0
