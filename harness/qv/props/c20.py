"""C20 — validation decides the code conditions exactly (qecsim.model.StabilizerCode.validate, logicals, DecodeResult)"""
import itertools
import json

import numpy as np

from qv import gens
from qv.core import bits, mat

RULE = ('valid codes = random Clifford images of trivial [[n,k]] codes (k=1..3, n<=8) with generator mixing; each is '
        'also corrupted by every single-operator replacement class (random Pauli for a stabilizer / logical, swapped '
        'logical pair, swapped X/Z of one logical qubit, reversed order) plus arbitrary random matrices; BasicCode '
        'built from strings; DecodeResult over all 16 argument subsets; non-trivial = not the unmodified valid code')


def impl_validate(S, Lx, Lz):
    from qecsim.error import QecsimError
    code = gens.MatCode(S, Lx, Lz)
    try:
        code.validate()
        return 'ok'
    except QecsimError as ex:
        msg = str(ex)
        if 'mutually' in msg:
            return 'QecsimError:stabilizers'
        if 'commute with logicals' in msg:
            return 'QecsimError:stablogicals'
        if 'as expected' in msg:
            return 'QecsimError:logicals'
        return 'QecsimError:?' + msg
    except ValueError:
        return 'ValueError:hsplit'
    except Exception as ex:
        return type(ex).__name__


def spec_validate(S, Lx, Lz):
    """the property, evaluated directly (independent of model and code): commutation via the Pauli table"""
    def anti(a, b):
        n = len(a) // 2
        return sum((a[i] & b[n + i]) ^ (a[n + i] & b[i]) for i in range(n)) % 2
    L = list(Lx) + list(Lz)
    k = len(Lx)
    if any(anti(a, b) for a in S for b in S):
        return 'QecsimError:stabilizers'
    if any(anti(a, b) for a in S for b in L):
        return 'QecsimError:stablogicals'
    if len(Lx) != len(Lz):
        return None  # outside the property's domain (unequal numbers of logical X and Z)
    for i, a in enumerate(L):
        for j, b in enumerate(L):
            want = 1 if abs(i - j) == k else 0
            if anti(a, b) != want:
                return 'QecsimError:logicals'
    return 'ok'


def run(ctx):
    from qecsim.model import DecodeResult
    from qecsim.error import QecsimError
    from qecsim.models.basic import BasicCode, FiveQubitCode, SteaneCode
    from qecsim import paulitools as pt
    rng = ctx.rng

    def one(S, Lx, Lz, nontrivial=True, kind=''):
        if not len(S) or not len(Lx) or not len(Lz):
            return
        impl = impl_validate(S, Lx, Lz)
        ctx.case('c20 validate {} {} {}'.format(mat(S), mat(Lx), mat(Lz)), impl, nontrivial=nontrivial,
                 meta={'S': mat(S), 'Lx': mat(Lx), 'Lz': mat(Lz)})
        ctx.count('kind', kind)
        ctx.count('verdict', impl)
        # the property itself, directly on the real code (monitor)
        spec = spec_validate(S, Lx, Lz)
        if spec is not None and spec != impl and not (spec.startswith('QecsimError') and impl.startswith('QecsimError')):
            ctx.monitor_fail('validate verdict differs from the code conditions',
                             {'S': mat(S), 'Lx': mat(Lx), 'Lz': mat(Lz), 'validate': impl, 'conditions': spec})
        code = gens.MatCode(S, Lx, Lz)
        ctx.case('c20 logicals {} {}'.format(mat(Lx), mat(Lz)), mat(code.logicals), nontrivial=False)

    for _ in range(ctx.scale(150, 1500)):
        k = rng.choice([1, 1, 2, 2, 3])
        n = rng.randint(k + 1, 8)
        S, Lx, Lz = gens.random_valid_code(rng, n, k)
        ctx.count('n_k', '{}_{}'.format(n, k))
        one(S, Lx, Lz, nontrivial=False, kind='valid')
        rp = lambda: gens.rand_bits(rng, 2 * n)  # noqa: E731
        # every single-operator corruption class
        for i in range(len(S)):
            S2 = [r[:] for r in S]; S2[i] = rp(); one(S2, Lx, Lz, kind='stab-replaced')
        for i in range(k):
            L2 = [r[:] for r in Lx]; L2[i] = rp(); one(S, L2, Lz, kind='lx-replaced')
            L2 = [r[:] for r in Lz]; L2[i] = rp(); one(S, Lx, L2, kind='lz-replaced')
            # swap X/Z of one logical qubit (still canonical up to relabelling: must pass)
            X2 = [r[:] for r in Lx]; Z2 = [r[:] for r in Lz]; X2[i], Z2[i] = Z2[i], X2[i]
            one(S, X2, Z2, kind='xz-swapped-one')
        if k >= 2:
            i, j = rng.sample(range(k), 2)
            X2 = [r[:] for r in Lx]; X2[i], X2[j] = X2[j], X2[i]
            one(S, X2, Lz, kind='lx-pair-swapped')
            one(S, Lx[::-1], Lz[::-1], kind='both-reversed')
        one(S, Lz, Lx, kind='xs-zs-exchanged')
        # logical multiplied by another logical (breaks canonical pairing when k>=2, else not)
        if k >= 2:
            X2 = [r[:] for r in Lx]; X2[0] = [a ^ b for a, b in zip(Lx[0], Lx[1])]
            one(S, X2, Lz, kind='lx0*=lx1')
        # unequal number of logical xs/zs
        if k >= 2:
            one(S, Lx[:-1], Lz, kind='odd-logicals')
    for _ in range(ctx.scale(150, 1500)):  # arbitrary matrices
        n = rng.randint(1, 5); k = rng.randint(1, 2)
        d = rng.choice([0.1, 0.5])
        S = [gens.rand_bits(rng, 2 * n, d) for _ in range(rng.randint(1, 4))]
        Lx = [gens.rand_bits(rng, 2 * n, d) for _ in range(k)]
        Lz = [gens.rand_bits(rng, 2 * n, d) for _ in range(k)]
        one(S, Lx, Lz, kind='arbitrary')
    # twisted identity vs the code's construction
    for m in range(0, 13, 2):
        i1, i2 = np.hsplit(np.identity(m, dtype=int), 2)
        ctx.case('c20 twisted {}'.format(m), mat(np.hstack((i2, i1))), nontrivial=m > 0)
    # BasicCode from strings
    for cls in (FiveQubitCode, SteaneCode):
        c = cls()
        one(c.stabilizers.tolist(), c.logical_xs.tolist(), c.logical_zs.tolist(), nontrivial=False, kind='basic')
    for _ in range(ctx.scale(30, 300)):
        k = rng.choice([1, 2]); n = rng.randint(k + 1, 6)
        S, Lx, Lz = gens.random_valid_code(rng, n, k)
        ps = lambda M: tuple(pt.bsf_to_pauli(np.array(r)) for r in M)  # noqa: E731
        bc = BasicCode(ps(S), ps(Lx), ps(Lz))
        ctx.case('c20 logicals {} {}'.format(mat(Lx), mat(Lz)), mat(bc.logicals), nontrivial=True)
        try:
            bc.validate(); v = 'ok'
        except QecsimError:
            v = 'QecsimError'
        ctx.case('c20 validate {} {} {}'.format(mat(S), mat(Lx), mat(Lz)), v, nontrivial=True)
        if bc.n_k_d != (n, k, None):
            ctx.monitor_fail('BasicCode n_k_d default wrong', {'S': mat(S), 'nkd': bc.n_k_d})
    # BasicCode histories: codes built one after another in this process that differ in exactly one of stabilizers /
    # logical xs / logical zs (same n_k_d, same label) — the cached matrix properties of one object must never be
    # served to another (BasicCode keys its lru_cache'd properties on __eq__/__hash__)
    def bc_verdict(bc):
        try:
            bc.validate(); return 'ok'
        except QecsimError as ex:
            msg = str(ex)
            return ('QecsimError:stabilizers' if 'mutually' in msg else 'QecsimError:stablogicals'
                    if 'commute with logicals' in msg else 'QecsimError:logicals' if 'as expected' in msg else
                    'QecsimError:?')
    ps = lambda M: tuple(pt.bsf_to_pauli(np.array(r)) for r in M)  # noqa: E731
    for _ in range(ctx.scale(40, 400)):
        k = rng.choice([1, 1, 2]); n = rng.randint(k + 1, 6)
        S, Lx, Lz = gens.random_valid_code(rng, n, k)
        variants = [(S, Lx, Lz, 'base')]
        for which in ('S', 'Lx', 'Lz'):
            for _r in range(2):
                S2, X2, Z2 = [r[:] for r in S], [r[:] for r in Lx], [r[:] for r in Lz]
                tgt = {'S': S2, 'Lx': X2, 'Lz': Z2}[which]
                tgt[rng.randrange(len(tgt))] = gens.rand_bits(rng, 2 * n)
                variants.append((S2, X2, Z2, 'only-' + which))
        rng.shuffle(variants)
        nkd, label = (n, k, rng.choice([None, 3])), rng.choice([None, 'same-label'])
        for (S2, X2, Z2, kind) in variants + variants[:2]:
            bc = BasicCode(ps(S2), ps(X2), ps(Z2), n_k_d=nkd, label=label)
            v = bc_verdict(bc)
            ctx.count('basic-history', kind)
            ctx.case('c20 validate {} {} {}'.format(mat(S2), mat(X2), mat(Z2)), v, nontrivial=True,
                     meta={'basic_history': kind})
            got = (bc.stabilizers.tolist(), bc.logical_xs.tolist(), bc.logical_zs.tolist(), bc.logicals.tolist())
            if got != (S2, X2, Z2, X2 + Z2):
                ctx.monitor_fail('BasicCode matrices differ from the operators it was built from (after other codes '
                                 'were built in the same process)',
                                 {'S': mat(S2), 'Lx': mat(X2), 'Lz': mat(Z2), 'stabilizers': mat(got[0]),
                                  'logical_xs': mat(got[1]), 'logical_zs': mat(got[2]), 'logicals': mat(got[3]),
                                  'history': [kk for (_, _, _, kk) in variants]})
            spec = spec_validate(S2, X2, Z2)
            if spec is not None and (spec == 'ok') != (v == 'ok'):
                ctx.monitor_fail('BasicCode.validate verdict differs from the code conditions (history of codes '
                                 'differing in one operator set)',
                                 {'S': mat(S2), 'Lx': mat(X2), 'Lz': mat(Z2), 'validate': v, 'conditions': spec,
                                  'history': [kk for (_, _, _, kk) in variants]})
    # DecodeResult over all 16 argument subsets
    for sg, lg, rg, cg in itertools.product([False, True], repeat=4):
        kw = {}
        if sg: kw['success'] = rng.choice([True, False])
        if lg: kw['logical_commutations'] = np.array([1, 0])
        if rg: kw['recovery'] = np.array([0, 1, 1, 0])
        if cg: kw['custom_values'] = np.array([3])
        try:
            r = DecodeResult(**kw)
            ok = all(getattr(r, f) is kw.get(f) for f in
                     ('success', 'logical_commutations', 'recovery', 'custom_values'))
            v = '1' if ok else 'fields-not-stored'
        except QecsimError:
            v = '0'
        ctx.case('c20 dr {} {}'.format(int(sg), int(rg)), v, nontrivial=True)
    return ctx.finish(RULE, search=search)


def search(m):
    toks = m['op'].split()
    if toks[1] == 'validate':
        P = lambda s: [[int(c) for c in r] for r in s.split('/')]  # noqa: E731
        S, Lx, Lz = P(toks[2]), P(toks[3]), P(toks[4])
        impl = impl_validate(S, Lx, Lz)
        spec = spec_validate(S, Lx, Lz)
        if spec is not None and (spec == 'ok') != (impl == 'ok'):
            return {'what': 'validate passes/raises contrary to the code conditions', 'S': toks[2], 'Lx': toks[3],
                    'Lz': toks[4], 'validate': impl, 'conditions': spec}
    if toks[1] == 'logicals':
        P = lambda s: [[int(c) for c in r] for r in s.split('/')]  # noqa: E731
        Lx, Lz = P(toks[2]), P(toks[3])
        got = gens.MatCode(Lx, Lx, Lz).logicals.tolist()
        if got != Lx + Lz:
            return {'what': 'logicals is not xs stacked above zs', 'Lx': toks[2], 'Lz': toks[3], 'logicals': mat(got)}
    if toks[1] == 'dr':
        return {'what': 'DecodeResult constructibility differs from "success or recovery given"', 'op': m['op'],
                'impl': m['impl']}
    return None


def replay(ctx, path):
    body = json.load(open(path)); bad = 0
    for v in body.get('violations', []):
        mm = v.get('first_mismatch')
        if mm:
            r = search(mm); print('replay', mm['op'][:120], '->', r); bad += bool(r)
        c = v.get('counterexample')
        if c and 'input' in c and 'S' in c['input']:
            P = lambda s: [[int(ch) for ch in r] for r in s.split('/')]  # noqa: E731
            i = c['input']; impl = impl_validate(P(i['S']), P(i['Lx']), P(i['Lz']))
            spec = spec_validate(P(i['S']), P(i['Lx']), P(i['Lz']))
            print('replay counterexample: validate={} conditions={}'.format(impl, spec)); bad += (impl != spec)
    return 1 if bad else 0
