"""C11 — 2-D tensor-network contraction is exact without truncation and sweep-independent
   (qecsim.tensortools.mps2d / mps / tsr against Model/Tensor.lean)

What is tied by exact correspondence (integer entries, so numpy stays in integers — int64 for small values,
dtype=object Python ints for magnitudes up to 1e6, and float64 holding small integers; the only float step of the
real code without truncation is the final `mpf(1.0) * value`, reproduced on the model's exact integer by `post`):
  contract (every start/stop/step, chi/tol/mask settings incl. really-truncating ones, which the model answers with
  `svd` and the real code shows by entering left_canonical_form — observed by a wrapper installed from outside),
  partial results tensor by tensor, split-and-recombine at every column, transpose, contract_pairwise,
  contract_ladder, inner_product, as_scalar, _mps_start_stop_indices, truncate (guard), slice resolution, and the
  model's brute-force `exactValue` (sum over all bond-index assignments) against the real full contraction.

Monitors (the property itself on the real code, independent of the Lean model): for every generated network the
values of the LR sweep, RL sweep, transposed sweep, every split, and the no-op truncation settings must all equal
an independent exact evaluation (`py_exact`: pure-Python cell-by-cell transfer contraction with Python ints /
Fractions, sharing nothing with qecsim).  "All start/stop/step ranges" (`range_battery`): the full column range in
every spelling that Python's slice resolution maps to all columns (None / in-range / negative / clamped out-of-range
start and stop; step None, 1, -1) must give the exact value — an exception on a valid network is a failure — and the
columns cut into 2..4 consecutive segments, each contracted by its own spelled range (forwards or backwards), recombined
with contract_pairwise (either association) / inner_product and the multipliers, must give the exact value; also under a
no-op truncation setting.  The failing-input search evaluates every spelling (one segment at a time) on the recorded
network and on a fixed family of small networks.

Theorems (Props/C11.lean), all proved: over any commutative semiring and any grid shape / compatible bond dimensions
the LR sweep, the RL sweep, every split-and-recombine, the rows-first merge and the columns-first merge give the same
tensor, and the transposed network gives its transpose (interchange law + associativity of the pairwise cell); for the
executed Int model on None-free networks `contract` (default) and `contract(step=-1)` return the scalar of that grid
tensor; cell / ladder-step of the array model agree with the algebra on every in-range entry; no-op truncation
(per `truncate` call incl. chi >= bond; whole `contract` for falsy tol with chi None/0 and for all-false masks);
not-scalar and non-contiguous inputs raise ValueError; and (second pass) the brute-force `exactValue` (literal sum over
all bond-index assignments) equals the grid tensor, so `contract_lr_exact`, `contract_rl_exact`,
`contract_transpose_exact`, `contract_split` hold with `exactValue` on the right-hand side, also for None-padded columns
(PaddedRows) and for chi >= every bond occurring in the sweep.
Explored, not proved (ctx.explored): float networks (widely ranging positive magnitudes) against the exact rational
value, and the lossless-truncation path (tiny tol) recombined with its multipliers — LAPACK is outside the model.
"""
import contextlib
import itertools
import json
from fractions import Fraction

import numpy as np
from mpmath import mp

from qv import core
from qv.core import rat

LEVEL = 'proof'

RULE = ('random rectangular networks of 4-leg tensors: shapes 1..5 x 1..5, every bond dimension drawn from 1..3 '
        'independently, None padding at column tops/bottoms (facing bonds 1), entries from {0, small, up to 1e6} with '
        'signs, dtypes int64 / object (Python ints) / float64 holding integers; for each network: full LR, RL, '
        'transposed sweeps, every split column, the full range and 2..4 consecutive column segments in every / random '
        'start/stop/step spelling (None, in-range, negative, clamped; step None/1/-1) recombined with '
        'contract_pairwise/inner_product and multipliers, no-op truncation settings (chi>=bond, chi=0, tol=0/None, all-false '
        'mask), random start/stop/step incl. negative and out-of-range, truncating settings (model: svd), wrong-shape '
        'mask; model exactValue (brute force) for networks with <= 20000 bond assignments; unit ops on random and '
        'malformed MPS (non-contiguous None, non-scalar, length mismatch, incompatible bonds, broadcast bonds). '
        'non-trivial = network with at least two columns or rows and a bond of dimension > 1, or a malformed input')


class _SVD(Exception):
    pass


@contextlib.contextmanager
def svd_trap():
    """make the LAPACK path observable: entering left_canonical_form from truncate raises _SVD"""
    from qecsim.tensortools import mps as tt_mps
    old = tt_mps.left_canonical_form

    def trap(*a, **k):
        raise _SVD()
    tt_mps.left_canonical_form = trap
    try:
        yield
    finally:
        tt_mps.left_canonical_form = old


# ------------------------------------------------------------------------------------------ wire

def cint(x):
    """canonical exact integer of a numpy / python / mpf number; None when it is not an integer"""
    if isinstance(x, (int, np.integer)):
        return int(x)
    if isinstance(x, (float, np.floating)):
        return int(x) if float(x).is_integer() else None
    if isinstance(x, mp.mpf):
        return int(x) if mp.isint(x) else None
    try:
        return cint(x.item())
    except Exception:
        return None


def wire_t(t):
    if t is None:
        return 'N'
    vals = [cint(v) for v in np.asarray(t).flatten()]
    if any(v is None for v in vals) or np.asarray(t).ndim != 4:
        return 'nonint'
    return '{}.{}.{}.{}:{}'.format(*t.shape, ','.join(map(str, vals)) if vals else '_')


def wire_mps(m):
    m = list(m)
    return ';'.join(wire_t(t) for t in m) if m else '_'


def wire_net(tn):
    return '{}x{}'.format(*tn.shape), wire_mps(tn.flatten())


def wire_mask(mask):
    if mask is None:
        return 'N'
    return '{}x{}:{}'.format(mask.shape[0], mask.shape[1], core.bits(mask.flatten()))


def wire_tol(tol):
    return 'N' if tol is None else rat(Fraction(tol))


def parse_t(s, dtype):
    if s == 'N':
        return None
    sh, dat = s.split(':')
    shape = tuple(int(x) for x in sh.split('.'))
    vals = [] if dat == '_' else [int(x) for x in dat.split(',')]
    if dtype == 'object':
        a = np.empty(len(vals), dtype=object)
        a[:] = vals
    else:
        a = np.array(vals, dtype=(np.int64 if dtype == 'int64' else np.float64))
    return a.reshape(shape)


def parse_mps(s, dtype):
    return [] if s == '_' else [parse_t(x, dtype) for x in s.split(';')]


def parse_net(shape, sites, dtype):
    r, c = (int(x) for x in shape.split('x'))
    tn = np.empty((r, c), dtype=object)
    flat = parse_mps(sites, dtype)
    for i, t in enumerate(flat):
        tn[i // c, i % c] = t
    return tn


# ------------------------------------------------------------------------------------------ generators

def rand_entry(rng, mag):
    r = rng.random()
    if r < 0.15:
        return 0
    if mag == 'small':
        return rng.randint(-3, 3)
    if mag == 'pos':
        return rng.randint(1, 5)
    if r < 0.6:
        return rng.randint(-9, 9)
    return rng.choice([-1, 1]) * rng.choice([10 ** 6, 999983, 10 ** 3, 12345, 1, 2])


def mk_tensor(rng, shape, dtype, mag):
    n = shape[0] * shape[1] * shape[2] * shape[3]
    vals = [rand_entry(rng, mag) for _ in range(n)]
    if dtype == 'object':
        a = np.empty(n, dtype=object)
        a[:] = vals
    else:
        a = np.array(vals, dtype=(np.int64 if dtype == 'int64' else np.float64))
    return a.reshape(shape)


def gen_net(rng, R, C, dtype, mag, maxbond=3, pad=False, exact_guard=True):
    """compatible grid; None padding at column ends; returns (tn, info)"""
    present = [[True] * C for _ in range(R)]
    if pad and R >= 2:
        # every column keeps one contiguous run of tensors; runs of adjacent columns overlap or touch, so that every
        # pairwise-contracted MPS of every sweep is contiguous (the documented domain of contract); pad='loose' drops
        # that requirement (then the real code may raise ValueError, which is only checked for correspondence)
        prev = None
        for c in range(C):
            for _ in range(50):
                top, bot = 0, 0
                if rng.random() < 0.6:
                    top = rng.randint(0, R - 1)
                    bot = rng.randint(0, R - 1 - top)
                if pad == 'loose' or prev is None or (top <= prev[1] and R - bot >= prev[0]):
                    break
            else:
                top, bot = 0, 0
            prev = (top, R - bot)
            for r in range(top):
                present[r][c] = False
            for r in range(R - bot, R):
                present[r][c] = False
    H = [[(rng.randint(1, maxbond) if present[r][c] and present[r][c + 1] else 1) for c in range(C - 1)]
         for r in range(R)]
    V = [[(rng.randint(1, maxbond) if present[r][c] and present[r + 1][c] else 1) for c in range(C)]
         for r in range(R - 1)]
    tn = np.empty((R, C), dtype=object)
    for r in range(R):
        for c in range(C):
            if not present[r][c]:
                tn[r, c] = None
                continue
            shape = (V[r - 1][c] if r > 0 else 1, H[r][c] if c < C - 1 else 1,
                     V[r][c] if r < R - 1 else 1, H[r][c - 1] if c > 0 else 1)
            tn[r, c] = mk_tensor(rng, shape, dtype, mag)
    if dtype != 'object' and exact_guard:
        # keep int64 / float64 arithmetic exact: every intermediate entry is bounded by the product over cells of
        # the sum of absolute entries; beyond 2^52 switch the whole network to Python ints
        bound = 1
        for t in tn.flatten():
            if t is not None:
                bound *= max(int(np.abs(t).sum()), 1)
        if bound >= 2 ** 52:
            dtype = 'object'
            for r in range(R):
                for c in range(C):
                    if tn[r, c] is not None:
                        a = np.empty(tn[r, c].size, dtype=object)
                        a[:] = [int(x) for x in tn[r, c].flatten()]
                        tn[r, c] = a.reshape(tn[r, c].shape)
    bonds = [b for row in H for b in row] + [b for row in V for b in row]
    info = {'R': R, 'C': C, 'dtype': dtype, 'mag': mag, 'maxbond': max(bonds + [1]),
            'nones': sum(not p for row in present for p in row)}
    return tn, info


def safe_mag(R, C, dtype, mag):
    """keep int64 / float64 arithmetic exact: products of R*C entries times the number of terms must stay < 2^53"""
    if dtype == 'object':
        return mag
    return 'small' if R * C <= 12 else 'pos' if R * C <= 16 else None


# ------------------------------------------------------------------------------------------ independent exact value

def py_exact(tn):
    """exact contraction value by a cell-by-cell transfer sweep in pure Python (ints / Fractions); None ↦ scalar 1.
    Independent of qecsim: no reshape, no merging of bonds, explicit indices only."""
    R, C = tn.shape

    def ent(t, i, j, k, l):
        if t is None:
            return 1
        v = t[i, j, k, l]
        if isinstance(v, (float, np.floating)):
            return Fraction(float(v))
        return int(v)

    def shp(t):
        return (1, 1, 1, 1) if t is None else t.shape
    # state: dict mapping tuple(east index of every row for the boundary between column c-1 and c) -> value
    state = {tuple([0] * R): 1}
    for c in range(C):
        # contract column c: iterate rows carrying the vertical index
        new = {}
        for west, val in state.items():
            if val == 0:
                continue
            # partial: dict (tuple east indices so far, south index) -> value
            part = {((), 0): val}
            for r in range(R):
                t = tn[r, c]
                n, e, s, w = shp(t)
                nxt = {}
                for (east, up), v in part.items():
                    if up >= n or west[r] >= w:
                        raise ValueError('incompatible network')
                    for j in range(e):
                        for k in range(s):
                            x = ent(t, up, j, k, west[r])
                            if x != 0:
                                key = (east + (j,), k)
                                nxt[key] = nxt.get(key, 0) + v * x
                part = nxt
            for (east, down), v in part.items():
                if down == 0:
                    new[east] = new.get(east, 0) + v
        state = new
    return sum(v for east, v in state.items() if all(x == 0 for x in east))


# ------------------------------------------------------------------------------------------ real code, canonical outcomes

def canon_full(v):
    i = cint(v)
    return 'ok s ' + (str(i) if i is not None else 'nonint:{!r}'.format(v))


def canon_part(res, mult):
    m = cint(mult)
    return 'ok p {} {}'.format(m if m is not None else 'nonint', 'None' if res is None else wire_mps(res))


def guarded(f):
    try:
        with svd_trap():
            return f()
    except _SVD:
        return 'svd'
    except ValueError:
        return 'ValueError'
    except TypeError:
        return 'TypeError'
    except AssertionError:
        return 'AssertionError'
    except IndexError:
        return 'IndexError'


def impl_contract(tn, chi=None, tol=None, start=None, stop=None, step=None, mask=None):
    from qecsim.tensortools import mps2d

    def f():
        r = mps2d.contract(tn, chi=chi, tol=tol, start=start, stop=stop, step=step, mask=mask)
        if isinstance(r, tuple):
            return canon_part(r[0], r[1])
        return canon_full(r)
    return guarded(f)


def impl_split(tn, k, chi=None, tol=None, mask=None):
    from qecsim.tensortools import mps2d, mps as tt_mps

    def f():
        l, ml = mps2d.contract(tn, chi=chi, tol=tol, stop=k, mask=mask)
        r, mr = mps2d.contract(tn, chi=chi, tol=tol, start=-1, stop=k - 1, step=-1, mask=mask)
        if l is None or r is None:
            raise TypeError()
        ip = tt_mps.inner_product(l, r)
        v = ip * ml * mr
        i = cint(v)
        return 'ok ' + (str(i) if i is not None else 'nonint')
    return guarded(f)


def range_spellings(lo, hi, C):
    """every (start, stop, step) spelling — None, in-range, negative-index, clamped out-of-range; step None / 1 / -1 —
    whose Python slice resolution over C columns is exactly the columns lo..hi-1, ascending (step None / 1) or
    descending (step -1).  Resolution is Python's own `slice.indices`, nothing of qecsim."""
    fw = list(range(lo, hi))
    bw = fw[::-1]
    cands = [None]
    for v in (lo, hi, lo - 1, hi - 1, lo - C, hi - C, lo - 1 - C, hi - 1 - C, 0, -1, C, C - 1, C + 3, -C, -C - 1, -C - 4):
        if v not in cands:
            cands.append(v)
    out = []
    for step in (None, 1, -1):
        want = bw if step == -1 else fw
        for a in cands:
            for b in cands:
                if list(range(*slice(a, b, step).indices(C))) == want:
                    out.append((a, b, step))
    return out


def default_spelling(lo, hi, C, last=False):
    """the spellings of impl_split: left / middle parts forwards with step None, the last part backwards"""
    if last:
        return (-1, lo - 1, -1)
    return (None if lo == 0 else lo, hi, None)


def partitions(C, max_parts):
    """cut points 0 = c0 < c1 < … < cm = C for 2 <= m <= max_parts"""
    out = []
    for m in range(2, max_parts + 1):
        for cuts in itertools.combinations(range(1, C), m - 1):
            out.append((0,) + cuts + (C,))
    return out


class Parts:
    """partial contractions of one network by spelled column range (cached), and their recombination"""

    def __init__(self, tn, **kw):
        self.tn, self.kw, self.cache = tn, kw, {}

    def part(self, sp):
        from qecsim.tensortools import mps2d
        if sp not in self.cache:
            def f():
                r = mps2d.contract(self.tn, start=sp[0], stop=sp[1], step=sp[2], **self.kw)
                if not isinstance(r, tuple):
                    return 'not-a-partial-result'
                if r[0] is None:
                    return 'empty-partial-result'
                return r
            self.cache[sp] = guarded(f)
        return self.cache[sp]

    def combine(self, spellings, assoc='left'):
        """value of the network from the partial contractions of consecutive column segments (left to right):
        contract_pairwise folds the segments from the left (or from the right), inner_product closes, multipliers
        multiply"""
        from qecsim.tensortools import mps as tt_mps
        ps = [self.part(sp) for sp in spellings]
        for sp, p in zip(spellings, ps):
            if isinstance(p, str):
                return '{} in contract(start={}, stop={}, step={})'.format(p, *sp)

        def f():
            if assoc == 'left':
                acc = ps[0][0]
                for p in ps[1:-1]:
                    acc = tt_mps.contract_pairwise(acc, p[0])
                v = tt_mps.inner_product(acc, ps[-1][0])
            else:
                acc = ps[-1][0]
                for p in ps[-2:0:-1]:
                    acc = tt_mps.contract_pairwise(p[0], acc)
                v = tt_mps.inner_product(ps[0][0], acc)
            for p in ps:
                v = v * p[1]
            i = cint(v)
            return 'ok ' + (str(i) if i is not None else 'nonint:{!r}'.format(v))
        return guarded(f)


def round_like_impl(x):
    """the real full contraction returns mpf(1.0) * value: one rounding to mp.prec bits"""
    return int(mp.mpf(1.0) * int(x))


def post_full(model):
    if model.startswith('ok s '):
        return 'ok s ' + str(round_like_impl(model[5:]))
    return model


def post_split(model):
    if model.startswith('ok '):
        return 'ok ' + str(round_like_impl(model[3:]))
    return model


def contract_line(tn, chi=None, tol=None, start=None, stop=None, step=None, mask=None):
    sh, st = wire_net(tn)
    return 'c11 contract {} {} {} {} {} {} {} {}'.format(
        sh, st, core.opt(chi), wire_tol(tol), core.opt(start), core.opt(stop), core.opt(step), wire_mask(mask))


# ------------------------------------------------------------------------------------------ the property on the real code

def noop_settings(rng, tn, bond_cap):
    R, C = tn.shape
    allfalse = np.zeros((R, C), dtype=bool)
    alltrue = np.ones((R, C), dtype=bool)
    return [
        ('chi>=bond', dict(chi=bond_cap)),
        ('chi=0', dict(chi=0)),
        ('tol=0', dict(tol=0.0)),
        ('chi>=bond,tol=0,mask=true', dict(chi=bond_cap + rng.randint(0, 5), tol=0.0, mask=alltrue)),
        ('mask=false,chi=1', dict(chi=1, mask=allfalse)),
        ('mask=false,tol=.1', dict(tol=0.1, mask=allfalse)),
    ]


def max_bond_cap(tn):
    """an upper bound of every bond that can occur in any sweep: product of all N (and W) dimensions per row"""
    cap = 1
    for row in tn:
        p = 1
        for t in row:
            if t is not None:
                p *= max(t.shape[0], 1)
        cap = max(cap, p)
    return cap


def property_battery(tn, rng=None, settings=True, ranges='sample'):
    """evaluate the property on the real code for one compatible network.
    Returns None when it holds, else a dict naming the failing evaluation (values as exact ints).
    ranges: 'sample' — every partition of the columns into 2 segments and some into 3 / 4 segments, one random
    spelling of every segment's start/stop/step, a few random spellings of the full range; 'all' — every spelling of
    the full range, and for every partition into <= 3 segments every spelling of one segment at a time (the others
    spelled as impl_split does), both associations of the recombination."""
    from qecsim.tensortools import mps2d
    import random as _r
    rng = rng or _r.Random(0)
    R, C = tn.shape
    exact = py_exact(tn)
    want = 'ok s ' + str(round_like_impl(exact))
    sh, st = wire_net(tn)
    base = {'net_shape': sh, 'net_sites': st, 'dtype': net_dtype(tn), 'exact_value': str(exact)}

    def bad(what, got, **kw):
        d = dict(base); d.update(kw); d.update({'what': what, 'got': got, 'expected': want}); return d
    got = impl_contract(tn)
    if got != want:
        return bad('left-to-right contraction differs from the exact value', got, call='contract(tn)')
    got = impl_contract(tn, step=-1)
    if got != want:
        return bad('right-to-left contraction differs from the exact value', got, call='contract(tn, step=-1)')
    try:
        tnt = mps2d.transpose(tn)
        got = impl_contract(tnt)
    except Exception as ex:  # transposed padded columns may be non-contiguous rows: only a None-free net must work
        got = type(ex).__name__
    if got != want and not (got == 'ValueError' and any(t is None for t in tn.flatten())):
        return bad('contraction of the transposed network differs from the exact value', got,
                   call='contract(transpose(tn))')
    for k in range(1, C):
        got = impl_split(tn, k)
        if got != 'ok ' + str(round_like_impl(exact)) and got != 'ok ' + str(exact):
            return bad('split-and-recombine differs from the exact value', got, call='split', k=k)
    r = range_battery(tn, rng, exact, want, bad, ranges)
    if r:
        return r
    if settings:
        cap = max_bond_cap(tn)
        for name, kw in noop_settings(rng, tn, cap):
            for extra in ({}, {'step': -1}, {'step': 1}):
                a = dict(kw); a.update(extra)
                got = impl_contract(tn, **a)
                if got != want:
                    return bad('no-op truncation setting changes the value', got, call='contract', setting=name,
                               step=extra.get('step'))
        # … also under spelled ranges and recombined partial contractions (one setting per network)
        name, kw = rng.choice(noop_settings(rng, tn, cap))
        r = range_battery(tn, rng, exact, want, bad, 'sample', kw_name=name, **kw)
        if r:
            return r
    return None


def range_battery(tn, rng, exact, want, bad, ranges='sample', kw_name=None, **kw):
    """"all start/stop/step ranges": the full range in every spelling gives the exact value; the column range cut into
    consecutive segments, each contracted by its own spelled range (forwards or backwards) and recombined with
    contract_pairwise / inner_product and the multipliers, gives the exact value"""
    R, C = tn.shape
    if C == 0:
        return None
    okp = ('ok ' + str(round_like_impl(exact)), 'ok ' + str(exact))
    full = range_spellings(0, C, C)
    if ranges == 'sample':
        pick = [(None, None, 1), (0, C, 1)] + [rng.choice(full) for _ in range(3)]
    else:
        pick = full
    for sp in pick:
        got = impl_contract(tn, start=sp[0], stop=sp[1], step=sp[2], **kw)
        if got != want:
            return bad('contraction over the full column range, spelled start={} stop={} step={}, differs from the '
                       'exact value'.format(*sp), got, call='contract(tn, range)', ranges=[list(sp)],
                       **({'setting': kw_name} if kw_name else {}))
    parts = Parts(tn, **kw)
    spell = {}

    def spellings(lo, hi):
        if (lo, hi) not in spell:
            spell[(lo, hi)] = range_spellings(lo, hi, C)
        return spell[(lo, hi)]

    def check(sps, assoc):
        got = parts.combine(sps, assoc)
        if got not in okp:
            return bad('partial contractions of {} consecutive column segments, recombined with contract_pairwise / '
                       'inner_product and the multipliers, differ from the exact value'.format(len(sps)), got,
                       call='parts', ranges=[list(sp) for sp in sps], assoc=assoc, expected_value=okp[0],
                       **({'setting': kw_name} if kw_name else {}))
        return None
    if ranges == 'sample':
        todo = partitions(C, 2)
        p3 = [p for p in partitions(C, 3) if len(p) == 4]
        todo += rng.sample(p3, min(3, len(p3)))
        p4 = [p for p in partitions(C, 4) if len(p) == 5]
        todo += rng.sample(p4, min(1, len(p4)))
        for cuts in todo:
            sps = [rng.choice(spellings(lo, hi)) for lo, hi in zip(cuts, cuts[1:])]
            r = check(sps, rng.choice(['left', 'right']))
            if r:
                return r
        return None
    for cuts in partitions(C, 3):
        segs = list(zip(cuts, cuts[1:]))
        dflt = [default_spelling(lo, hi, C, last=(i == len(segs) - 1)) for i, (lo, hi) in enumerate(segs)]
        for i, (lo, hi) in enumerate(segs):
            for sp in spellings(lo, hi):
                sps = list(dflt); sps[i] = sp
                for assoc in (('left', 'right') if len(segs) > 2 else ('left',)):
                    r = check(sps, assoc)
                    if r:
                        return r
    return None


def net_dtype(tn):
    for t in tn.flatten():
        if t is not None:
            return 'object' if t.dtype == object else 'int64' if t.dtype.kind == 'i' else 'float64'
    return 'int64'


# ------------------------------------------------------------------------------------------ run

def run(ctx):
    from qecsim.tensortools import mps2d, mps as tt_mps, tsr as tt_tsr
    rng = ctx.rng
    n_nets = ctx.scale(1200, 12000)
    shapes = [(R, C) for R in range(1, 6) for C in range(1, 6)]
    exact_done = 0
    for it in range(n_nets):
        if it < len(shapes):
            R, C = shapes[it]
        else:
            R, C = rng.choice(shapes)
        dtype = rng.choice(['int64', 'object', 'object', 'float64'])
        mag = 'wide'
        if dtype != 'object':
            mag = rng.choice(['small', 'pos'])
        maxbond = rng.choice([1, 2, 2, 3, 3]) if R * C <= 16 else rng.choice([1, 2, 2, 3])
        pad = rng.random() < 0.35
        tn, info = gen_net(rng, R, C, dtype, mag, maxbond=maxbond, pad=pad)
        sh, st = wire_net(tn)
        nontriv = (R >= 2 or C >= 2) and info['maxbond'] > 1
        dtype = info['dtype']
        meta = {'net_shape': sh, 'net_sites': st, 'dtype': dtype}
        ctx.count('shape', sh); ctx.count('dtype', dtype); ctx.count('maxbond', info['maxbond'])
        ctx.count('nones', min(info['nones'], 5))
        # --- monitor: the property itself on the real code (independent oracle)
        fail = property_battery(tn, rng)
        if fail:
            ctx.monitor_fail(fail['what'], fail, key='mps2d.contract:' + fail.get('call', ''))
        # --- correspondence: full sweeps
        ctx.case(contract_line(tn), impl_contract(tn), nontrivial=nontriv, meta=meta, post=post_full)
        ctx.case(contract_line(tn, step=-1), impl_contract(tn, step=-1), nontrivial=nontriv, meta=meta, post=post_full)
        # transposed
        tnt = mps2d.transpose(tn)
        tsh, tst = wire_net(tnt)
        ctx.case('c11 transpose {} {}'.format(sh, st), 'ok {} {}'.format(tsh, tst), nontrivial=nontriv, meta=meta)
        ctx.case(contract_line(tnt), impl_contract(tnt), nontrivial=nontriv,
                 meta={'net_shape': tsh, 'net_sites': tst, 'dtype': dtype, 'transposed_of': meta}, post=post_full)
        # splits
        for k in range(1, C):
            ctx.case('c11 split {} {} {} N N N'.format(sh, st, k), impl_split(tn, k), nontrivial=nontriv,
                     meta=dict(meta, k=k), post=post_split)
            # the two partial results themselves
            ctx.case(contract_line(tn, stop=k), impl_contract(tn, stop=k), nontrivial=nontriv, meta=meta)
            ctx.case(contract_line(tn, start=-1, stop=k - 1, step=-1),
                     impl_contract(tn, start=-1, stop=k - 1, step=-1), nontrivial=nontriv, meta=meta)
        # spelled ranges: the full range and two random segments, each in a random spelling
        sp = rng.choice(range_spellings(0, C, C))
        ctx.case(contract_line(tn, start=sp[0], stop=sp[1], step=sp[2]),
                 impl_contract(tn, start=sp[0], stop=sp[1], step=sp[2]), nontrivial=nontriv,
                 meta=dict(meta, args=[None, None] + list(sp)), post=post_full)
        ctx.count('full_range_step', sp[2])
        for _ in range(2 if C >= 2 else 0):
            lo = rng.randint(0, C - 1)
            hi = rng.randint(lo + 1, C if lo > 0 else C - 1)
            sp = rng.choice(range_spellings(lo, hi, C))
            ctx.case(contract_line(tn, start=sp[0], stop=sp[1], step=sp[2]),
                     impl_contract(tn, start=sp[0], stop=sp[1], step=sp[2]), nontrivial=nontriv,
                     meta=dict(meta, args=[None, None] + list(sp)))
            ctx.count('segment_step', sp[2])
        # no-op settings and truncating settings
        cap = max_bond_cap(tn)
        for name, kw in noop_settings(rng, tn, cap):
            if rng.random() < 0.5:
                a = dict(kw)
                if rng.random() < 0.3:
                    a['step'] = -1
                ctx.case(contract_line(tn, **a), impl_contract(tn, **a), nontrivial=nontriv,
                         meta=dict(meta, setting=name), post=post_full)
                ctx.count('setting', name)
        for _ in range(3):
            chi = rng.choice([None, 0, 1, 2, 3, 4, 9, 27, cap, cap + 1, max(cap - 1, 0), -1])
            tol = rng.choice([None, None, 0.0, 0, 1e-8, 0.5])
            r = rng.random()
            if r < 0.55:
                mask = None
            elif r < 0.95:
                mask = np.array([[rng.random() < 0.3 for _ in range(C)] for _ in range(R)], dtype=bool).reshape(R, C)
            else:
                mask = np.zeros((R + rng.choice([0, 1]), C + 1), dtype=bool)  # wrong shape
            start = rng.choice([None, None, None, None, 0, 1, -1, -2, C, C + 3, -C - 2, rng.randint(-C - 1, C + 1)])
            stop = rng.choice([None, None, None, None, 0, 1, -1, C, C - 1, C + 3, -C - 2, rng.randint(-C - 1, C + 1)])
            step = rng.choice([None, None, 1, 1, -1, -1, -1, 2, -2, 3, 0, C, -C])
            if step is not None and step < 0 and rng.random() < 0.5:
                start, stop = rng.choice([None, -1, C - 1, C + 2]), rng.choice([None, -C - 1, -C - 5])
            out = impl_contract(tn, chi=chi, tol=tol, start=start, stop=stop, step=step, mask=mask)
            ctx.case(contract_line(tn, chi=chi, tol=tol, start=start, stop=stop, step=step, mask=mask), out,
                     nontrivial=nontriv, meta=dict(meta, args=[chi, tol, start, stop, step]), post=post_full)
            ctx.count('contract_outcome', out.split(' ')[0] + (' ' + out.split(' ')[1] if out.startswith('ok') else ''))
        # exact value by the model's brute force
        nass = 1
        for t in tn.flatten():
            if t is not None:
                nass *= t.shape[1] * t.shape[2]
        if nass <= ctx.scale(4000, 20000) and R * C * nass <= ctx.scale(60000, 400000):
            exact_done += 1
            out = impl_contract(tn)
            ctx.case('c11 exact {} {}'.format(sh, st), out.replace('ok s ', 'ok '), nontrivial=nontriv,
                     meta=dict(meta, exact=True), post=post_split)
            ctx.case('c11 nassign {} {}'.format(sh, st), str(nass), nontrivial=False)
            ctx.count('exact_assignments', len(str(nass)))
    ctx.count('exact_networks', exact_done)
    unit_cases(ctx)
    incompatible_cases(ctx)
    float_explore(ctx)
    return ctx.finish(RULE, search=search)


def rand_mps(rng, L, dtype='int64', holes='ends'):
    """a column with random shapes whose vertical bonds match; holes: 'ends' | 'any' | 'none'"""
    pres = [True] * L
    if holes == 'ends' and L:
        top = rng.randint(0, L); bot = rng.randint(0, L - top)
        pres = [top <= i < L - bot for i in range(L)]
    elif holes == 'any':
        pres = [rng.random() < 0.6 for _ in range(L)]
    out = []
    prev_s = None
    for i in range(L):
        if not pres[i]:
            out.append(None); prev_s = None
            continue
        n = prev_s if prev_s is not None else rng.choice([1, 1, 2])
        s = rng.choice([1, 2, 3])
        e, w = rng.choice([1, 2, 3]), rng.choice([1, 1, 2])
        out.append(mk_tensor(rng, (n, e, s, w), dtype, 'small'))
        prev_s = s
    return out


def unit_cases(ctx):
    from qecsim.tensortools import mps as tt_mps, tsr as tt_tsr
    rng = ctx.rng
    N = ctx.scale(400, 6000)
    for _ in range(N):
        L = rng.randint(0, 5)
        holes = rng.choice(['ends', 'ends', 'any', 'none'])
        m = rand_mps(rng, L, rng.choice(['int64', 'object']), holes)
        wm = wire_mps(m)

        def ss():
            a, b = tt_mps._mps_start_stop_indices(m)
            return 'ok {},{}'.format(a, b)
        ctx.case('c11 startstop ' + wm, guarded(ss), nontrivial=(L > 1), meta={'mps': wm})
        out = guarded(lambda: 'ok ' + wire_t(tt_mps.contract_ladder(m)))
        ctx.case('c11 ladder ' + wm, out, nontrivial=(L > 1), meta={'mps': wm})
        ctx.count('ladder_outcome', out.split(' ')[0])
        # pairwise partner: ket-like column with w matching e (mostly), Nones anywhere
        r = []
        for t in m:
            if rng.random() < 0.2:
                r.append(None)
            else:
                w = (t.shape[1] if t is not None else rng.choice([1, 2])) if rng.random() < 0.9 else rng.choice([1, 2, 3])
                r.append(mk_tensor(rng, (rng.choice([1, 2]), rng.choice([1, 2]), rng.choice([1, 2]), w),
                                   'int64', 'small'))
        if rng.random() < 0.1:
            r = r + [None] if rng.random() < 0.5 else r[:-1]
        wr = wire_mps(r)
        out = guarded(lambda: 'ok ' + wire_mps(tt_mps.contract_pairwise(m, r)))
        ctx.case('c11 pairwise {} {}'.format(wm, wr), out, nontrivial=(L > 0), meta={'l': wm, 'r': wr})
        ctx.count('pairwise_outcome', out.split(' ')[0])

        def ip():
            v = cint(tt_mps.inner_product(m, r))
            return 'ok ' + (str(v) if v is not None else 'nonint')
        out = guarded(ip)
        ctx.case('c11 inner {} {}'.format(wm, wr), out, nontrivial=(L > 0), meta={'l': wm, 'r': wr})
        ctx.count('inner_outcome', out.split(' ')[0])
        # truncate guard
        chi = rng.choice([None, 0, 1, 2, 3, 4, -1, 100])
        tol = rng.choice([None, 0.0, 1e-9, 0])
        mask = rng.choice([None, [False] * L, [rng.random() < 0.4 for _ in range(L)]])

        def tr():
            res, norm = tt_mps.truncate(m, chi=chi, tol=tol, mask=(None if mask is None else np.array(mask, dtype=bool)))
            same = all(a is b for a, b in zip(res, m)) and len(res) == len(m)
            return 'ok {} {}'.format(cint(norm), wire_mps(res) if same else 'changed')
        out = guarded(tr)
        ctx.case('c11 truncate {} {} {} {}'.format(wm, core.opt(chi), wire_tol(tol),
                                                   'N' if mask is None else core.bits(mask)), out,
                 nontrivial=(L > 0), meta={'mps': wm, 'chi': chi, 'tol': tol, 'mask': mask})
        ctx.count('truncate_outcome', out.split(' ')[0])
        # as_scalar
        t = mk_tensor(rng, tuple(rng.choice([1, 1, 1, 2]) for _ in range(4)), 'int64', 'wide')

        def sc():
            return 'ok ' + str(cint(tt_tsr.as_scalar(t)))
        ctx.case('c11 scalar ' + wire_t(t), guarded(sc), nontrivial=True)
    # proper bra / ket pairs (inner product defined), optionally padded with None at the same ends
    for _ in range(ctx.scale(200, 3000)):
        L = rng.randint(1, 5)
        top = rng.randint(0, L - 1) if rng.random() < 0.3 else 0
        bot = rng.randint(0, L - 1 - top) if rng.random() < 0.3 else 0
        bra, ket = [None] * L, [None] * L
        pn = kn = 1
        dt = rng.choice(['int64', 'object'])
        for i in range(top, L - bot):
            last = (i == L - bot - 1)
            ps, ks = (1, 1) if last else (rng.choice([1, 2, 3]), rng.choice([1, 2, 3]))
            phys = rng.choice([1, 2, 3])
            bra[i] = mk_tensor(rng, (pn, phys, ps, 1), dt, 'wide' if dt == 'object' else 'small')
            ket[i] = mk_tensor(rng, (kn, 1, ks, phys), dt, 'wide' if dt == 'object' else 'small')
            pn, kn = ps, ks
        if rng.random() < 0.15:
            i = rng.randrange(L)
            (bra if rng.random() < 0.5 else ket)[i] = None   # one-sided hole: copied through by contract_pairwise
        wb, wk = wire_mps(bra), wire_mps(ket)

        def ip2():
            v = cint(tt_mps.inner_product(bra, ket))
            return 'ok ' + (str(v) if v is not None else 'nonint')
        out = guarded(ip2)
        ctx.case('c11 inner {} {}'.format(wb, wk), out, nontrivial=(L > 1), meta={'l': wb, 'r': wk})
        ctx.count('inner_outcome', 'braket:' + out.split(' ')[0])
    # slice resolution: exhaustive small domain
    vals = [None] + list(range(-7, 8))
    steps = [None, 1, -1, 2, -2, 3, -3, 0, 5, -5]
    for n in range(0, ctx.scale(5, 7)):
        for a in vals:
            for b in vals:
                for s in steps:
                    try:
                        out = 'ok ' + core.ilist(range(*slice(a, b, s).indices(n)))
                    except ValueError:
                        out = 'ValueError'
                    ctx.case('c11 slice {} {} {} {}'.format(core.opt(a), core.opt(b), core.opt(s), n), out,
                             nontrivial=False)


def incompatible_cases(ctx):
    """networks outside the property's domain (mismatching bonds, holes in the middle, empty shapes): only the
    correspondence is checked (errors and numpy's broadcasting of dimension-1 labels)"""
    rng = ctx.rng
    for _ in range(ctx.scale(60, 800)):
        R, C = rng.randint(1, 4), rng.randint(1, 4)
        kind = rng.choice(['hole', 'reshape', 'allnone-col', 'nonscalar', 'loosepad'])
        tn, info = gen_net(rng, R, C, 'int64', 'small', maxbond=3,
                           pad=('loose' if kind == 'loosepad' else rng.random() < 0.3))
        r, c = rng.randrange(R), rng.randrange(C)
        if kind == 'hole':
            tn[r, c] = None
        elif kind == 'reshape' and tn[r, c] is not None:
            shape = tuple(rng.choice([1, 2, 3]) for _ in range(4))
            tn[r, c] = mk_tensor(rng, shape, 'int64', 'small')
        elif kind == 'allnone-col':
            for rr in range(R):
                tn[rr, c] = None
        elif kind == 'nonscalar' and tn[r, c] is not None:
            sh = list(tn[r, c].shape)
            if r == 0:
                sh[0] = 2
            elif c == 0:
                sh[3] = 2
            else:
                sh[1] = sh[1] + 1
            tn[r, c] = mk_tensor(rng, tuple(sh), 'int64', 'small')
        sh, st = wire_net(tn)
        meta = {'net_shape': sh, 'net_sites': st, 'dtype': 'int64', 'incompatible': kind}
        for kw in ({}, {'step': -1}, {'stop': rng.randint(0, C)}):
            out = impl_contract(tn, **kw)
            ctx.case(contract_line(tn, **kw), out, nontrivial=True, meta=meta, post=post_full)
            ctx.count('incompatible_outcome', kind + ':' + out.split(' ')[0])
        for k in range(1, C):
            ctx.case('c11 split {} {} {} N N N'.format(sh, st, k), impl_split(tn, k), nontrivial=True, meta=meta,
                     post=post_split)
    for (R, C) in [(0, 0), (0, 2), (2, 0), (1, 0), (0, 1)]:
        tn = np.empty((R, C), dtype=object)
        sh, st = wire_net(tn)
        for kw in ({}, {'step': -1}, {'stop': 1}, {'start': 1}, {'step': 0}):
            ctx.case(contract_line(tn, **kw), impl_contract(tn, **kw), nontrivial=True,
                     meta={'net_shape': sh, 'net_sites': st, 'dtype': 'int64'})


# ------------------------------------------------------------------------------------------ explored (floats / LAPACK)

def float_explore(ctx):
    """float networks with widely ranging positive magnitudes against the exact rational value (1e-9 relative), and the
    lossless truncation path (tol=1e-14) recombined with its multipliers (1e-7 relative).  Positive entries: the value
    is a sum of positive terms, so a relative tolerance is meaningful."""
    from qecsim.tensortools import mps2d, mps as tt_mps
    rng = ctx.rng
    n = ctx.scale(40, 400)
    evals = 0
    for _ in range(n):
        R, C = rng.randint(1, 5), rng.randint(2, 5)
        tn, info = gen_net(rng, R, C, 'float64', 'pos', maxbond=rng.choice([1, 2, 3]) if R * C <= 16 else 2,
                           pad=rng.random() < 0.3, exact_guard=False)
        wide = rng.random() < 0.5
        for t in tn.flatten():
            if t is not None:
                t *= np.array([10.0 ** rng.uniform(-6, 6) if wide and rng.random() < 0.3 else rng.uniform(0.1, 2.0)
                               for _ in range(t.size)]).reshape(t.shape)
                if rng.random() < 0.3:
                    t[tuple(rng.randrange(d) for d in t.shape)] = 0.0
        exact = py_exact(tn)
        sh = '{}x{}'.format(R, C)
        desc = {'shape': sh, 'tensors': [None if t is None else {'shape': list(t.shape),
                                                               'data': [float(x).hex() for x in t.flatten()]}
                                        for t in tn.flatten()]}

        def close(v, tolr):
            v = Fraction(float(v)) if not isinstance(v, mp.mpf) else Fraction(*_mpf_frac(v))
            return abs(v - exact) <= tolr * abs(exact)
        checks = [('lr', lambda: mps2d.contract(tn), 1e-9), ('rl', lambda: mps2d.contract(tn, step=-1), 1e-9)]
        if not any(t is None for t in tn.flatten()):
            checks.append(('transposed', lambda: mps2d.contract(mps2d.transpose(tn)), 1e-9))
        if not wide:  # a relative singular-value cut is only lossless (to 1e-7) for tensors of comparable scale
            checks.append(('lr tol=1e-14', lambda: mps2d.contract(tn, tol=1e-14), 1e-7))
            checks.append(('rl tol=1e-14', lambda: mps2d.contract(tn, tol=1e-14, step=-1), 1e-7))
        for k in range(1, C):
            def sp(k=k, tol=None):
                l, ml = mps2d.contract(tn, stop=k, tol=tol)
                r, mr = mps2d.contract(tn, start=-1, stop=k - 1, step=-1, tol=tol)
                return tt_mps.inner_product(l, r) * ml * mr
            checks.append(('split k={}'.format(k), sp, 1e-9))
            if not wide:
                checks.append(('split k={} tol=1e-14'.format(k), lambda k=k: sp(k, 1e-14), 1e-7))
        # spelled ranges: the full range, and consecutive segments recombined (random spellings)
        fsp = rng.choice(range_spellings(0, C, C))
        checks.append(('range {}'.format(json.dumps([list(fsp)], separators=(',', ':'))),
                       lambda fsp=fsp: mps2d.contract(tn, start=fsp[0], stop=fsp[1], step=fsp[2]), 1e-9))
        for cuts in rng.sample(partitions(C, 4), min(3, len(partitions(C, 4)))):
            sps = [rng.choice(range_spellings(lo, hi, C)) for lo, hi in zip(cuts, cuts[1:])]
            assoc = rng.choice(['left', 'right'])
            checks.append(('parts {} {}'.format(json.dumps([list(x) for x in sps], separators=(',', ':')), assoc),
                           lambda sps=sps, assoc=assoc: float_parts(tn, sps, assoc), 1e-9))
        for name, f, tolr in checks:
            evals += 1
            try:
                with core.TimeLimit(60):
                    v = f()
                ok = close(v, tolr)
            except Exception as ex:
                v = repr(ex); ok = False
            if not ok:
                ctx.monitor_fail('float contraction ({}) differs from the exact value beyond {} relative'.format(
                    name, tolr), {'net': desc, 'call': name, 'got': str(v), 'exact': str(float(exact))},
                    key='mps2d.contract:float:' + name.split(' ')[0])
    ctx.explored['float_and_lossless_truncation'] = {
        'evaluations': evals, 'exhaustive': False,
        'rule': 'positive float64 networks up to 5x5, bonds 1..3, zeros, half of them with magnitudes 1e-6..1e6; LR/RL/transposed/'
                'every split, the full range in a random start/stop/step spelling and 2..4 consecutive segments in random '
                'spellings recombined, without truncation within 1e-9 relative of the exact rational value; for the networks of '
                'comparable scale the same with tol=1e-14 (SVD path, multipliers != 1) within 1e-7 relative'}
    ctx.assumptions[:] = ['LAPACK QR/SVD (scipy.linalg) accuracy on the truncating path (explored only)',
                          'numpy einsum/reshape on int64 / object / float64 arrays behave as numpy documents',
                          'mpmath mpf multiplication rounds once to mp.prec bits']


def float_parts(tn, sps, assoc, tol=None):
    from qecsim.tensortools import mps2d, mps as tt_mps
    ps = [mps2d.contract(tn, start=a, stop=b, step=c, tol=tol) for a, b, c in sps]
    if assoc == 'left':
        acc = ps[0][0]
        for p in ps[1:-1]:
            acc = tt_mps.contract_pairwise(acc, p[0])
        v = tt_mps.inner_product(acc, ps[-1][0])
    else:
        acc = ps[-1][0]
        for p in ps[-2:0:-1]:
            acc = tt_mps.contract_pairwise(p[0], acc)
        v = tt_mps.inner_product(ps[0][0], acc)
    for p in ps:
        v = v * p[1]
    return v


def _mpf_frac(v):
    s, man, exp, bc = v._mpf_
    man = int(man) * (-1 if s else 1)
    return (man * (1 << exp), 1) if exp >= 0 else (man, 1 << (-exp))


# ------------------------------------------------------------------------------------------ failing-input search

STD_NETS = None
_SEARCHED = {}   # network -> battery result (every network is searched once per run)


def std_nets():
    """a fixed family of small compatible networks used to look for a concrete failing input when the broken
    correspondence is on an internal op"""
    import random
    global STD_NETS
    if STD_NETS is not None:
        return STD_NETS
    rng = random.Random(20240611)
    out = []
    for (R, C) in [(1, 2), (2, 2), (2, 3), (3, 2), (3, 3), (2, 4), (3, 4), (4, 3)]:
        for pad in (False, True):
            for dtype in ('int64', 'object'):
                out.append(gen_net(rng, R, C, dtype, 'small', maxbond=3 if R * C <= 9 else 2, pad=pad)[0])
    STD_NETS = out
    return out


def search(m):
    meta = m.get('meta') or {}
    cands = []
    if meta.get('net_shape') and not meta.get('incompatible'):
        base = meta.get('transposed_of') or meta
        try:
            cands.append(parse_net(base['net_shape'], base['net_sites'], base.get('dtype', 'int64')))
        except Exception:
            pass
    for tn in cands + std_nets():
        key = wire_net(tn) + (net_dtype(tn),)
        if key not in _SEARCHED:
            try:
                py_exact(tn)
                _SEARCHED[key] = property_battery(tn, ranges='all')
            except Exception:
                _SEARCHED[key] = None
        if _SEARCHED[key]:
            return _SEARCHED[key]
    return None


def replay(ctx, path):
    body = json.load(open(path))
    bad = 0
    for v in body.get('violations', []):
        ce = v.get('counterexample') or {}
        inp = ce.get('input') if isinstance(ce.get('input'), dict) else ce
        if inp and inp.get('net_shape'):
            tn = parse_net(inp['net_shape'], inp['net_sites'], inp.get('dtype', 'int64'))
            r = replay_ranges(tn, inp) or property_battery(tn, ranges='all')
            print('replay battery on', inp['net_shape'], '->', r and r['what'])
            bad += bool(r)
        elif inp and inp.get('net'):
            r = replay_float(inp)
            print('replay float case', inp['net']['shape'], inp.get('call'), '->', r)
            bad += bool(r)
        mm = v.get('first_mismatch')
        if mm and not bad:
            r = search(mm)
            print('replay search on', mm['op'][:100], '->', r and r['what'])
            bad += bool(r)
    return 1 if bad else 0


def replay_ranges(tn, inp):
    """re-evaluate the recorded spelled-range evaluation (full range or recombined partial contractions)"""
    if not inp.get('ranges'):
        return None
    import random
    kw = {}
    if inp.get('setting'):
        kw = dict(noop_settings(random.Random(0), tn, max_bond_cap(tn)))[inp['setting']]
    exact = py_exact(tn)
    sps = [tuple(sp) for sp in inp['ranges']]
    if inp.get('call') == 'parts':
        got = Parts(tn, **kw).combine(sps, inp.get('assoc', 'left'))
        ok = got in ('ok ' + str(round_like_impl(exact)), 'ok ' + str(exact))
    else:
        got = impl_contract(tn, start=sps[0][0], stop=sps[0][1], step=sps[0][2], **kw)
        ok = got == 'ok s ' + str(round_like_impl(exact))
    return None if ok else {'what': '{} over ranges {}: got {} exact {}'.format(inp.get('call'), sps, got, exact)}


def replay_float(inp):
    from qecsim.tensortools import mps2d, mps as tt_mps
    R, C = (int(x) for x in inp['net']['shape'].split('x'))
    tn = np.empty((R, C), dtype=object)
    for i, t in enumerate(inp['net']['tensors']):
        tn[i // C, i % C] = None if t is None else np.array([float.fromhex(x) for x in t['data']]).reshape(t['shape'])
    exact = py_exact(tn)
    name = inp.get('call', 'lr')
    tol = 1e-14 if 'tol' in name else None
    tolr = 1e-7 if tol else 1e-9
    if name.startswith('parts') or name.startswith('range'):
        sps = [tuple(x) for x in json.loads(name.split(' ')[1])]
        if name.startswith('range'):
            v = mps2d.contract(tn, start=sps[0][0], stop=sps[0][1], step=sps[0][2])
        else:
            v = float_parts(tn, sps, name.split(' ')[2])
    elif name.startswith('split'):
        k = int(name.split('k=')[1].split(' ')[0])
        l, ml = mps2d.contract(tn, stop=k, tol=tol)
        r, mr = mps2d.contract(tn, start=-1, stop=k - 1, step=-1, tol=tol)
        v = tt_mps.inner_product(l, r) * ml * mr
    elif name.startswith('transposed'):
        v = mps2d.contract(mps2d.transpose(tn))
    else:
        v = mps2d.contract(tn, tol=tol, step=(-1 if name.startswith('rl') else None))
    v = Fraction(*_mpf_frac(v)) if isinstance(v, mp.mpf) else Fraction(float(v))
    return None if abs(v - exact) <= tolr * abs(exact) else {'got': float(v), 'exact': float(exact)}
