"""C11 — 2-D tensor-network contraction is exact without truncation and sweep-independent
   (qecsim.tensortools.mps2d / mps / tsr against Model/Tensor.lean)

What is tied by exact correspondence (integer entries, so numpy stays in integers — int64 for small values,
dtype=object Python ints for magnitudes up to 1e6, and float64 holding small integers; the only float step of the
real code without truncation is the final `mpf(1.0) * value`, reproduced on the model's exact integer by `post`):
  contract (every start/stop/step, chi/tol/mask settings incl. really-truncating ones, which the model answers with
  `svd` and the real code shows by entering left_canonical_form — observed by a wrapper installed from outside),
  partial results tensor by tensor, split-and-recombine at every column, transpose, contract_pairwise,
  contract_ladder, inner_product, as_scalar, _mps_start_stop_indices, truncate (guard), slice resolution, and the
  model's brute-force `exactValue` (sum over all bond-index assignments) against the real full contraction.

Monitors (the property itself on the real code, independent of the Lean model): for every generated network the
values of the LR sweep, RL sweep, transposed sweep, every split, and the no-op truncation settings must all equal
an independent exact evaluation (`py_exact`: pure-Python cell-by-cell transfer contraction with Python ints /
Fractions, sharing nothing with qecsim).  "All start/stop/step ranges" (`range_battery`): the full column range in
every spelling that Python's slice resolution maps to all columns (None / in-range / negative / clamped out-of-range
start and stop; step None, 1, -1) must give the exact value — an exception on a valid network is a failure — and the
columns cut into 2..4 consecutive segments, each contracted by its own spelled range (forwards or backwards), recombined
with contract_pairwise (either association) / inner_product and the multipliers, must give the exact value; also under a
no-op truncation setting.  The failing-input search evaluates every spelling (one segment at a time) on the recorded
network and on a fixed family of small networks.

Bond-dimension assignments are an input class of their own (`wide_bond_cases`, `mixed_bonds`): every bond of a small
network (1x2 … 3x4 / 4x3) draws its dimension independently from {1, 2, 3, 4, 7, 8, 9, 16, 17}, so that trivial, narrow
and wide bonds meet at one tensor, in one column pair and in one row pair (within a cost budget of the sweeps); the
same monitors run on them against a second independent exact evaluation (`np_exact`: one np.tensordot over two named
axes per cell on Python-int object arrays; cross-checked with `py_exact` whenever that is cheap), the model's `contract`
/ `split` answer the same networks, and the unit ops (pairwise / ladder / inner product) get columns with such legs.
The type of every returned value / multiplier (mpmath.mpf, as documented: column norms leave the float64 range) is
part of the canonical outcome.

Theorems (Props/C11.lean), all proved: over any commutative semiring and any grid shape / compatible bond dimensions
the LR sweep, the RL sweep, every split-and-recombine, the rows-first merge and the columns-first merge give the same
tensor, and the transposed network gives its transpose (interchange law + associativity of the pairwise cell); for the
executed Int model on None-free networks `contract` (default) and `contract(step=-1)` return the scalar of that grid
tensor; cell / ladder-step of the array model agree with the algebra on every in-range entry; no-op truncation
(per `truncate` call incl. chi >= bond; whole `contract` for falsy tol with chi None/0 and for all-false masks);
not-scalar and non-contiguous inputs raise ValueError; and (second pass) the brute-force `exactValue` (literal sum over
all bond-index assignments) equals the grid tensor, so `contract_lr_exact`, `contract_rl_exact`,
`contract_transpose_exact`, `contract_split` hold with `exactValue` on the right-hand side, also for None-padded columns
(PaddedRows) and for chi >= every bond occurring in the sweep.
Explored, not proved (ctx.explored): float networks (widely ranging positive magnitudes) against the exact rational
value, and the lossless-truncation path (tiny tol) recombined with its multipliers — LAPACK is outside the model.
Magnitude profiles (`magnitude_explore`): every tensor of a positive float network is scaled by 10^k, |k| <= 140 (two or
three columns / rows / single tensors tiny, compensated elsewhere), chosen so that all float64 quantities of the
documented algorithm stay representable (`shadow`) while the norms of intermediate column states — kept in mpf
multipliers — leave the float64 range; evaluated without truncation and under settings that RUN the QR/SVD pass but
discard nothing (tol = 1e-300 / 5e-324 / 1e-200, alone, with chi = the largest bond (+1), with masks), both
orientations, both directions, every split, recombined segments, and truncate() itself on column states; judged
against the exact rational value of the very float entries with a tolerance derived from the conditioning
(A u sum_k ||L_k|| ||R_k||, cut norms computed exactly), not from the scale; mpf type of every multiplier / norm.
"""
import contextlib
import itertools
import json
import os
import warnings
from fractions import Fraction

import numpy as np
from mpmath import mp

from qv import core
from qv.core import rat

LEVEL = 'proof'

RULE = ('random rectangular networks of 4-leg tensors: shapes 1..5 x 1..5, every bond dimension drawn from 1..3 '
        'independently, None padding at column tops/bottoms (facing bonds 1), entries from {0, small, up to 1e6} with '
        'signs, dtypes int64 / object (Python ints) / float64 holding integers; for each network: full LR, RL, '
        'transposed sweeps, every split column, the full range and 2..4 consecutive column segments in every / random '
        'start/stop/step spelling (None, in-range, negative, clamped; step None/1/-1) recombined with '
        'contract_pairwise/inner_product and multipliers, no-op truncation settings (chi>=bond, chi=0, tol=0/None, all-false '
        'mask, chi=bond+1, checkerboard mask with chi>=bond), random start/stop/step incl. negative and out-of-range, '
        'truncating settings (model: svd), wrong-shape mask; networks 1x2..3x4/4x3 whose bonds are drawn independently '
        'from {1,2,3,4,7,8,9,16,17} (wide and narrow bonds mixed in one network, cost-budgeted; entries {-1,1}/small/'
        'wide) with the same monitors against a second independent exact evaluation and the model contract/split; '
        'columns with such legs for pairwise/ladder/inner product; model exactValue (brute force) for networks with <= 20000 bond assignments; unit ops on random and '
        'malformed MPS (non-contiguous None, non-scalar, length mismatch, incompatible bonds, broadcast bonds). '
        'non-trivial = network with at least two columns or rows and a bond of dimension > 1, or a malformed input')


class _SVD(Exception):
    pass


@contextlib.contextmanager
def svd_trap():
    """make the LAPACK path observable: entering left_canonical_form from truncate raises _SVD"""
    from qecsim.tensortools import mps as tt_mps
    old = tt_mps.left_canonical_form

    def trap(*a, **k):
        raise _SVD()
    tt_mps.left_canonical_form = trap
    try:
        yield
    finally:
        tt_mps.left_canonical_form = old


# ------------------------------------------------------------------------------------------ wire

def cint(x):
    """canonical exact integer of a numpy / python / mpf number; None when it is not an integer"""
    if isinstance(x, (int, np.integer)):
        return int(x)
    if isinstance(x, (float, np.floating)):
        return int(x) if float(x).is_integer() else None
    if isinstance(x, mp.mpf):
        return int(x) if mp.isint(x) else None
    try:
        return cint(x.item())
    except Exception:
        return None


def wire_t(t):
    if t is None:
        return 'N'
    vals = [cint(v) for v in np.asarray(t).flatten()]
    if any(v is None for v in vals) or np.asarray(t).ndim != 4:
        return 'nonint'
    return '{}.{}.{}.{}:{}'.format(*t.shape, ','.join(map(str, vals)) if vals else '_')


def wire_mps(m):
    m = list(m)
    return ';'.join(wire_t(t) for t in m) if m else '_'


def wire_net(tn):
    return '{}x{}'.format(*tn.shape), wire_mps(tn.flatten())


def wire_mask(mask):
    if mask is None:
        return 'N'
    return '{}x{}:{}'.format(mask.shape[0], mask.shape[1], core.bits(mask.flatten()))


def wire_tol(tol):
    return 'N' if tol is None else rat(Fraction(tol))


def parse_t(s, dtype):
    if s == 'N':
        return None
    sh, dat = s.split(':')
    shape = tuple(int(x) for x in sh.split('.'))
    vals = [] if dat == '_' else [int(x) for x in dat.split(',')]
    if dtype == 'object':
        a = np.empty(len(vals), dtype=object)
        a[:] = vals
    else:
        a = np.array(vals, dtype=(np.int64 if dtype == 'int64' else np.float64))
    return a.reshape(shape)


def parse_mps(s, dtype):
    return [] if s == '_' else [parse_t(x, dtype) for x in s.split(';')]


def parse_net(shape, sites, dtype):
    r, c = (int(x) for x in shape.split('x'))
    tn = np.empty((r, c), dtype=object)
    flat = parse_mps(sites, dtype)
    for i, t in enumerate(flat):
        tn[i // c, i % c] = t
    return tn


# ------------------------------------------------------------------------------------------ generators

def rand_entry(rng, mag):
    r = rng.random()
    if r < 0.15:
        return 0
    if mag == 'small':
        return rng.randint(-3, 3)
    if mag == 'unit':
        return rng.choice([-1, 1, 1])
    if mag == 'pos':
        return rng.randint(1, 5)
    if r < 0.6:
        return rng.randint(-9, 9)
    return rng.choice([-1, 1]) * rng.choice([10 ** 6, 999983, 10 ** 3, 12345, 1, 2])


def mk_tensor(rng, shape, dtype, mag):
    n = shape[0] * shape[1] * shape[2] * shape[3]
    vals = [rand_entry(rng, mag) for _ in range(n)]
    if dtype == 'object':
        a = np.empty(n, dtype=object)
        a[:] = vals
    else:
        a = np.array(vals, dtype=(np.int64 if dtype == 'int64' else np.float64))
    return a.reshape(shape)


def gen_net(rng, R, C, dtype, mag, maxbond=3, pad=False, exact_guard=True, bonds=None):
    """compatible grid; None padding at column ends; returns (tn, info).  bonds: optional callable
    (rng, present) -> (H, V) assigning every horizontal / vertical bond its dimension (default: 1..maxbond)"""
    present = [[True] * C for _ in range(R)]
    if pad and R >= 2:
        # every column keeps one contiguous run of tensors; runs of adjacent columns overlap or touch, so that every
        # pairwise-contracted MPS of every sweep is contiguous (the documented domain of contract); pad='loose' drops
        # that requirement (then the real code may raise ValueError, which is only checked for correspondence)
        prev = None
        for c in range(C):
            for _ in range(50):
                top, bot = 0, 0
                if rng.random() < 0.6:
                    top = rng.randint(0, R - 1)
                    bot = rng.randint(0, R - 1 - top)
                if pad == 'loose' or prev is None or (top <= prev[1] and R - bot >= prev[0]):
                    break
            else:
                top, bot = 0, 0
            prev = (top, R - bot)
            for r in range(top):
                present[r][c] = False
            for r in range(R - bot, R):
                present[r][c] = False
    if bonds is not None:
        H, V = bonds(rng, present)
    else:
        H = [[(rng.randint(1, maxbond) if present[r][c] and present[r][c + 1] else 1) for c in range(C - 1)]
             for r in range(R)]
        V = [[(rng.randint(1, maxbond) if present[r][c] and present[r + 1][c] else 1) for c in range(C)]
             for r in range(R - 1)]
    tn = np.empty((R, C), dtype=object)
    for r in range(R):
        for c in range(C):
            if not present[r][c]:
                tn[r, c] = None
                continue
            shape = (V[r - 1][c] if r > 0 else 1, H[r][c] if c < C - 1 else 1,
                     V[r][c] if r < R - 1 else 1, H[r][c - 1] if c > 0 else 1)
            tn[r, c] = mk_tensor(rng, shape, dtype, mag)
    if dtype != 'object' and exact_guard:
        # keep int64 / float64 arithmetic exact: every intermediate entry is bounded by the product over cells of
        # the sum of absolute entries; beyond 2^52 switch the whole network to Python ints
        bound = 1
        for t in tn.flatten():
            if t is not None:
                bound *= max(int(np.abs(t).sum()), 1)
        if bound >= 2 ** 52:
            dtype = 'object'
            for r in range(R):
                for c in range(C):
                    if tn[r, c] is not None:
                        a = np.empty(tn[r, c].size, dtype=object)
                        a[:] = [int(x) for x in tn[r, c].flatten()]
                        tn[r, c] = a.reshape(tn[r, c].shape)
    bonds = [b for row in H for b in row] + [b for row in V for b in row]
    info = {'R': R, 'C': C, 'dtype': dtype, 'mag': mag, 'maxbond': max(bonds + [1]),
            'nones': sum(not p for row in present for p in row)}
    return tn, info


def safe_mag(R, C, dtype, mag):
    """keep int64 / float64 arithmetic exact: products of R*C entries times the number of terms must stay < 2^53"""
    if dtype == 'object':
        return mag
    return 'small' if R * C <= 12 else 'pos' if R * C <= 16 else None


# --- bond-dimension assignments as an input class of their own: every bond draws its dimension independently from a set
# that mixes the trivial, the small and the wide (around the powers of two at which array libraries switch code paths)

BOND_SET = [1, 2, 3, 4, 7, 8, 9, 16, 17]


def _pair_shape(le, ri):
    """shape and multiply-add count of one pairwise cell (le.E summed with ri.W); None is copied through"""
    if le is None:
        return ri, 0
    if ri is None:
        return le, 0
    return (le[0] * ri[0], ri[1], le[2] * ri[2], le[3]), le[0] * le[1] * le[2] * le[3] * ri[0] * ri[1] * ri[2]


def sweep_ops(cols):
    """multiply-adds of contracting the given columns (lists of 4-leg shapes or None) left to right and closing the
    last one by the ladder: a cost model of the documented algorithm, used only to keep generated networks cheap"""
    state, total = list(cols[0]), 0
    for col in cols[1:]:
        nxt = []
        for le, ri in zip(state, col):
            sh, ops = _pair_shape(le, ri)
            nxt.append(sh); total += ops
        state = nxt
    v = None
    for t in state:
        if t is None:
            continue
        if v is None:
            v = t
        else:
            total += v[0] * v[1] * v[2] * v[3] * t[1] * t[2] * t[3]
            v = (v[0], v[1] * t[1], t[2], v[3] * t[3])
    return total


def net_cost(present, H, V):
    """(multiply-adds of the dearest of the left-to-right / right-to-left / by-rows sweeps, number of tensor entries)"""
    R, C = len(present), len(present[0])

    def shape(r, c):
        if not present[r][c]:
            return None
        return (V[r - 1][c] if r > 0 else 1, H[r][c] if c < C - 1 else 1,
                V[r][c] if r < R - 1 else 1, H[r][c - 1] if c > 0 else 1)
    cols = [[shape(r, c) for r in range(R)] for c in range(C)]
    mirror = [[None if t is None else (t[0], t[3], t[2], t[1]) for t in col] for col in reversed(cols)]
    rows = [[None if cols[c][r] is None else tuple(reversed(cols[c][r])) for c in range(C)] for r in range(R)]
    entries = sum(t[0] * t[1] * t[2] * t[3] for col in cols for t in col if t is not None)
    return max(sweep_ops(cols), sweep_ops(mirror), sweep_ops(rows)), entries


def mixed_bonds(max_ops, max_entries, dims=None):
    """bond assignment drawing every bond from BOND_SET (uniformly over the set, so wide and narrow bonds meet at the
    same tensor, in the same column pair and in the same row pair); while the network is dearer than the budget one
    bond > 1 (picked at random) steps down to the next smaller dimension of the set"""
    dims = dims or BOND_SET

    def f(rng, present):
        R, C = len(present), len(present[0])
        H = [[(rng.choice(dims) if present[r][c] and present[r][c + 1] else 1) for c in range(C - 1)] for r in range(R)]
        V = [[(rng.choice(dims) if present[r][c] and present[r + 1][c] else 1) for c in range(C)] for r in range(R - 1)]
        while True:
            ops, entries = net_cost(present, H, V)
            if ops <= max_ops and entries <= max_entries:
                return H, V
            big = [(M, r, c) for M in (H, V) for r in range(len(M)) for c in range(len(M[r])) if M[r][c] > 1]
            M, r, c = rng.choice(big)
            M[r][c] = max(d for d in dims if d < M[r][c])
    return f


# ------------------------------------------------------------------------------------------ independent exact value

def py_exact(tn):
    """exact contraction value by a cell-by-cell transfer sweep in pure Python (ints / Fractions); None ↦ scalar 1.
    Independent of qecsim: no reshape, no merging of bonds, explicit indices only."""
    R, C = tn.shape

    def ent(t, i, j, k, l):
        if t is None:
            return 1
        v = t[i, j, k, l]
        if isinstance(v, (float, np.floating)):
            return Fraction(float(v))
        return int(v)

    def shp(t):
        return (1, 1, 1, 1) if t is None else t.shape
    # state: dict mapping tuple(east index of every row for the boundary between column c-1 and c) -> value
    state = {tuple([0] * R): 1}
    for c in range(C):
        # contract column c: iterate rows carrying the vertical index
        new = {}
        for west, val in state.items():
            if val == 0:
                continue
            # partial: dict (tuple east indices so far, south index) -> value
            part = {((), 0): val}
            for r in range(R):
                t = tn[r, c]
                n, e, s, w = shp(t)
                nxt = {}
                for (east, up), v in part.items():
                    if up >= n or west[r] >= w:
                        raise ValueError('incompatible network')
                    for j in range(e):
                        for k in range(s):
                            x = ent(t, up, j, k, west[r])
                            if x != 0:
                                key = (east + (j,), k)
                                nxt[key] = nxt.get(key, 0) + v * x
                part = nxt
            for (east, down), v in part.items():
                if down == 0:
                    new[east] = new.get(east, 0) + v
        state = new
    return sum(v for east, v in state.items() if all(x == 0 for x in east))


def _obj(t):
    """tensor as an object array of Python ints (float entries must hold integers); None ↦ the scalar 1"""
    a = np.empty((1, 1, 1, 1) if t is None else t.shape, dtype=object)
    if t is None:
        a[...] = 1
    else:
        flat = a.reshape(-1)
        for i, v in enumerate(t.reshape(-1)):
            flat[i] = int(v)
    return a


def np_states(tn, open_west=False, conv=None):
    """the second independent exact evaluation, cheap for wide bonds: column by column, row by row, one np.tensordot
    over two explicitly named axes (this row's west leg and the running vertical leg) of an object array of Python
    ints with one axis per row — no reshape, no merged legs, nothing of qecsim.  Returns the boundary state after every
    column (axes: east leg of every row); with open_west the west legs of column 0 stay open (axes: west legs of all
    rows, then east legs)."""
    R, C = tn.shape
    wd = [(1 if tn[r, 0] is None else tn[r, 0].shape[3]) if open_west and C else 1 for r in range(R)]
    n0 = 1
    for d in wd:
        n0 *= d
    state = np.empty(n0, dtype=object)
    if open_west:   # identity on the west legs: axes (w'_0.., w_0..)
        state = np.empty((n0, n0), dtype=object)
        state[...] = 0
        for i in range(n0):
            state[i, i] = 1
        state = state.reshape(tuple(wd) + tuple(wd))
    else:
        state[...] = 1
        state = state.reshape((1,) * R)
    lead = R if open_west else 0
    conv = conv or _obj
    out = []
    for c in range(C):
        a = state.reshape(state.shape + (1,))
        for r in range(R):
            t = conv(tn[r, c])
            a = np.tensordot(a, t, axes=([lead + r, a.ndim - 1], [3, 0]))   # remaining axes …, then (e, s)
            a = np.moveaxis(a, -2, lead + r)
        if a.shape[-1] != 1:
            raise ValueError('incompatible network')
        state = a[..., 0]
        out.append(state)
    return out


def np_exact(tn):
    R, C = tn.shape
    if C == 0:
        return 1
    last = np_states(tn)[-1]
    if last.size != 1:
        raise ValueError('incompatible network')
    return int(last.reshape(-1)[0])


def exact_value(tn):
    """exact value of an integer network: the pure-Python transfer sweep for small bonds, the tensordot sweep for wide
    ones; both (they share no code) whenever the first is cheap, and they must agree"""
    entries = sum(t.size for t in tn.flatten() if t is not None)
    wide = any(max(t.shape) > 3 for t in tn.flatten() if t is not None)
    if not wide:
        return py_exact(tn)
    v = np_exact(tn)
    if entries <= 300:
        w = py_exact(tn)
        if w != v:
            raise core.Infra('the two independent exact evaluations disagree: {} vs {}'.format(v, w))
    return v


# ------------------------------------------------------------------------------------------ real code, canonical outcomes

def canon_full(v):
    i = cint(v)
    if not isinstance(v, mp.mpf):   # documented :rtype: mpmath.mpf (the product with the mpf multiplier)
        return 'ok s not-mpf:{}:{!r}'.format(type(v).__name__, v)
    return 'ok s ' + (str(i) if i is not None else 'nonint:{!r}'.format(v))


def canon_part(res, mult):
    m = cint(mult)
    if not isinstance(mult, mp.mpf):   # the multiplier carries norms that may leave the float64 range
        m = 'not-mpf:{}'.format(type(mult).__name__)
    return 'ok p {} {}'.format(m if m is not None else 'nonint', 'None' if res is None else wire_mps(res))


def guarded(f):
    try:
        with svd_trap():
            return f()
    except _SVD:
        return 'svd'
    except ValueError:
        return 'ValueError'
    except TypeError:
        return 'TypeError'
    except AssertionError:
        return 'AssertionError'
    except IndexError:
        return 'IndexError'


def impl_contract(tn, chi=None, tol=None, start=None, stop=None, step=None, mask=None):
    from qecsim.tensortools import mps2d

    def f():
        r = mps2d.contract(tn, chi=chi, tol=tol, start=start, stop=stop, step=step, mask=mask)
        if isinstance(r, tuple):
            return canon_part(r[0], r[1])
        return canon_full(r)
    return guarded(f)


def impl_split(tn, k, chi=None, tol=None, mask=None):
    from qecsim.tensortools import mps2d, mps as tt_mps

    def f():
        l, ml = mps2d.contract(tn, chi=chi, tol=tol, stop=k, mask=mask)
        r, mr = mps2d.contract(tn, chi=chi, tol=tol, start=-1, stop=k - 1, step=-1, mask=mask)
        if l is None or r is None:
            raise TypeError()
        ip = tt_mps.inner_product(l, r)
        v = ip * ml * mr
        i = cint(v)
        return 'ok ' + (str(i) if i is not None else 'nonint')
    return guarded(f)


def range_spellings(lo, hi, C):
    """every (start, stop, step) spelling — None, in-range, negative-index, clamped out-of-range; step None / 1 / -1 —
    whose Python slice resolution over C columns is exactly the columns lo..hi-1, ascending (step None / 1) or
    descending (step -1).  Resolution is Python's own `slice.indices`, nothing of qecsim."""
    fw = list(range(lo, hi))
    bw = fw[::-1]
    cands = [None]
    for v in (lo, hi, lo - 1, hi - 1, lo - C, hi - C, lo - 1 - C, hi - 1 - C, 0, -1, C, C - 1, C + 3, -C, -C - 1, -C - 4):
        if v not in cands:
            cands.append(v)
    out = []
    for step in (None, 1, -1):
        want = bw if step == -1 else fw
        for a in cands:
            for b in cands:
                if list(range(*slice(a, b, step).indices(C))) == want:
                    out.append((a, b, step))
    return out


def default_spelling(lo, hi, C, last=False):
    """the spellings of impl_split: left / middle parts forwards with step None, the last part backwards"""
    if last:
        return (-1, lo - 1, -1)
    return (None if lo == 0 else lo, hi, None)


def partitions(C, max_parts):
    """cut points 0 = c0 < c1 < … < cm = C for 2 <= m <= max_parts"""
    out = []
    for m in range(2, max_parts + 1):
        for cuts in itertools.combinations(range(1, C), m - 1):
            out.append((0,) + cuts + (C,))
    return out


class Parts:
    """partial contractions of one network by spelled column range (cached), and their recombination"""

    def __init__(self, tn, **kw):
        self.tn, self.kw, self.cache = tn, kw, {}

    def part(self, sp):
        from qecsim.tensortools import mps2d
        if sp not in self.cache:
            def f():
                r = mps2d.contract(self.tn, start=sp[0], stop=sp[1], step=sp[2], **self.kw)
                if not isinstance(r, tuple):
                    return 'not-a-partial-result'
                if r[0] is None:
                    return 'empty-partial-result'
                return r
            self.cache[sp] = guarded(f)
        return self.cache[sp]

    def combine(self, spellings, assoc='left'):
        """value of the network from the partial contractions of consecutive column segments (left to right):
        contract_pairwise folds the segments from the left (or from the right), inner_product closes, multipliers
        multiply"""
        from qecsim.tensortools import mps as tt_mps
        ps = [self.part(sp) for sp in spellings]
        for sp, p in zip(spellings, ps):
            if isinstance(p, str):
                return '{} in contract(start={}, stop={}, step={})'.format(p, *sp)

        def f():
            if assoc == 'left':
                acc = ps[0][0]
                for p in ps[1:-1]:
                    acc = tt_mps.contract_pairwise(acc, p[0])
                v = tt_mps.inner_product(acc, ps[-1][0])
            else:
                acc = ps[-1][0]
                for p in ps[-2:0:-1]:
                    acc = tt_mps.contract_pairwise(p[0], acc)
                v = tt_mps.inner_product(ps[0][0], acc)
            for p in ps:
                v = v * p[1]
            i = cint(v)
            return 'ok ' + (str(i) if i is not None else 'nonint:{!r}'.format(v))
        return guarded(f)


def round_like_impl(x):
    """the real full contraction returns mpf(1.0) * value: one rounding to mp.prec bits"""
    return int(mp.mpf(1.0) * int(x))


def post_full(model):
    if model.startswith('ok s '):
        return 'ok s ' + str(round_like_impl(model[5:]))
    return model


def post_split(model):
    if model.startswith('ok '):
        return 'ok ' + str(round_like_impl(model[3:]))
    return model


def contract_line(tn, chi=None, tol=None, start=None, stop=None, step=None, mask=None):
    sh, st = wire_net(tn)
    return 'c11 contract {} {} {} {} {} {} {} {}'.format(
        sh, st, core.opt(chi), wire_tol(tol), core.opt(start), core.opt(stop), core.opt(step), wire_mask(mask))


# ------------------------------------------------------------------------------------------ the property on the real code

def noop_settings(rng, tn, bond_cap):
    R, C = tn.shape
    allfalse = np.zeros((R, C), dtype=bool)
    alltrue = np.ones((R, C), dtype=bool)
    checker = np.array([[(r + c) % 2 == 0 for c in range(C)] for r in range(R)], dtype=bool).reshape(R, C)
    return [
        ('chi=bond+1', dict(chi=bond_cap + 1)),
        ('mask=checker,chi>=bond', dict(chi=bond_cap, mask=checker)),
        ('chi>=bond', dict(chi=bond_cap)),
        ('chi=0', dict(chi=0)),
        ('tol=0', dict(tol=0.0)),
        ('chi>=bond,tol=0,mask=true', dict(chi=bond_cap + rng.randint(0, 5), tol=0.0, mask=alltrue)),
        ('mask=false,chi=1', dict(chi=1, mask=allfalse)),
        ('mask=false,tol=.1', dict(tol=0.1, mask=allfalse)),
    ]


def max_bond_cap(tn):
    """an upper bound of every bond that can occur in any sweep: product of all N (and W) dimensions per row"""
    cap = 1
    for row in tn:
        p = 1
        for t in row:
            if t is not None:
                p *= max(t.shape[0], 1)
        cap = max(cap, p)
    return cap


def property_battery(tn, rng=None, settings=True, ranges='sample'):
    """evaluate the property on the real code for one compatible network.
    Returns None when it holds, else a dict naming the failing evaluation (values as exact ints).
    ranges: 'sample' — every partition of the columns into 2 segments and some into 3 / 4 segments, one random
    spelling of every segment's start/stop/step, a few random spellings of the full range; 'all' — every spelling of
    the full range, and for every partition into <= 3 segments every spelling of one segment at a time (the others
    spelled as impl_split does), both associations of the recombination."""
    from qecsim.tensortools import mps2d
    import random as _r
    rng = rng or _r.Random(0)
    R, C = tn.shape
    exact = exact_value(tn)
    want = 'ok s ' + str(round_like_impl(exact))
    sh, st = wire_net(tn)
    base = {'net_shape': sh, 'net_sites': st, 'dtype': net_dtype(tn), 'exact_value': str(exact)}

    def bad(what, got, **kw):
        d = dict(base); d.update(kw); d.update({'what': what, 'got': got, 'expected': want}); return d
    got = impl_contract(tn)
    if got != want:
        return bad('left-to-right contraction differs from the exact value', got, call='contract(tn)')
    got = impl_contract(tn, step=-1)
    if got != want:
        return bad('right-to-left contraction differs from the exact value', got, call='contract(tn, step=-1)')
    try:
        tnt = mps2d.transpose(tn)
        got = impl_contract(tnt)
    except Exception as ex:  # transposed padded columns may be non-contiguous rows: only a None-free net must work
        got = type(ex).__name__
    if got != want and not (got == 'ValueError' and any(t is None for t in tn.flatten())):
        return bad('contraction of the transposed network differs from the exact value', got,
                   call='contract(transpose(tn))')
    for k in range(1, C):
        got = impl_split(tn, k)
        if got != 'ok ' + str(round_like_impl(exact)) and got != 'ok ' + str(exact):
            return bad('split-and-recombine differs from the exact value', got, call='split', k=k)
    r = range_battery(tn, rng, exact, want, bad, ranges)
    if r:
        return r
    r = strided_battery(tn, rng, exact, bad, ranges)
    if r:
        return r
    r = inplace_update_battery(tn, rng, base)
    if r:
        return r
    if settings:
        cap = max_bond_cap(tn)
        for name, kw in noop_settings(rng, tn, cap):
            for extra in ({}, {'step': -1}, {'step': 1}):
                a = dict(kw); a.update(extra)
                got = impl_contract(tn, **a)
                if got != want:
                    return bad('no-op truncation setting changes the value', got, call='contract', setting=name,
                               step=extra.get('step'))
        # … also under spelled ranges and recombined partial contractions (one setting per network)
        name, kw = rng.choice(noop_settings(rng, tn, cap))
        r = range_battery(tn, rng, exact, want, bad, 'sample', kw_name=name, **kw)
        if r:
            return r
        # … and under strided ranges (settings without a mask: the mask has the shape of the contracted network)
        name, kw = rng.choice([nk for nk in noop_settings(rng, tn, cap) if 'mask' not in nk[1]])
        r = strided_battery(tn, rng, exact, bad, 'sample', kw_name=name, **kw)
        if r:
            return r
    return None


def inplace_update_battery(tn, rng, base):
    """HISTORY: the caller keeps its network and UPDATES TENSORS IN PLACE between evaluations (a sweep over parameters
    re-using the arrays): after every entry point - contract both ways, transpose + contract - has been evaluated once on
    these very objects, one or two tensors (interior ones first) get an entry changed in place; every entry point must
    then give the exact value of the UPDATED network.  Integer networks only (exact comparison); restored afterwards."""
    from qecsim.tensortools import mps2d
    sites = [(i, j) for i in range(tn.shape[0]) for j in range(tn.shape[1])
             if tn[i, j] is not None and isinstance(tn[i, j], np.ndarray) and tn[i, j].dtype.kind in 'iO' and tn[i, j].size]
    if not sites:
        return None
    sites.sort(key=lambda ij: -tn[ij].size)
    chosen = sites[:1] + ([rng.choice(sites)] if len(sites) > 1 else [])
    saved = []
    try:
        for ij in chosen:
            t = tn[ij]
            idx = tuple(rng.randrange(d) for d in t.shape)
            saved.append((ij, idx, t[idx]))
            t[idx] = t[idx] + rng.choice([1, -1, 2])
        exact2 = exact_value(tn)
        want2 = 'ok s ' + str(round_like_impl(exact2))
        calls = [('contract(tn)', lambda: impl_contract(tn)), ('contract(tn, step=-1)', lambda: impl_contract(tn, step=-1))]
        if not any(t is None for t in tn.flatten()):
            calls.append(('contract(transpose(tn))', lambda: impl_contract(mps2d.transpose(tn))))
        for name, f in calls:
            try:
                got = f()
            except Exception as ex:   # noqa: BLE001
                got = type(ex).__name__
            if got != want2:
                sh, st = wire_net(tn)
                d = dict(base)
                d.update({'what': 'after an in-place update of the caller\'s tensors (same objects, every entry point already '
                                  'evaluated once before the update) the contraction differs from the exact value of the '
                                  'updated network', 'call': name, 'got': got, 'expected': want2,
                          'updated_sites': [list(ij) for ij in chosen], 'net_sites_after_update': st,
                          'exact_value_after_update': str(exact2)})
                return d
    finally:
        for ij, idx, v in reversed(saved):
            tn[ij][idx] = v
    return None


def range_battery(tn, rng, exact, want, bad, ranges='sample', kw_name=None, **kw):
    """"all start/stop/step ranges": the full range in every spelling gives the exact value; the column range cut into
    consecutive segments, each contracted by its own spelled range (forwards or backwards) and recombined with
    contract_pairwise / inner_product and the multipliers, gives the exact value"""
    R, C = tn.shape
    if C == 0:
        return None
    okp = ('ok ' + str(round_like_impl(exact)), 'ok ' + str(exact))
    full = range_spellings(0, C, C)
    if ranges == 'sample':
        pick = [(None, None, 1), (0, C, 1)] + [rng.choice(full) for _ in range(3)]
    else:
        pick = full
    for sp in pick:
        got = impl_contract(tn, start=sp[0], stop=sp[1], step=sp[2], **kw)
        if got != want:
            return bad('contraction over the full column range, spelled start={} stop={} step={}, differs from the '
                       'exact value'.format(*sp), got, call='contract(tn, range)', ranges=[list(sp)],
                       **({'setting': kw_name} if kw_name else {}))
    parts = Parts(tn, **kw)
    spell = {}

    def spellings(lo, hi):
        if (lo, hi) not in spell:
            spell[(lo, hi)] = range_spellings(lo, hi, C)
        return spell[(lo, hi)]

    def check(sps, assoc):
        got = parts.combine(sps, assoc)
        if got not in okp:
            return bad('partial contractions of {} consecutive column segments, recombined with contract_pairwise / '
                       'inner_product and the multipliers, differ from the exact value'.format(len(sps)), got,
                       call='parts', ranges=[list(sp) for sp in sps], assoc=assoc, expected_value=okp[0],
                       **({'setting': kw_name} if kw_name else {}))
        return None
    if ranges == 'sample':
        todo = partitions(C, 2)
        p3 = [p for p in partitions(C, 3) if len(p) == 4]
        todo += rng.sample(p3, min(3, len(p3)))
        p4 = [p for p in partitions(C, 4) if len(p) == 5]
        todo += rng.sample(p4, min(1, len(p4)))
        for cuts in todo:
            sps = [rng.choice(spellings(lo, hi)) for lo, hi in zip(cuts, cuts[1:])]
            r = check(sps, rng.choice(['left', 'right']))
            if r:
                return r
        return None
    for cuts in partitions(C, 3):
        segs = list(zip(cuts, cuts[1:]))
        dflt = [default_spelling(lo, hi, C, last=(i == len(segs) - 1)) for i, (lo, hi) in enumerate(segs)]
        for i, (lo, hi) in enumerate(segs):
            for sp in spellings(lo, hi):
                sps = list(dflt); sps[i] = sp
                for assoc in (('left', 'right') if len(segs) > 2 else ('left',)):
                    r = check(sps, assoc)
                    if r:
                        return r
    return None


def strided_spellings(want, step, C):
    """every (start, stop) spelling — None, in-range, negative-index, clamped out-of-range — whose Python slice
    resolution with the given step (|step| >= 2) over C columns visits exactly the columns `want`, in that order"""
    lo, hi, s = min(want), max(want), abs(step)
    cands = [None]
    for v in (lo, hi, lo - 1, hi + 1, lo - s + 1, hi + s - 1, lo - s, hi + s, 0, -1, C, C - 1, C + 3, -C, -C - 1, -C - 4,
              lo - C, hi - C, hi + 1 - C, lo - 1 - C):
        if v not in cands:
            cands.append(v)
    return [(a, b, step) for a in cands for b in cands if list(range(*slice(a, b, step).indices(C))) == want]


def embed_strided(net, lo, hi, step, lead, trail, rng):
    """a network whose columns lead, lead+|step|, … are the columns lo..hi-1 of `net`; every other column is a filler
    (a scrambled copy of some column of `net`) that a range of that step never visits.  The network always has more
    columns than are visited, so a contraction over the visited columns is a PARTIAL contraction.
    Returns (network, visited positions ascending)."""
    R, K = net.shape
    k, s = hi - lo, abs(step)
    C = lead + (k - 1) * s + 1 + trail
    if C == k:
        C += 1
    pos = [lead + j * s for j in range(k)]
    tn = np.empty((R, C), dtype=object)
    for c in range(C):
        if c in pos:
            src, scramble = lo + pos.index(c), False
        else:
            src, scramble = rng.randrange(K), True
        for r in range(R):
            t = net[r, src]
            if t is not None and scramble:
                t = -t.reshape(-1)[::-1].reshape(t.shape) + 1
            tn[r, c] = None if t is None else t.copy()
    return tn, pos


class StridedParts(Parts):
    """partial contractions by spelled range, every part over its own network: spelling (start, stop, step, index)"""

    def __init__(self, tns, **kw):
        Parts.__init__(self, None, **kw)
        self.tns = tns

    def part(self, sp):
        self.tn = self.tns[sp[3]]
        return Parts.part(self, sp)


def strided_battery(tn, rng, exact, bad, mode='sample', kw_name=None, **kw):
    """ranges with |step| >= 2: such a range visits only some columns, so (on a network with more columns than are
    visited) it is a partial contraction that must return (MPS/MPO, multiplier) of the visited columns alone.  The
    columns of `tn` are cut into consecutive segments; a segment is placed at the strided positions of a larger
    network (fillers in between, before and after), contracted there by a spelled start/stop/step that visits exactly
    these positions (forwards or backwards, from a network end or from inside, stop None / clamped / exact), and
    the results are recombined with contract_pairwise / inner_product and the multipliers: that must be the exact
    value of `tn`.  An exception or a bare scalar instead of the pair is a failure of the property on that input."""
    R, K = tn.shape
    if K < 2:
        return None
    okp = ('ok ' + str(round_like_impl(exact)), 'ok ' + str(exact))

    def check(cuts, plan, assoc, pick):
        """plan: per segment None (contracted on tn itself, default spelling) or (step, lead, trail)"""
        segs = list(zip(cuts, cuts[1:]))
        tns, choices, descr = [], [], []
        for i, ((lo, hi), pl) in enumerate(zip(segs, plan)):
            if pl is None:
                tns.append(tn)
                choices.append([default_spelling(lo, hi, K, last=(i == len(segs) - 1))])
                descr.append(None)
            else:
                step, lead, trail = pl
                e, pos = embed_strided(tn, lo, hi, step, lead, trail, rng)
                tns.append(e)
                choices.append(strided_spellings(pos if step > 0 else pos[::-1], step, e.shape[1]))
                descr.append(wire_net(e))
        parts = StridedParts(tns, **kw)
        for combo in pick(choices):
            sps = [tuple(sp) + (i,) for i, sp in enumerate(combo)]
            got = parts.combine(sps, assoc)
            if got not in okp:
                return bad('partial contractions over ranges with |step| >= 2 (segments of the network placed at the '
                           'strided columns of larger networks), recombined with contract_pairwise / inner_product '
                           'and the multipliers, differ from the exact value', got, call='strided',
                           parts=[{'columns': [lo, hi], 'range': list(sp[:3]),
                                   'net_shape': d[0] if d else None, 'net_sites': d[1] if d else None}
                                  for (lo, hi), sp, d in zip(segs, sps, descr)],
                           assoc=assoc, expected_value=okp[0], **({'setting': kw_name} if kw_name else {}))
        return None
    steps = [2, -2, 2, -2, 3, -3, 4, -5, K + 1, -K - 2]
    if mode == 'sample':
        for _ in range(2):
            m = 2 if K == 2 or rng.random() < 0.7 else 3
            cuts = rng.choice([p for p in partitions(K, m) if len(p) == m + 1])
            plan = [None] * m
            for i in rng.sample(range(m), rng.choice([1, 1, m])):
                s = rng.choice(steps)
                plan[i] = (s, rng.choice([0, 0, 0, 1, 2]), rng.choice([0, 0, 0, 1, abs(s) - 1]))
            # one spelling per segment: the plainest one (None wherever possible) half of the time, else any
            r = check(cuts, plan, rng.choice(['left', 'right']),
                      lambda ch: [[c[0] if rng.random() < 0.5 else rng.choice(c) for c in ch]])
            if r:
                return r
        return None
    for cuts in partitions(K, 2):
        for i in (0, 1):
            for s in (2, -2, 3, -3):
                for lead, trail in ((0, 0), (1, 1)):
                    plan = [None, None]
                    plan[i] = (s, lead, trail)
                    r = check(cuts, plan, 'left',
                              lambda ch: [[c[0] if j != i else sp for j, c in enumerate(ch)] for sp in ch[i]])
                    if r:
                        return r
    return None


def net_dtype(tn):
    for t in tn.flatten():
        if t is not None:
            return 'object' if t.dtype == object else 'int64' if t.dtype.kind == 'i' else 'float64'
    return 'int64'


# ------------------------------------------------------------------------------------------ run

def run(ctx):
    from qecsim.tensortools import mps2d, mps as tt_mps, tsr as tt_tsr
    rng = ctx.rng
    n_nets = ctx.scale(1200, 12000)
    shapes = [(R, C) for R in range(1, 6) for C in range(1, 6)]
    exact_done = 0
    for it in range(n_nets):
        if it < len(shapes):
            R, C = shapes[it]
        else:
            R, C = rng.choice(shapes)
        dtype = rng.choice(['int64', 'object', 'object', 'float64'])
        mag = 'wide'
        if dtype != 'object':
            mag = rng.choice(['small', 'pos'])
        maxbond = rng.choice([1, 2, 2, 3, 3]) if R * C <= 16 else rng.choice([1, 2, 2, 3])
        pad = rng.random() < 0.35
        tn, info = gen_net(rng, R, C, dtype, mag, maxbond=maxbond, pad=pad)
        sh, st = wire_net(tn)
        nontriv = (R >= 2 or C >= 2) and info['maxbond'] > 1
        dtype = info['dtype']
        meta = {'net_shape': sh, 'net_sites': st, 'dtype': dtype}
        ctx.count('shape', sh); ctx.count('dtype', dtype); ctx.count('maxbond', info['maxbond'])
        ctx.count('nones', min(info['nones'], 5))
        # --- monitor: the property itself on the real code (independent oracle)
        fail = property_battery(tn, rng)
        if fail:
            ctx.monitor_fail(fail['what'], fail, key='mps2d.contract:' + fail.get('call', ''))
        # --- correspondence: full sweeps
        ctx.case(contract_line(tn), impl_contract(tn), nontrivial=nontriv, meta=meta, post=post_full)
        ctx.case(contract_line(tn, step=-1), impl_contract(tn, step=-1), nontrivial=nontriv, meta=meta, post=post_full)
        # transposed
        tnt = mps2d.transpose(tn)
        tsh, tst = wire_net(tnt)
        ctx.case('c11 transpose {} {}'.format(sh, st), 'ok {} {}'.format(tsh, tst), nontrivial=nontriv, meta=meta)
        ctx.case(contract_line(tnt), impl_contract(tnt), nontrivial=nontriv,
                 meta={'net_shape': tsh, 'net_sites': tst, 'dtype': dtype, 'transposed_of': meta}, post=post_full)
        # splits
        for k in range(1, C):
            ctx.case('c11 split {} {} {} N N N'.format(sh, st, k), impl_split(tn, k), nontrivial=nontriv,
                     meta=dict(meta, k=k), post=post_split)
            # the two partial results themselves
            ctx.case(contract_line(tn, stop=k), impl_contract(tn, stop=k), nontrivial=nontriv, meta=meta)
            ctx.case(contract_line(tn, start=-1, stop=k - 1, step=-1),
                     impl_contract(tn, start=-1, stop=k - 1, step=-1), nontrivial=nontriv, meta=meta)
        # spelled ranges: the full range and two random segments, each in a random spelling
        sp = rng.choice(range_spellings(0, C, C))
        ctx.case(contract_line(tn, start=sp[0], stop=sp[1], step=sp[2]),
                 impl_contract(tn, start=sp[0], stop=sp[1], step=sp[2]), nontrivial=nontriv,
                 meta=dict(meta, args=[None, None] + list(sp)), post=post_full)
        ctx.count('full_range_step', sp[2])
        for _ in range(2 if C >= 2 else 0):
            lo = rng.randint(0, C - 1)
            hi = rng.randint(lo + 1, C if lo > 0 else C - 1)
            sp = rng.choice(range_spellings(lo, hi, C))
            ctx.case(contract_line(tn, start=sp[0], stop=sp[1], step=sp[2]),
                     impl_contract(tn, start=sp[0], stop=sp[1], step=sp[2]), nontrivial=nontriv,
                     meta=dict(meta, args=[None, None] + list(sp)))
            ctx.count('segment_step', sp[2])
        # no-op settings and truncating settings
        cap = max_bond_cap(tn)
        for name, kw in noop_settings(rng, tn, cap):
            if rng.random() < 0.5:
                a = dict(kw)
                if rng.random() < 0.3:
                    a['step'] = -1
                ctx.case(contract_line(tn, **a), impl_contract(tn, **a), nontrivial=nontriv,
                         meta=dict(meta, setting=name), post=post_full)
                ctx.count('setting', name)
        for _ in range(3):
            chi = rng.choice([None, 0, 1, 2, 3, 4, 9, 27, cap, cap + 1, max(cap - 1, 0), -1])
            tol = rng.choice([None, None, 0.0, 0, 1e-8, 0.5])
            r = rng.random()
            if r < 0.55:
                mask = None
            elif r < 0.95:
                mask = np.array([[rng.random() < 0.3 for _ in range(C)] for _ in range(R)], dtype=bool).reshape(R, C)
            else:
                mask = np.zeros((R + rng.choice([0, 1]), C + 1), dtype=bool)  # wrong shape
            start = rng.choice([None, None, None, None, 0, 1, -1, -2, C, C + 3, -C - 2, rng.randint(-C - 1, C + 1)])
            stop = rng.choice([None, None, None, None, 0, 1, -1, C, C - 1, C + 3, -C - 2, rng.randint(-C - 1, C + 1)])
            step = rng.choice([None, None, 1, 1, -1, -1, -1, 2, -2, 3, 0, C, -C])
            if step is not None and step < 0 and rng.random() < 0.5:
                start, stop = rng.choice([None, -1, C - 1, C + 2]), rng.choice([None, -C - 1, -C - 5])
            out = impl_contract(tn, chi=chi, tol=tol, start=start, stop=stop, step=step, mask=mask)
            ctx.case(contract_line(tn, chi=chi, tol=tol, start=start, stop=stop, step=step, mask=mask), out,
                     nontrivial=nontriv, meta=dict(meta, args=[chi, tol, start, stop, step]), post=post_full)
            ctx.count('contract_outcome', out.split(' ')[0] + (' ' + out.split(' ')[1] if out.startswith('ok') else ''))
        # exact value by the model's brute force
        nass = 1
        for t in tn.flatten():
            if t is not None:
                nass *= t.shape[1] * t.shape[2]
        if nass <= ctx.scale(4000, 20000) and R * C * nass <= ctx.scale(60000, 400000):
            exact_done += 1
            out = impl_contract(tn)
            ctx.case('c11 exact {} {}'.format(sh, st), out.replace('ok s ', 'ok '), nontrivial=nontriv,
                     meta=dict(meta, exact=True), post=post_split)
            ctx.case('c11 nassign {} {}'.format(sh, st), str(nass), nontrivial=False)
            ctx.count('exact_assignments', len(str(nass)))
    ctx.count('exact_networks', exact_done)
    wide_bond_cases(ctx)
    unit_cases(ctx)
    incompatible_cases(ctx)
    float_explore(ctx)
    magnitude_explore(ctx)
    if os.environ.get('QV_EXTRA_KNOWN'):  # development aid: candidate known_findings entries under evaluation
        ctx.known = list(ctx.known) + json.load(open(os.environ['QV_EXTRA_KNOWN'])).get('findings', [])
    float_range_boundary(ctx)
    return ctx.finish(RULE, search=search)


WIDE_SHAPES = [(1, 2), (1, 3), (2, 1), (3, 1), (2, 2), (2, 2), (2, 3), (3, 2), (3, 3), (3, 3), (2, 4), (4, 2), (3, 4),
               (4, 3)]


def tn_cost(tn):
    R, C = tn.shape
    cols = [[None if tn[r, c] is None else tuple(tn[r, c].shape) for r in range(R)] for c in range(C)]
    mirror = [[None if t is None else (t[0], t[3], t[2], t[1]) for t in col] for col in reversed(cols)]
    rows = [[None if cols[c][r] is None else tuple(reversed(cols[c][r])) for c in range(C)] for r in range(R)]
    return max(sweep_ops(cols), sweep_ops(mirror), sweep_ops(rows))


def gen_wide_net(rng, R, C, dtype, mag, pad=False, big=False):
    """network whose bonds are drawn from BOND_SET (mixed_bonds) within a cost budget that depends on the dtype the
    entries end up in (Python-int object arrays are ~100x dearer per multiply-add than int64 / float64)"""
    cheap = (2e4, 1500) if big else (4e3, 600)
    fast = (4e5, 3000) if big else (5e4, 900)
    tn, info = gen_net(rng, R, C, dtype, mag, pad=pad, bonds=mixed_bonds(*(cheap if dtype == 'object' else fast)))
    if info['dtype'] == 'object' and tn_cost(tn) > cheap[0]:
        tn, info = gen_net(rng, R, C, 'object', mag, pad=pad, bonds=mixed_bonds(*cheap))
    return tn, info


def wide_bond_cases(ctx):
    """bond-dimension assignments as a class: every bond of a small network (1x2 … 3x4 / 4x3) draws its dimension from
    BOND_SET, so that trivial, narrow and wide bonds meet at one tensor / in one column pair / in one row pair.  For
    each network: the property on the real code against the independent exact value (property_battery: all sweeps,
    splits, spelled ranges and segments, no-op settings) and the correspondence of both sweeps, the transposed sweep,
    one split with its two partial results, one spelled range and one no-op setting with the model's `contract`."""
    from qecsim.tensortools import mps2d
    rng = ctx.rng
    for it in range(ctx.scale(150, 1500)):
        R, C = WIDE_SHAPES[it] if it < len(WIDE_SHAPES) else rng.choice(WIDE_SHAPES)
        dtype = rng.choice(['int64', 'object', 'float64', 'float64'])
        mag = rng.choice(['small', 'wide']) if dtype == 'object' else rng.choice(['unit', 'small', 'small'])
        tn, info = gen_wide_net(rng, R, C, dtype, mag, pad=rng.random() < 0.25, big=rng.random() < 0.3)
        sh, st = wire_net(tn)
        dtype = info['dtype']
        meta = {'net_shape': sh, 'net_sites': st, 'dtype': dtype}
        ctx.count('wide_shape', sh); ctx.count('wide_dtype', dtype); ctx.count('wide_maxbond', info['maxbond'])
        dims = sorted(set(d for t in tn.flatten() if t is not None for d in t.shape))
        ctx.count('wide_distinct_dims', len(dims))
        ctx.count('wide_mixes_ge8_and_lt8', int(any(d >= 8 for d in dims) and any(1 < d < 8 for d in dims)))
        fail = property_battery(tn, rng)
        if fail:
            ctx.monitor_fail(fail['what'], fail, key='mps2d.contract:' + fail.get('call', ''))
        ctx.case(contract_line(tn), impl_contract(tn), meta=meta, post=post_full)
        ctx.case(contract_line(tn, step=-1), impl_contract(tn, step=-1), meta=meta, post=post_full)
        tnt = mps2d.transpose(tn)
        tsh, tst = wire_net(tnt)
        ctx.case(contract_line(tnt), impl_contract(tnt),
                 meta={'net_shape': tsh, 'net_sites': tst, 'dtype': dtype, 'transposed_of': meta}, post=post_full)
        if C >= 2:
            k = rng.randint(1, C - 1)
            ctx.case('c11 split {} {} {} N N N'.format(sh, st, k), impl_split(tn, k), meta=dict(meta, k=k),
                     post=post_split)
            ctx.case(contract_line(tn, stop=k), impl_contract(tn, stop=k), meta=meta)
            ctx.case(contract_line(tn, start=-1, stop=k - 1, step=-1),
                     impl_contract(tn, start=-1, stop=k - 1, step=-1), meta=meta)
            lo = rng.randint(0, C - 1)
            hi = rng.randint(lo + 1, C if lo > 0 else C - 1)
            sp = rng.choice(range_spellings(lo, hi, C))
            ctx.case(contract_line(tn, start=sp[0], stop=sp[1], step=sp[2]),
                     impl_contract(tn, start=sp[0], stop=sp[1], step=sp[2]),
                     meta=dict(meta, args=[None, None] + list(sp)))
        name, kw = rng.choice(noop_settings(rng, tn, max_bond_cap(tn)))
        ctx.case(contract_line(tn, **kw), impl_contract(tn, **kw), meta=dict(meta, setting=name), post=post_full)


def rand_mps(rng, L, dtype='int64', holes='ends'):
    """a column with random shapes whose vertical bonds match; holes: 'ends' | 'any' | 'none'"""
    pres = [True] * L
    if holes == 'ends' and L:
        top = rng.randint(0, L); bot = rng.randint(0, L - top)
        pres = [top <= i < L - bot for i in range(L)]
    elif holes == 'any':
        pres = [rng.random() < 0.6 for _ in range(L)]
    out = []
    prev_s = None
    for i in range(L):
        if not pres[i]:
            out.append(None); prev_s = None
            continue
        n = prev_s if prev_s is not None else rng.choice([1, 1, 2])
        s = rng.choice([1, 2, 3])
        e, w = rng.choice([1, 2, 3]), rng.choice([1, 1, 2])
        out.append(mk_tensor(rng, (n, e, s, w), dtype, 'small'))
        prev_s = s
    return out


def rand_mps_wide(rng, L):
    """a None-free column whose vertical bonds match and whose four legs draw their dimensions from BOND_SET; the
    dimensions step down until the column has <= 1500 entries and its ladder contraction <= 3000 entries"""
    while True:
        v = [1] + [rng.choice(BOND_SET) for _ in range(L - 1)] + [1]
        if rng.random() < 0.5:
            v[0] = rng.choice([1, 2, 3])
        if rng.random() < 0.5:
            v[-1] = rng.choice([1, 2, 3])
        e = [rng.choice(BOND_SET) for _ in range(L)]
        w = [rng.choice([1, 1, 1, 2, 3]) for _ in range(L)]
        pe = pw = 1
        for x, y in zip(e, w):
            pe *= x; pw *= y
        if sum(v[i] * e[i] * v[i + 1] * w[i] for i in range(L)) <= 1500 and v[0] * pe * pw * v[-1] <= 3000:
            break
    return [mk_tensor(rng, (v[i], e[i], v[i + 1], w[i]), 'int64', 'small') for i in range(L)]


def unit_cases(ctx):
    from qecsim.tensortools import mps as tt_mps, tsr as tt_tsr
    rng = ctx.rng
    N = ctx.scale(400, 6000)
    for _ in range(N):
        L = rng.randint(0, 5)
        holes = rng.choice(['ends', 'ends', 'any', 'none'])
        m = rand_mps(rng, L, rng.choice(['int64', 'object']), holes)
        wm = wire_mps(m)

        def ss():
            a, b = tt_mps._mps_start_stop_indices(m)
            return 'ok {},{}'.format(a, b)
        ctx.case('c11 startstop ' + wm, guarded(ss), nontrivial=(L > 1), meta={'mps': wm})
        out = guarded(lambda: 'ok ' + wire_t(tt_mps.contract_ladder(m)))
        ctx.case('c11 ladder ' + wm, out, nontrivial=(L > 1), meta={'mps': wm})
        ctx.count('ladder_outcome', out.split(' ')[0])
        # pairwise partner: ket-like column with w matching e (mostly), Nones anywhere
        r = []
        for t in m:
            if rng.random() < 0.2:
                r.append(None)
            else:
                w = (t.shape[1] if t is not None else rng.choice([1, 2])) if rng.random() < 0.9 else rng.choice([1, 2, 3])
                r.append(mk_tensor(rng, (rng.choice([1, 2]), rng.choice([1, 2]), rng.choice([1, 2]), w),
                                   'int64', 'small'))
        if rng.random() < 0.1:
            r = r + [None] if rng.random() < 0.5 else r[:-1]
        wr = wire_mps(r)
        out = guarded(lambda: 'ok ' + wire_mps(tt_mps.contract_pairwise(m, r)))
        ctx.case('c11 pairwise {} {}'.format(wm, wr), out, nontrivial=(L > 0), meta={'l': wm, 'r': wr})
        ctx.count('pairwise_outcome', out.split(' ')[0])

        def ip():
            v = cint(tt_mps.inner_product(m, r))
            return 'ok ' + (str(v) if v is not None else 'nonint')
        out = guarded(ip)
        ctx.case('c11 inner {} {}'.format(wm, wr), out, nontrivial=(L > 0), meta={'l': wm, 'r': wr})
        ctx.count('inner_outcome', out.split(' ')[0])
        # truncate guard
        chi = rng.choice([None, 0, 1, 2, 3, 4, -1, 100])
        tol = rng.choice([None, 0.0, 1e-9, 0])
        mask = rng.choice([None, [False] * L, [rng.random() < 0.4 for _ in range(L)]])

        def tr():
            res, norm = tt_mps.truncate(m, chi=chi, tol=tol, mask=(None if mask is None else np.array(mask, dtype=bool)))
            same = all(a is b for a, b in zip(res, m)) and len(res) == len(m)
            return 'ok {} {}'.format(cint(norm), wire_mps(res) if same else 'changed')
        out = guarded(tr)
        ctx.case('c11 truncate {} {} {} {}'.format(wm, core.opt(chi), wire_tol(tol),
                                                   'N' if mask is None else core.bits(mask)), out,
                 nontrivial=(L > 0), meta={'mps': wm, 'chi': chi, 'tol': tol, 'mask': mask})
        ctx.count('truncate_outcome', out.split(' ')[0])
        # as_scalar
        t = mk_tensor(rng, tuple(rng.choice([1, 1, 1, 2]) for _ in range(4)), 'int64', 'wide')

        def sc():
            return 'ok ' + str(cint(tt_tsr.as_scalar(t)))
        ctx.case('c11 scalar ' + wire_t(t), guarded(sc), nontrivial=True)
    # columns whose legs draw their dimensions from BOND_SET (wide and narrow legs side by side in one column)
    for _ in range(ctx.scale(150, 2000)):
        L = rng.randint(1, 3)
        m = rand_mps_wide(rng, L)
        wm = wire_mps(m)
        out = guarded(lambda: 'ok ' + wire_t(tt_mps.contract_ladder(m)))
        ctx.case('c11 ladder ' + wm, out, nontrivial=(L > 1), meta={'mps': wm})
        ctx.count('ladder_outcome', 'wide:' + out.split(' ')[0])
        r, pn = [], 1
        for i, t in enumerate(m):
            ps = 1 if i == L - 1 else rng.choice([1, 2, 3, 4])
            r.append(mk_tensor(rng, (pn, rng.choice([1, 1, 2]), ps, t.shape[1]), 'int64', 'small'))
            pn = ps
        wr = wire_mps(r)
        out = guarded(lambda: 'ok ' + wire_mps(tt_mps.contract_pairwise(m, r)))
        ctx.case('c11 pairwise {} {}'.format(wm, wr), out, meta={'l': wm, 'r': wr})
        ctx.count('pairwise_outcome', 'wide:' + out.split(' ')[0])

        def ipw():
            v = cint(tt_mps.inner_product(m, r))
            return 'ok ' + (str(v) if v is not None else 'nonint')
        out = guarded(ipw)
        ctx.case('c11 inner {} {}'.format(wm, wr), out, meta={'l': wm, 'r': wr})
        ctx.count('inner_outcome', 'wide:' + out.split(' ')[0])
    # proper bra / ket pairs (inner product defined), optionally padded with None at the same ends
    for _ in range(ctx.scale(200, 3000)):
        L = rng.randint(1, 5)
        top = rng.randint(0, L - 1) if rng.random() < 0.3 else 0
        bot = rng.randint(0, L - 1 - top) if rng.random() < 0.3 else 0
        bra, ket = [None] * L, [None] * L
        pn = kn = 1
        dt = rng.choice(['int64', 'object'])
        for i in range(top, L - bot):
            last = (i == L - bot - 1)
            ps, ks = (1, 1) if last else (rng.choice([1, 2, 3]), rng.choice([1, 2, 3]))
            phys = rng.choice([1, 2, 3])
            bra[i] = mk_tensor(rng, (pn, phys, ps, 1), dt, 'wide' if dt == 'object' else 'small')
            ket[i] = mk_tensor(rng, (kn, 1, ks, phys), dt, 'wide' if dt == 'object' else 'small')
            pn, kn = ps, ks
        if rng.random() < 0.15:
            i = rng.randrange(L)
            (bra if rng.random() < 0.5 else ket)[i] = None   # one-sided hole: copied through by contract_pairwise
        wb, wk = wire_mps(bra), wire_mps(ket)

        def ip2():
            v = cint(tt_mps.inner_product(bra, ket))
            return 'ok ' + (str(v) if v is not None else 'nonint')
        out = guarded(ip2)
        ctx.case('c11 inner {} {}'.format(wb, wk), out, nontrivial=(L > 1), meta={'l': wb, 'r': wk})
        ctx.count('inner_outcome', 'braket:' + out.split(' ')[0])
    # slice resolution: exhaustive small domain
    vals = [None] + list(range(-7, 8))
    steps = [None, 1, -1, 2, -2, 3, -3, 0, 5, -5]
    for n in range(0, ctx.scale(5, 7)):
        for a in vals:
            for b in vals:
                for s in steps:
                    try:
                        out = 'ok ' + core.ilist(range(*slice(a, b, s).indices(n)))
                    except ValueError:
                        out = 'ValueError'
                    ctx.case('c11 slice {} {} {} {}'.format(core.opt(a), core.opt(b), core.opt(s), n), out,
                             nontrivial=False)


def incompatible_cases(ctx):
    """networks outside the property's domain (mismatching bonds, holes in the middle, empty shapes): only the
    correspondence is checked (errors and numpy's broadcasting of dimension-1 labels)"""
    rng = ctx.rng
    for _ in range(ctx.scale(60, 800)):
        R, C = rng.randint(1, 4), rng.randint(1, 4)
        kind = rng.choice(['hole', 'reshape', 'allnone-col', 'nonscalar', 'loosepad'])
        tn, info = gen_net(rng, R, C, 'int64', 'small', maxbond=3,
                           pad=('loose' if kind == 'loosepad' else rng.random() < 0.3))
        r, c = rng.randrange(R), rng.randrange(C)
        if kind == 'hole':
            tn[r, c] = None
        elif kind == 'reshape' and tn[r, c] is not None:
            shape = tuple(rng.choice([1, 2, 3]) for _ in range(4))
            tn[r, c] = mk_tensor(rng, shape, 'int64', 'small')
        elif kind == 'allnone-col':
            for rr in range(R):
                tn[rr, c] = None
        elif kind == 'nonscalar' and tn[r, c] is not None:
            sh = list(tn[r, c].shape)
            if r == 0:
                sh[0] = 2
            elif c == 0:
                sh[3] = 2
            else:
                sh[1] = sh[1] + 1
            tn[r, c] = mk_tensor(rng, tuple(sh), 'int64', 'small')
        sh, st = wire_net(tn)
        meta = {'net_shape': sh, 'net_sites': st, 'dtype': 'int64', 'incompatible': kind}
        for kw in ({}, {'step': -1}, {'stop': rng.randint(0, C)}):
            out = impl_contract(tn, **kw)
            ctx.case(contract_line(tn, **kw), out, nontrivial=True, meta=meta, post=post_full)
            ctx.count('incompatible_outcome', kind + ':' + out.split(' ')[0])
        for k in range(1, C):
            ctx.case('c11 split {} {} {} N N N'.format(sh, st, k), impl_split(tn, k), nontrivial=True, meta=meta,
                     post=post_split)
    for (R, C) in [(0, 0), (0, 2), (2, 0), (1, 0), (0, 1)]:
        tn = np.empty((R, C), dtype=object)
        sh, st = wire_net(tn)
        for kw in ({}, {'step': -1}, {'stop': 1}, {'start': 1}, {'step': 0}):
            ctx.case(contract_line(tn, **kw), impl_contract(tn, **kw), nontrivial=True,
                     meta={'net_shape': sh, 'net_sites': st, 'dtype': 'int64'})


# ------------------------------------------------------------------------------------------ explored (floats / LAPACK)

def float_explore(ctx):
    """float networks with widely ranging positive magnitudes against the exact rational value (1e-9 relative), and the
    lossless truncation path (tol=1e-14) recombined with its multipliers (1e-7 relative).  Positive entries: the value
    is a sum of positive terms, so a relative tolerance is meaningful."""
    from qecsim.tensortools import mps2d, mps as tt_mps
    rng = ctx.rng
    n = ctx.scale(40, 400)
    evals = 0
    for _ in range(n):
        R, C = rng.randint(1, 5), rng.randint(2, 5)
        tn, info = gen_net(rng, R, C, 'float64', 'pos', maxbond=rng.choice([1, 2, 3]) if R * C <= 16 else 2,
                           pad=rng.random() < 0.3, exact_guard=False)
        wide = rng.random() < 0.5
        for t in tn.flatten():
            if t is not None:
                t *= np.array([10.0 ** rng.uniform(-6, 6) if wide and rng.random() < 0.3 else rng.uniform(0.1, 2.0)
                               for _ in range(t.size)]).reshape(t.shape)
                if rng.random() < 0.3:
                    t[tuple(rng.randrange(d) for d in t.shape)] = 0.0
        exact = py_exact(tn)
        sh = '{}x{}'.format(R, C)
        desc = {'shape': sh, 'tensors': [None if t is None else {'shape': list(t.shape),
                                                               'data': [float(x).hex() for x in t.flatten()]}
                                        for t in tn.flatten()]}

        def close(v, tolr):
            v = Fraction(float(v)) if not isinstance(v, mp.mpf) else Fraction(*_mpf_frac(v))
            return abs(v - exact) <= tolr * abs(exact)
        checks = [('lr', lambda: mps2d.contract(tn), 1e-9), ('rl', lambda: mps2d.contract(tn, step=-1), 1e-9)]
        if not any(t is None for t in tn.flatten()):
            checks.append(('transposed', lambda: mps2d.contract(mps2d.transpose(tn)), 1e-9))
        if not wide:  # a relative singular-value cut is only lossless (to 1e-7) for tensors of comparable scale
            checks.append(('lr tol=1e-14', lambda: mps2d.contract(tn, tol=1e-14), 1e-7))
            checks.append(('rl tol=1e-14', lambda: mps2d.contract(tn, tol=1e-14, step=-1), 1e-7))
        for k in range(1, C):
            def sp(k=k, tol=None):
                l, ml = mps2d.contract(tn, stop=k, tol=tol)
                r, mr = mps2d.contract(tn, start=-1, stop=k - 1, step=-1, tol=tol)
                return tt_mps.inner_product(l, r) * ml * mr
            checks.append(('split k={}'.format(k), sp, 1e-9))
            if not wide:
                checks.append(('split k={} tol=1e-14'.format(k), lambda k=k: sp(k, 1e-14), 1e-7))
        # spelled ranges: the full range, and consecutive segments recombined (random spellings)
        fsp = rng.choice(range_spellings(0, C, C))
        checks.append(('range {}'.format(json.dumps([list(fsp)], separators=(',', ':'))),
                       lambda fsp=fsp: mps2d.contract(tn, start=fsp[0], stop=fsp[1], step=fsp[2]), 1e-9))
        for cuts in rng.sample(partitions(C, 4), min(3, len(partitions(C, 4)))):
            sps = [rng.choice(range_spellings(lo, hi, C)) for lo, hi in zip(cuts, cuts[1:])]
            assoc = rng.choice(['left', 'right'])
            checks.append(('parts {} {}'.format(json.dumps([list(x) for x in sps], separators=(',', ':')), assoc),
                           lambda sps=sps, assoc=assoc: float_parts(tn, sps, assoc), 1e-9))
        for name, f, tolr in checks:
            evals += 1
            try:
                with core.TimeLimit(60):
                    v = f()
                ok = close(v, tolr)
            except Exception as ex:
                v = repr(ex); ok = False
            if not ok:
                ctx.monitor_fail('float contraction ({}) differs from the exact value beyond {} relative'.format(
                    name, tolr), {'net': desc, 'call': name, 'got': str(v), 'exact': str(float(exact))},
                    key='mps2d.contract:float:' + name.split(' ')[0])
    ctx.explored['float_and_lossless_truncation'] = {
        'evaluations': evals, 'exhaustive': False,
        'rule': 'positive float64 networks up to 5x5, bonds 1..3, zeros, half of them with magnitudes 1e-6..1e6; LR/RL/transposed/'
                'every split, the full range in a random start/stop/step spelling and 2..4 consecutive segments in random '
                'spellings recombined, without truncation within 1e-9 relative of the exact rational value; for the networks of '
                'comparable scale the same with tol=1e-14 (SVD path, multipliers != 1) within 1e-7 relative'}
    ctx.assumptions[:] = ['LAPACK QR/SVD (scipy.linalg) accuracy on the truncating path (explored only)',
                          'numpy einsum/reshape on int64 / object / float64 arrays behave as numpy documents',
                          'mpmath mpf multiplication rounds once to mp.prec bits']


# ------------------------------------------------------------------------------------------ explored: magnitude profiles
# Float networks whose tensors carry scale factors 10^k, k up to +-140, such that every quantity the documented
# algorithm holds in a float64 stays representable while the norms of intermediate column states (which the real code
# keeps in mpmath.mpf multipliers) leave the float64 range; evaluated without truncation and under truncation settings
# that RUN the QR/SVD pass but discard nothing (vanishing positive tol, with chi = / > the largest bond, with masks).
# Judged against the exact rational value of the very float entries, with a tolerance derived from the conditioning:
#  * without truncation every operation is a product / sum of non-negative numbers: componentwise relative error,
#    |v - exact| <= 1e-9 exact;
#  * the QR/SVD pass is norm-wise backward stable on the column state |L_k> (relative to ||L_k||, whatever the scale of
#    the tensors - scale factors commute with every step); an error d|L_k> moves the value <L_k|R_k> by at most
#    ||d L_k|| ||R_k||, so |v - exact| <= A u sum_k ||L_k|| ||R_k||  (u = 2^-53; the cut norms are computed exactly);
#    for recombined segments (middle segments are operators with internal cuts of their own), and when a cut state
#    vanishes identically, the same with (number of tensors) * product of the Frobenius norms of all tensors, which
#    bounds every such product of norms.

U = 2.0 ** -53
A_RUN = 1e5             # calibrated: largest observed ratio on the unchanged tree is recorded in the evidence
SQ_LIMIT, PLAIN_LIMIT = 140, 280   # decimal exponents a float64 may carry where it is squared (norms) / merely stored


def integerise(tn):
    """every float64 is m * 2^e exactly: per tensor the smallest exponent is pulled out.  Returns the network with
    Python-int entries and the matrix of pulled-out binary exponents (None sites: exponent 0)"""
    import math
    R, C = tn.shape
    out = np.empty((R, C), dtype=object)
    E = [[0] * C for _ in range(R)]
    for r in range(R):
        for c in range(C):
            t = tn[r, c]
            if t is None:
                out[r, c] = None
                continue
            me = []
            for v in t.reshape(-1):
                v = float(v)
                if v == 0:
                    me.append((0, None))
                else:
                    f, x = math.frexp(v)
                    me.append((int(math.ldexp(f, 53)), x - 53))
            e0 = min((e for m, e in me if e is not None), default=0)
            a = np.empty(len(me), dtype=object)
            for i, (m, e) in enumerate(me):
                a[i] = 0 if e is None else m << (e - e0)
            out[r, c] = a.reshape(t.shape)
            E[r][c] = e0
    return out, E


def mirror_net(tn):
    """columns reversed, east and west legs swapped (own code, not qecsim)"""
    R, C = tn.shape
    out = np.empty((R, C), dtype=object)
    for r in range(R):
        for c in range(C):
            t = tn[r, C - 1 - c]
            out[r, c] = None if t is None else np.transpose(t, (0, 3, 2, 1))
    return out


def transpose_net(tn):
    """rows and columns swapped, (n, e, s, w) -> (w, s, e, n) (own code, not qecsim)"""
    R, C = tn.shape
    out = np.empty((C, R), dtype=object)
    for r in range(R):
        for c in range(C):
            t = tn[r, c]
            out[c, r] = None if t is None else np.transpose(t, (3, 2, 1, 0))
    return out


def fro(a):
    return mp.sqrt(mp.mpf(sum(int(x) * int(x) for x in a.reshape(-1))))


def sweep_condition(tni):
    """(exact value, sum over the column cuts k of ||L_k|| ||R_k||) of an integer network"""
    R, C = tni.shape
    left = np_states(tni)
    right = np_states(mirror_net(tni))
    cs = mp.mpf(0)
    for k in range(1, C):
        cs += fro(left[k - 1]) * fro(right[C - k - 1])
    return int(left[-1].reshape(-1)[0]), cs, all(fro(x) != 0 for x in left[:-1]) and all(fro(x) != 0 for x in right[:-1])


def tensor_norm_bound(tni):
    """(number of tensors) * product of the Frobenius norms of all tensors: bounds every ||L_k|| ||R_k|| and every
    product of segment norms (the Frobenius norm is submultiplicative under contraction)"""
    n, p = 0, mp.mpf(1)
    for t in tni.flatten():
        if t is not None:
            n += 1
            p *= fro(t)
    return n * p


def block_operator(tni, lo, hi, limit=20000, conv=None):
    """entries of the contraction of columns lo..hi-1 with open west and east legs (axes: west legs of all rows, then
    east legs); None when it has more than `limit` entries"""
    R, C = tni.shape
    n = 1
    for r in range(R):
        n *= (1 if tni[r, lo] is None else tni[r, lo].shape[3]) * (1 if tni[r, hi - 1] is None else tni[r, hi - 1].shape[1])
    if n > limit:
        return None
    return np_states(tni[:, lo:hi], open_west=True, conv=conv)[-1]


def dec_exp(tn):
    """decimal exponent of the largest entry of every tensor (None / zero tensors: 0)"""
    import math
    R, C = tn.shape
    K = [[0.0] * C for _ in range(R)]
    for r in range(R):
        for c in range(C):
            if tn[r, c] is not None:
                m = float(np.abs(tn[r, c]).max()) if tn[r, c].size else 0.0
                K[r][c] = math.log10(m) if m > 0 else 0.0
    return K


def shadow(K, cols, runs, full):
    """float-range shadow of the documented algorithm on per-row decimal exponents: the state of row r carries
    exponent s_r; pairing with a column adds that column's exponents; a running truncation pass (runs(c): tol is truthy
    and the mask selects a site of the paired column c) takes norms (squares:
    SQ_LIMIT) and leaves a normalised state (exponent 0), the norm going to the mpf multiplier; otherwise the product
    is merely stored (PLAIN_LIMIT); a full contraction ends with the ladder over the rows (prefix sums).
    Returns None when some float64 quantity would leave its range, else (s, largest |exponent| of a column norm)"""
    R = len(K)
    cols = list(cols)
    s = [K[r][cols[0]] for r in range(R)]
    if max(abs(x) for x in s) > SQ_LIMIT:
        return None
    worst = 0.0
    for j, c in enumerate(cols[1:], 1):
        p = [s[r] + K[r][c] for r in range(R)]
        if runs(c) and not (full and j == len(cols) - 1):
            if max(abs(x) for x in p) > SQ_LIMIT:
                return None
            worst = max(worst, abs(sum(p)))
            s = [0.0] * R
        else:
            if max(abs(x) for x in p) > PLAIN_LIMIT:
                return None
            s = p
    if full and not ladder_ok(s):
        return None
    return s, worst


def ladder_ok(s):
    acc = 0.0
    for x in s:
        acc += x
        if abs(acc) > PLAIN_LIMIT:
            return False
    return True


def seg_cols(sp, C):
    return list(range(*slice(*sp).indices(C)))


def mag_domain(K, ev):
    """is the evaluation `ev` inside the float64 range of the documented algorithm (see shadow)?  Returns None or the
    largest |decimal exponent| of a column norm that goes to an mpf multiplier"""
    R, C = len(K), len(K[0])
    kind = ev['kind']
    mask = ev.get('mask')

    def runs(c):
        if ev.get('tol') is None:
            return False
        if mask is None:
            return True
        return any(mask) if kind == 'truncate' else any(row[c] for row in mask)
    if kind == 'full':
        cols = range(C) if ev.get('step') in (None, 1) else range(C - 1, -1, -1)
        r = shadow(K, cols, runs, True)
        return None if r is None else r[1]
    if kind == 'split':
        segs = [list(range(0, ev['k'])), list(range(C - 1, ev['k'] - 1, -1))]
    elif kind == 'parts':
        segs = [seg_cols(sp, C) for sp in ev['sps']]
    else:
        segs = [list(range(ev['lo'], ev['hi']))]
    worst, tot = 0.0, [0.0] * R
    if kind == 'truncate' and len(segs[0]) == 1 and runs(0):
        worst = abs(sum(K[r][segs[0][0]] for r in range(R)))
    for cols in segs:
        r = shadow(K, cols, runs, False)
        if r is None:
            return None
        worst = max(worst, r[1])
        tot = [a + b for a, b in zip(tot, r[0])]
    if max(abs(x) for x in tot) > PLAIN_LIMIT or (kind != 'truncate' and not ladder_ok(tot)):
        return None
    return worst


def mag_kw(ev, one_d=False):
    kw = {}
    if ev.get('tol') is not None:
        kw['tol'] = float.fromhex(ev['tol'])
    if ev.get('chi') is not None:
        kw['chi'] = ev['chi']
    if ev.get('mask') is not None:
        kw['mask'] = np.array(ev['mask'], dtype=bool)
    return kw


def mag_eval(tn, ev):
    """one recorded evaluation on the real code: (value, list of type complaints).  For kind 'truncate': value is
    (truncated mps, norm, the pass must have run)"""
    from qecsim.tensortools import mps2d, mps as tt_mps
    X = mps2d.transpose(tn) if ev.get('transposed') else tn
    kw = mag_kw(ev)
    types = []

    def chk(name, x):
        if not isinstance(x, mp.mpf):
            types.append('{} is a {}, not an mpmath.mpf'.format(name, type(x).__name__))
    kind = ev['kind']
    if kind == 'full':
        v = mps2d.contract(X, step=ev.get('step'), **kw)
        chk('the value of the full contraction', v)
    elif kind == 'split':
        k = ev['k']
        l, ml = mps2d.contract(X, stop=k, **kw)
        r, mr = mps2d.contract(X, start=-1, stop=k - 1, step=-1, **kw)
        chk('the multiplier of the left partial contraction', ml)
        chk('the multiplier of the right partial contraction', mr)
        v = tt_mps.inner_product(l, r) * ml * mr
    elif kind == 'parts':
        ps = [mps2d.contract(X, start=a, stop=b, step=c, **kw) for a, b, c in ev['sps']]
        for p in ps:
            chk('the multiplier of a partial contraction', p[1])
        if ev.get('assoc', 'left') == 'left':
            acc = ps[0][0]
            for p in ps[1:-1]:
                acc = tt_mps.contract_pairwise(acc, p[0])
            v = tt_mps.inner_product(acc, ps[-1][0])
        else:
            acc = ps[-1][0]
            for p in ps[-2:0:-1]:
                acc = tt_mps.contract_pairwise(p[0], acc)
            v = tt_mps.inner_product(ps[0][0], acc)
        for p in ps:
            v = v * p[1]
    else:  # 'truncate': the columns lo..hi-1 (one raw column, or the first pair) as one MPS / MPO
        mps = list(X[:, ev['lo']])
        for c in range(ev['lo'] + 1, ev['hi']):
            mps = tt_mps.contract_pairwise(mps, list(X[:, c]))
        res, norm = tt_mps.truncate(mps, **kw)
        ran = bool(len(mps)) and (kw.get('mask') is None or bool(np.any(kw['mask'])))
        if ran:
            chk('the norm returned by truncate (the pass ran)', norm)
        v = (res, norm)
    return v, types


def to_fraction(v):
    """exact rational of a returned number; None for nan / inf"""
    if isinstance(v, mp.mpf):
        return Fraction(*_mpf_frac(v)) if mp.isfinite(v) else None
    v = float(v)
    return Fraction(v) if v == v and abs(v) != float('inf') else None


def frac_mpf(fr):
    return mp.mpf(fr.numerator) / mp.mpf(fr.denominator)


class MagOracle:
    """exact values and conditioning of one float network (both orientations), computed once"""

    def __init__(self, tn):
        self.tni, E = integerise(tn)
        self.E = E
        self.etot = sum(sum(row) for row in E)
        self.or_ = {}

    def net(self, transposed):
        if transposed not in self.or_:
            X = transpose_net(self.tni) if transposed else self.tni
            EX = [list(x) for x in zip(*self.E)] if transposed else self.E
            value, cs, nondegenerate = sweep_condition(X)
            if not nondegenerate:   # a cut state vanishes identically although its tensors do not: rounding noise of the
                cs = tensor_norm_bound(X)   # pass is relative to the tensors, not to the (zero) state
            self.or_[transposed] = (X, EX, value, cs)
        return self.or_[transposed]

    def judge(self, ev, got):
        """-> (ok, detail).  All comparisons in units of 2^etot (exact) resp. mpf (bounds)."""
        X, EX, value, cs = self.net(bool(ev.get('transposed')))
        running = ev.get('tol') is not None
        if ev['kind'] == 'truncate':
            return self.judge_truncate(ev, got, X, EX)
        fr = to_fraction(got)
        if fr is None:
            return False, {'got': str(got), 'exact': self.exact_str(value), 'why': 'not a finite number'}
        scaled = fr / (Fraction(2) ** self.etot)
        err = frac_mpf(abs(scaled - value))
        if not running:
            bound = mp.mpf(1e-9) * abs(value)
            ratio = None
        else:
            # recombined segments: middle segments are operators, truncated relative to their own internal cuts;
            # the product of all tensor norms bounds every such product of norms
            cond = tensor_norm_bound(X) if ev['kind'] == 'parts' else cs
            bound = A_RUN * U * cond
            ratio = float(err / (U * cond)) if cond else (0.0 if err == 0 else float('inf'))
        ok = err <= bound
        return bool(ok), {'got': str(got), 'exact': self.exact_str(value), 'ratio': ratio,
                          'relative_error': (float(err / abs(value)) if value else None),
                          'relative_tolerance': (float(bound / abs(value)) if value else None)}

    def exact_str(self, value):
        return mp.nstr(mp.ldexp(mp.mpf(value), self.etot), 17)

    def judge_truncate(self, ev, got, X, EX):
        res, norm = got
        lo, hi = ev['lo'], ev['hi']
        op = block_operator(X, lo, hi, limit=3000)
        if op is None:
            return True, {'skipped': 'operator too large'}
        e = sum(EX[r][c] for r in range(X.shape[0]) for c in range(lo, hi))
        col = np.empty((len(res), 1), dtype=object)
        for i, t in enumerate(res):
            col[i, 0] = t

        ran = ev.get('mask') is None or any(ev['mask'])

        def conv(t):
            if ran:   # the returned mps is normalised: its ladder stays in the float64 range
                return np.ones((1, 1, 1, 1)) if t is None else np.asarray(t, dtype=float)
            # pass skipped, mps untouched: the product over the rows of a raw column may leave float64, so mpf entries
            a = np.empty((1, 1, 1, 1) if t is None else t.shape, dtype=object)
            flat = a.reshape(-1)
            for i, v in enumerate([1.0] if t is None else t.reshape(-1)):
                flat[i] = mp.mpf(float(v))
            return a
        try:
            g = np_states(col, open_west=True, conv=conv)[-1]
        except Exception as ex:
            return False, {'why': 'truncated mps does not contract: {!r}'.format(ex)}
        if g.shape != op.shape:
            return False, {'why': 'truncated mps has physical legs {} instead of {}'.format(g.shape, op.shape)}
        try:
            nm = mp.mpf(norm)
        except Exception:
            return False, {'why': 'norm {!r} is not a number'.format(norm)}
        if not mp.isfinite(nm):
            return False, {'why': 'norm {} is not finite'.format(norm)}
        sq, tot = mp.mpf(0), mp.mpf(0)
        for a, b in zip(g.reshape(-1), op.reshape(-1)):
            d = mp.ldexp(mp.mpf(a) * nm, -e) - int(b)
            sq += d * d
            tot += mp.mpf(int(b)) ** 2
        err, nrm = mp.sqrt(sq), mp.sqrt(tot)
        ratio = float(err / (U * nrm)) if nrm else (0.0 if err == 0 else float('inf'))
        return bool(err <= A_RUN * U * nrm), {
            'ratio': ratio, 'norm_returned': str(norm), 'exact_norm': mp.nstr(mp.ldexp(nrm, e), 17),
            'why': 'norm * truncated mps differs from the mps (Frobenius norm of the difference / norm of the mps = '
                   '{})'.format(mp.nstr(err / nrm, 5) if nrm else 'inf')}


def gen_profile(rng, R, C):
    """matrix of decimal scale exponents, one per tensor"""
    K = [[0] * C for _ in range(R)]
    kind = rng.choice(['columns', 'columns', 'rows', 'pair', 'pair', 'tensor', 'columns+pair'])
    amps = [17, 20, 30, 60, 60, 100, 120, 140]

    def lines(n, setk):
        for _ in range(rng.choice([1, 1, 2])):
            if n < 2:
                return
            a = rng.choice(amps if rng.random() < 0.4 else [100, 120, 140])
            # mostly interior lines: then the first pair and the last line of either sweep direction stay moderate
            pool = list(range(1, n - 1)) if n >= 4 and rng.random() < 0.7 else list(range(n))
            i, j = rng.sample(pool, 2)
            if rng.random() < 0.4 and len(pool) >= 3:   # the compensation split over two lines
                l = rng.choice([x for x in pool if x not in (i, j)])
                h = a // 2
                setk(i, -h); setk(l, -(a - h)); setk(j, a)
            else:
                setk(i, -a); setk(j, a)
    if kind in ('columns', 'columns+pair'):
        def setc(c, a):
            for r in range(R):
                K[r][c] += a
        lines(C, setc)
    if kind == 'rows':
        def setr(r, a):
            for c in range(C):
                K[r][c] += a
        lines(R, setr)
    if kind in ('pair', 'columns+pair') and R * C >= 2:
        a = rng.choice(amps)
        (r1, c1), (r2, c2) = rng.sample([(r, c) for r in range(R) for c in range(C)], 2)
        K[r1][c1] -= a; K[r2][c2] += a
    if kind == 'tensor':
        tot = 0
        for r in range(R):
            for c in range(C):
                K[r][c] = rng.randint(-40, 40); tot += K[r][c]
        K[rng.randrange(R)][rng.randrange(C)] -= max(-100, min(100, tot))
    for r in range(R):
        for c in range(C):
            K[r][c] = max(-SQ_LIMIT, min(SQ_LIMIT, K[r][c] + (rng.randint(-2, 2) if rng.random() < 0.3 else 0)))
    return kind, K


def running_settings(rng, X):
    """truncation settings under which the QR/SVD pass RUNS (tol is truthy) and discards nothing"""
    R, C = X.shape
    cap = max_bond_cap(X)
    some = [[rng.random() < 0.5 for _ in range(C)] for _ in range(R)]
    some[rng.randrange(R)][rng.randrange(C)] = True
    t300, tmin, t200 = (1e-300).hex(), (5e-324).hex(), (1e-200).hex()
    return [
        ('tol=1e-300', dict(tol=t300)),
        ('tol=5e-324', dict(tol=tmin)),
        ('tol=1e-300,chi=maxbond', dict(tol=t300, chi=cap)),
        ('tol=1e-300,chi=maxbond+1', dict(tol=t300, chi=cap + 1)),
        ('tol=1e-300,chi=large,mask=some', dict(tol=t300, chi=cap + 7, mask=some)),
        ('tol=1e-200,mask=all', dict(tol=t200, mask=[[True] * C for _ in range(R)])),
    ]


def net_desc(tn):
    return {'shape': '{}x{}'.format(*tn.shape),
            'tensors': [None if t is None else {'shape': list(t.shape), 'data': [float(x).hex() for x in t.flatten()]}
                        for t in tn.flatten()]}


def net_from_desc(d):
    R, C = (int(x) for x in d['shape'].split('x'))
    tn = np.empty((R, C), dtype=object)
    for i, t in enumerate(d['tensors']):
        tn[i // C, i % C] = None if t is None else np.array([float.fromhex(x) for x in t['data']]).reshape(t['shape'])
    return tn


def gen_mag_net(rng):
    R, C = rng.choice([(2, 3), (2, 4), (3, 3), (3, 4), (3, 4), (3, 5), (4, 4), (4, 4), (4, 5), (5, 4), (6, 4), (4, 6),
                       (5, 5), (3, 6), (2, 6)])
    if R * C <= 12 and rng.random() < 0.35:
        tn, info = gen_net(rng, R, C, 'float64', 'pos', pad=rng.random() < 0.2, exact_guard=False,
                           bonds=mixed_bonds(2e4, 600))
    else:
        tn, info = gen_net(rng, R, C, 'float64', 'pos', maxbond=rng.choice([2, 2, 3]) if R * C <= 16 else 2,
                           pad=rng.random() < 0.2, exact_guard=False)
    kind, K = gen_profile(rng, R, C)
    for r in range(R):
        for c in range(C):
            t = tn[r, c]
            if t is not None:
                t *= np.array([rng.uniform(0.1, 2.0) for _ in range(t.size)]).reshape(t.shape)
                t *= 10.0 ** K[r][c]
    return tn, kind, K


def mag_plan(rng, tn):
    """the evaluations of one network: both orientations; without truncation and under running no-op settings;
    full sweeps both ways, every split, one recombination of segments, truncate on one raw column and on the first
    column pair"""
    from qecsim.tensortools import mps2d
    plan = []
    for transposed in (False, True):
        X = mps2d.transpose(tn) if transposed else tn
        R, C = X.shape
        base = {'transposed': transposed}
        if any(t is None for t in tn.flatten()) and transposed:
            continue   # padded columns become non-contiguous rows
        settings = running_settings(rng, X)
        chosen = [settings[0]] + rng.sample(settings[1:], 2)
        for name, kw in [('none', {})] + chosen:
            b = dict(base, setting=name, **kw)
            for step in (None, -1):
                plan.append(dict(b, kind='full', step=step))
            for k in range(1, C):
                plan.append(dict(b, kind='split', k=k))
            parts = partitions(C, 4)
            if parts:
                cuts = rng.choice(parts)
                sps = [list(rng.choice(range_spellings(lo, hi, C))) for lo, hi in zip(cuts, cuts[1:])]
                plan.append(dict(b, kind='parts', sps=sps, assoc=rng.choice(['left', 'right'])))
        for name, kw in rng.sample(settings, 2):
            kw = dict(kw)
            c = rng.randrange(C)
            for lo, hi in ((c, c + 1), (0, min(2, C))):
                k1 = dict(kw)
                if k1.get('mask') is not None:
                    k1['mask'] = [row[lo] for row in k1['mask']]
                plan.append(dict(base, setting=name, kind='truncate', lo=lo, hi=hi, **k1))
    return plan


def magnitude_explore(ctx):
    rng = ctx.rng
    n = ctx.scale(100, 800)
    evals, worst_ratio, failures, type_failures = 0, 0.0, [], []
    for _ in range(n):
        tn, kind, K = gen_mag_net(rng)
        ctx.count('mag_profile', kind)
        ctx.count('mag_has_tensor_below_1e-16', int(any(k <= -17 for row in K for k in row)))
        K10 = dec_exp(tn)
        K10T = [list(x) for x in zip(*K10)]
        oracle = MagOracle(tn)
        desc = None
        for ev in mag_plan(rng, tn):
            worst = mag_domain(K10T if ev['transposed'] else K10, ev)
            tag = ev['kind'] + (':running' if ev.get('tol') is not None else ':plain')
            if worst is None:
                ctx.count('mag_outside_float_domain', tag)
                continue
            ctx.count('mag_eval', tag)
            if ev.get('tol') is not None:
                ctx.count('mag_column_norm_outside_float64', int(worst > 305))
            evals += 1
            try:
                with core.TimeLimit(60):
                    got, types = mag_eval(tn, ev)
                ok, detail = oracle.judge(ev, got)
            except core.TimeLimit.Expired:
                ok, detail, types = False, {'why': 'no result within 60 s'}, []
            except (ValueError, TypeError, AssertionError, IndexError, ArithmeticError, np.linalg.LinAlgError) as ex:
                ok, detail, types = False, {'why': 'raised {!r}'.format(ex)}, []
            if detail.get('ratio') is not None and ok:
                worst_ratio = max(worst_ratio, detail['ratio'])
            if not ok or types:
                desc = desc or net_desc(tn)
                rec = {'net': desc, 'eval': ev, 'profile': kind, 'scale_exponents': K, 'detail': detail,
                       'types': types}
                (failures if not ok else type_failures).append(rec)
    # the literal statement of the property first: full sweeps, then splits, recombined segments, truncate itself
    failures.sort(key=lambda rec: ['full', 'split', 'parts', 'truncate'].index(rec['eval']['kind']))
    what = {'full': 'the full contraction', 'split': 'the split-and-recombined contraction',
            'parts': 'the contraction recombined from consecutive column segments',
            'truncate': 'norm * truncated MPS returned by truncate() on a column state'}
    for rec in failures[:20]:
        ev = rec['eval']
        ctx.monitor_fail(
            'float network with a magnitude profile ({}; every tensor entry and the value representable): {}{} under the '
            'truncation setting {} (which discards nothing) differs from the exact {} beyond the conditioning-based '
            'tolerance'.format(rec['profile'], what[ev['kind']], ' by rows' if ev['transposed'] else '',
                               ev.get('setting'), 'column state' if ev['kind'] == 'truncate' else 'rational value'),
            rec, key='mps2d.contract:magnitude:' + ev['kind'] + (':running' if ev.get('tol') is not None else ':plain'))
    for rec in type_failures[:20]:
        ctx.monitor_fail('a multiplier / norm that must be an mpmath.mpf (column norms leave the float64 range) is '
                         'not: ' + '; '.join(rec['types']), rec, key='mps2d.contract:magnitude:type')
    ctx.explored['magnitude_profiles_and_running_noop_truncation'] = {
        'evaluations': evals, 'exhaustive': False, 'largest_error_over_u_times_condition': worst_ratio,
        'tolerance': 'without truncation 1e-9 relative; running pass: {} * 2^-53 * sum_k ||L_k|| ||R_k||'.format(A_RUN),
        'rule': 'positive float64 networks 2x3 … 6x4 (bonds 1..3, or mixed from {} within a budget), zeros, every tensor '
                'scaled by 10^k, |k| <= {}: two or three columns / rows / single tensors tiny, compensated elsewhere; both '
                'orientations; LR / RL / every split / segments in random spellings, and truncate() on a raw column and the '
                'first column pair; without truncation and with tol in (1e-300, 5e-324, 1e-200) alone, with chi = largest '
                'bond (+1), with masks; only evaluations whose float64 quantities stay in range (shadow of the documented '
                'algorithm on decimal exponents) are judged; mpf type of every multiplier / norm'.format(
                    BOND_SET, SQ_LIMIT)}


def boundary_nets():
    """two fixed 3x4 networks (bonds 2, entries in [0.5, 1.5]) just beyond the magnitude class above: ONE tensor scaled
    by 1e-170 (resp. 1e+170), compensated by two tensors scaled by 1e+85 (resp. 1e-85).  Every entry, every norm of a
    tensor or column state and the value are representable float64 numbers, the plain contraction is exact."""
    import random
    out = []
    for name, k in (('norm-underflow', -170), ('norm-overflow', 170)):
        rng = random.Random(170)
        tn = np.empty((3, 4), dtype=object)
        for r in range(3):
            for c in range(4):
                shape = (1 if r == 0 else 2, 1 if c == 3 else 2, 1 if r == 2 else 2, 1 if c == 0 else 2)
                tn[r, c] = np.array([rng.uniform(0.5, 1.5) for _ in range(shape[0] * shape[1] * shape[2] * shape[3])]
                                    ).reshape(shape)
        tn[1, 1] = tn[1, 1] * 10.0 ** k
        tn[0, 2] = tn[0, 2] * 10.0 ** (-k // 2)
        tn[2, 2] = tn[2, 2] * 10.0 ** (-k // 2)
        out.append((name, tn))
    return out


def float_range_boundary(ctx):
    """beyond |k| = 154 the Frobenius norm of a representable tensor is no longer computed correctly by the real code
    (sum of squares under- / overflows), so a running no-op truncation pass declares a non-zero state zero (or
    infinite).  Deterministic probe, reported under a stable key per direction."""
    for name, tn in boundary_nets():
        oracle = MagOracle(tn)
        for ev in ({'kind': 'full', 'step': None, 'transposed': False, 'setting': 'none'},
                   {'kind': 'full', 'step': None, 'transposed': False, 'setting': 'tol=1e-300', 'tol': (1e-300).hex()}):
            try:
                with warnings.catch_warnings():
                    warnings.simplefilter('ignore')   # numpy: "overflow encountered in dot" is the very finding
                    got, types = mag_eval(tn, ev)
                ok, detail = oracle.judge(ev, got)
            except (ValueError, TypeError, AssertionError, IndexError, ArithmeticError, np.linalg.LinAlgError) as ex:
                ok, detail = False, {'why': 'raised {!r}'.format(ex)}
            ctx.count('boundary_' + name, '{}:{}'.format(ev['setting'], 'ok' if ok else 'differs'))
            if not ok:
                key = 'mps.left_canonical_form:' + name
                what = ('one tensor of a 3x4 network scaled by 1e{:+d} (compensated elsewhere; every entry, norm and the '
                        'value representable; the plain contraction is exact): contract(tn{}) returns {} instead of {}'
                        .format(-170 if name == 'norm-underflow' else 170, ', tol=1e-300' if ev.get('tol') else '',
                                detail.get('got'), detail.get('exact')))
                decided = any(k.get('property') == ctx.pid and k.get('key') == key for k in ctx.known)
                if decided or os.environ.get('QV_C11_BOUNDARY') == 'strict':
                    ctx.monitor_fail(what, {'net': net_desc(tn), 'eval': ev, 'detail': detail, 'types': []}, key=key)
                else:
                    # outside the magnitude class of the property's check (|k| <= 140) and not yet decided upon
                    # (known_findings.json has no entry for the key): shown on every run, does not fail the run
                    print('FINDING-CANDIDATE: property={} {} [{}]'.format(ctx.pid, what, key))
                    ctx.extra.setdefault('finding_candidates', []).append({'key': key, 'what': what})


def float_parts(tn, sps, assoc, tol=None):
    from qecsim.tensortools import mps2d, mps as tt_mps
    ps = [mps2d.contract(tn, start=a, stop=b, step=c, tol=tol) for a, b, c in sps]
    if assoc == 'left':
        acc = ps[0][0]
        for p in ps[1:-1]:
            acc = tt_mps.contract_pairwise(acc, p[0])
        v = tt_mps.inner_product(acc, ps[-1][0])
    else:
        acc = ps[-1][0]
        for p in ps[-2:0:-1]:
            acc = tt_mps.contract_pairwise(p[0], acc)
        v = tt_mps.inner_product(ps[0][0], acc)
    for p in ps:
        v = v * p[1]
    return v


def _mpf_frac(v):
    s, man, exp, bc = v._mpf_
    man = int(man) * (-1 if s else 1)
    return (man * (1 << exp), 1) if exp >= 0 else (man, 1 << (-exp))


# ------------------------------------------------------------------------------------------ failing-input search

STD_NETS = None
_SEARCHED = {}   # network -> battery result (every network is searched once per run)


def std_nets():
    """a fixed family of small compatible networks used to look for a concrete failing input when the broken
    correspondence is on an internal op"""
    import random
    global STD_NETS
    if STD_NETS is not None:
        return STD_NETS
    rng = random.Random(20240611)
    out = []
    for (R, C) in [(1, 2), (2, 2), (2, 3), (3, 2), (3, 3), (2, 4), (3, 4), (4, 3)]:
        for pad in (False, True):
            for dtype in ('int64', 'object'):
                out.append(gen_net(rng, R, C, dtype, 'small', maxbond=3 if R * C <= 9 else 2, pad=pad)[0])
    # wide and narrow bonds mixed in one (cheap) network
    for (R, C) in [(2, 2), (2, 2), (2, 3), (3, 2), (3, 3), (2, 2), (2, 3), (3, 3)]:
        out.append(gen_net(rng, R, C, 'int64', 'small', bonds=mixed_bonds(3e3, 400))[0])
    STD_NETS = out
    return out


def search(m):
    meta = m.get('meta') or {}
    cands = []
    if meta.get('net_shape') and not meta.get('incompatible'):
        base = meta.get('transposed_of') or meta
        try:
            cands.append(parse_net(base['net_shape'], base['net_sites'], base.get('dtype', 'int64')))
        except Exception:
            pass
    for tn in cands + std_nets():
        key = wire_net(tn) + (net_dtype(tn),)
        if key not in _SEARCHED:
            try:
                exact_value(tn)
                _SEARCHED[key] = property_battery(tn, ranges='all')
            except Exception:
                _SEARCHED[key] = None
        if _SEARCHED[key]:
            return _SEARCHED[key]
    return None


def replay(ctx, path):
    body = json.load(open(path))
    bad = 0
    for v in body.get('violations', []):
        ce = v.get('counterexample') or {}
        inp = ce.get('input') if isinstance(ce.get('input'), dict) else ce
        if inp and inp.get('net_shape'):
            tn = parse_net(inp['net_shape'], inp['net_sites'], inp.get('dtype', 'int64'))
            r = replay_ranges(tn, inp) or property_battery(tn, ranges='all')
            print('replay battery on', inp['net_shape'], '->', r and r['what'])
            bad += bool(r)
        elif inp and inp.get('net'):
            r = replay_float(inp)
            print('replay float case', inp['net']['shape'], inp.get('call'), '->', r)
            bad += bool(r)
        mm = v.get('first_mismatch')
        if mm and not bad:
            r = search(mm)
            print('replay search on', mm['op'][:100], '->', r and r['what'])
            bad += bool(r)
    return 1 if bad else 0


def replay_ranges(tn, inp):
    """re-evaluate the recorded spelled-range evaluation (full range or recombined partial contractions)"""
    import random
    if inp.get('call') == 'strided':
        kw = {}
        if inp.get('setting'):
            kw = dict(noop_settings(random.Random(0), tn, max_bond_cap(tn)))[inp['setting']]
        exact = exact_value(tn)
        tns = [tn if p['net_shape'] is None else parse_net(p['net_shape'], p['net_sites'], inp.get('dtype', 'int64'))
               for p in inp['parts']]
        sps = [tuple(p['range']) + (i,) for i, p in enumerate(inp['parts'])]
        got = StridedParts(tns, **kw).combine(sps, inp.get('assoc', 'left'))
        ok = got in ('ok ' + str(round_like_impl(exact)), 'ok ' + str(exact))
        return None if ok else {'what': 'strided parts {}: got {} exact {}'.format(
            [(p['net_shape'], p['range']) for p in inp['parts']], got, exact)}
    if not inp.get('ranges'):
        return None
    kw = {}
    if inp.get('setting'):
        kw = dict(noop_settings(random.Random(0), tn, max_bond_cap(tn)))[inp['setting']]
    exact = exact_value(tn)
    sps = [tuple(sp) for sp in inp['ranges']]
    if inp.get('call') == 'parts':
        got = Parts(tn, **kw).combine(sps, inp.get('assoc', 'left'))
        ok = got in ('ok ' + str(round_like_impl(exact)), 'ok ' + str(exact))
    else:
        got = impl_contract(tn, start=sps[0][0], stop=sps[0][1], step=sps[0][2], **kw)
        ok = got == 'ok s ' + str(round_like_impl(exact))
    return None if ok else {'what': '{} over ranges {}: got {} exact {}'.format(inp.get('call'), sps, got, exact)}


def replay_magnitude(inp):
    tn = net_from_desc(inp['net'])
    ev = inp['eval']
    try:
        got, types = mag_eval(tn, ev)
        ok, detail = MagOracle(tn).judge(ev, got)
    except (ValueError, TypeError, AssertionError, IndexError, ArithmeticError, np.linalg.LinAlgError) as ex:
        ok, detail, types = False, {'why': 'raised {!r}'.format(ex)}, []
    return None if ok and not types else {'detail': detail, 'types': types}


def replay_float(inp):
    from qecsim.tensortools import mps2d, mps as tt_mps
    if inp.get('eval'):
        return replay_magnitude(inp)
    R, C = (int(x) for x in inp['net']['shape'].split('x'))
    tn = np.empty((R, C), dtype=object)
    for i, t in enumerate(inp['net']['tensors']):
        tn[i // C, i % C] = None if t is None else np.array([float.fromhex(x) for x in t['data']]).reshape(t['shape'])
    exact = py_exact(tn)
    name = inp.get('call', 'lr')
    tol = 1e-14 if 'tol' in name else None
    tolr = 1e-7 if tol else 1e-9
    if name.startswith('parts') or name.startswith('range'):
        sps = [tuple(x) for x in json.loads(name.split(' ')[1])]
        if name.startswith('range'):
            v = mps2d.contract(tn, start=sps[0][0], stop=sps[0][1], step=sps[0][2])
        else:
            v = float_parts(tn, sps, name.split(' ')[2])
    elif name.startswith('split'):
        k = int(name.split('k=')[1].split(' ')[0])
        l, ml = mps2d.contract(tn, stop=k, tol=tol)
        r, mr = mps2d.contract(tn, start=-1, stop=k - 1, step=-1, tol=tol)
        v = tt_mps.inner_product(l, r) * ml * mr
    elif name.startswith('transposed'):
        v = mps2d.contract(mps2d.transpose(tn))
    else:
        v = mps2d.contract(tn, tol=tol, step=(-1 if name.startswith('rl') else None))
    v = Fraction(*_mpf_frac(v)) if isinstance(v, mp.mpf) else Fraction(float(v))
    return None if abs(v - exact) <= tolr * abs(exact) else {'got': float(v), 'exact': float(exact)}
