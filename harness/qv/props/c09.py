"""C09 — Pauli primitives agree with the Pauli group: correspondence of qecsim.paulitools with Model/Pauli.lean"""
import itertools
import json

import numpy as np

from qv import core
from qv.core import bits, mat

RULE = ('exhaustive over all Pauli strings / bsf vectors / ordered pairs for n<=N0, all (n,lo,hi) for ipauli with '
        'n<=N1, all pack lengths 0..L, plus seeded random vectors and matrices up to n=300, call histories with in-place updates of returned arrays, dense operators at accumulator-width boundaries up to n=2^20+1 (2^24+3 thorough); a case is non-trivial '
        'when its operand is not all-identity/all-zero; distinct = distinct protocol lines')

ANTI = {(a, b): (a != 'I' and b != 'I' and a != b) for a in 'IXYZ' for b in 'IXYZ'}


def rand_pauli(rng, n):
    return ''.join(rng.choice('IXYZ') for _ in range(n))


def safe(f):
    try:
        return f()
    except AssertionError:
        return 'AssertionError'
    except Exception as ex:  # any other exception type is reported by name
        return type(ex).__name__


def run(ctx):
    from qecsim import paulitools as pt
    rng = ctx.rng
    n0 = ctx.scale(3, 4)
    # exhaustive small n: strings <-> bsf, weights
    for n in range(1, n0 + 1):
        strs = [''.join(t) for t in itertools.product('IXYZ', repeat=n)]
        for s in strs:
            b = pt.pauli_to_bsf(s)
            ctx.case('c09 tobsf ' + s, bits(b), nontrivial=(s != 'I' * n))
            ctx.case('c09 ofbsf ' + bits(b), safe(lambda: pt.bsf_to_pauli(b)), nontrivial=(s != 'I' * n))
            ctx.case('c09 bsfwt ' + bits(b), str(int(pt.bsf_wt(b))), nontrivial=(s != 'I' * n))
            ctx.case('c09 pauliwt ' + s, str(int(pt.pauli_wt(s))), nontrivial=(s != 'I' * n))
        if n <= 3:
            for s in strs:
                bs = pt.pauli_to_bsf(s)
                for t in strs:
                    bt = pt.pauli_to_bsf(t)
                    v = str(int(pt.bsp(bs, bt)))
                    nt = (s != 'I' * n and t != 'I' * n)
                    ctx.case('c09 bsp {} {}'.format(bits(bs), bits(bt)), v, nontrivial=nt)
                    # the independent group-theoretic table must give the same answer as the code
                    ctx.case('c09 anti {} {}'.format(s, t), v, nontrivial=nt)
        ctx.count('exhaustive_n', n)
    # lists of strings -> matrix forms, random sizes
    for _ in range(ctx.scale(400, 4000)):
        n = rng.choice([1, 2, 3, 4, 5, 7, 8, 9, 16, 17, 33, 64, 100, 300])
        ra, rb = rng.randint(1, 5), rng.randint(1, 5)
        A = [rand_pauli(rng, n) for _ in range(ra)]
        B = [rand_pauli(rng, n) for _ in range(rb)]
        ctx.count('random_n', n)
        bA, bB = pt.pauli_to_bsf(A), pt.pauli_to_bsf(B)
        # list conversion is row-wise conversion
        for s, row in zip(A, bA):
            ctx.case('c09 tobsf ' + s, bits(row))
        back = pt.bsf_to_pauli(bA)
        for row, s in zip(bA, back):
            ctx.case('c09 ofbsf ' + bits(row), s)
        ctx.case('c09 bspmat {} {}'.format(mat(bA), mat(bB)), mat(pt.bsp(bA, bB.T)))
        ctx.case('c09 synd {} {}'.format(mat(bB), bits(bA[0])), bits(pt.bsp(bA[0], bB.T)))
        # matrix . vector form: bsp(A, b) for vector b
        ctx.case('c09 bspmat {} {}'.format(mat(bA), mat(bB[:1])), mat(np.array([pt.bsp(bA, bB[0])]).T))
        ctx.case('c09 bsp {} {}'.format(bits(bA[0]), bits(bB[0])), str(int(pt.bsp(bA[0], bB[0]))))
        ctx.case('c09 anti {} {}'.format(A[0], B[0]), str(int(pt.bsp(bA[0], bB[0]))))
        ctx.case('c09 bsfwtmat ' + mat(bA), str(int(pt.bsf_wt(bA))))
        ctx.case('c09 pauliwt ' + A[0], str(int(pt.pauli_wt(A[0]))))
        # weights of lists: sum
        ctx.case('c09 bsfwtmat ' + mat(bB), str(int(pt.pauli_wt(B))))
    # ipauli / ibsf: every (n, lo, hi) incl. invalid ranges
    n1 = ctx.scale(5, 6)
    for n in range(0, n1 + 1):
        for lo in range(0, n + 2):
            for hi in range(0, n + 2):
                def f():
                    return 'ok ' + ' '.join(p if p else '_' for p in pt.ipauli(n, lo, hi))
                ctx.case('c09 ipauli {} {} {}'.format(n, lo, hi), safe(f), nontrivial=(lo <= hi <= n and n > 0))
                if lo <= hi <= n and n <= 4:
                    # ibsf = pauli_to_bsf of ipauli, element by element
                    for p, b in zip(pt.ipauli(n, lo, hi), pt.ibsf(n, lo, hi)):
                        if n > 0:
                            ctx.case('c09 tobsf ' + p, bits(b), nontrivial=False)
        ctx.count('ipauli_n', n)
    # default max_weight=None means n
    for n in range(1, 5):
        ctx.case('c09 ipauli {} 0 {}'.format(n, n), 'ok ' + ' '.join(pt.ipauli(n)))
    # pack / unpack every length
    L = ctx.scale(80, 200)
    for length in range(0, L + 1):
        for rep in range(ctx.scale(4, 10)):
            if rep == 0:
                b = np.zeros(length, dtype=int)
            elif rep == 1:
                b = np.ones(length, dtype=int)
            else:
                b = np.array([rng.randint(0, 1) for _ in range(length)], dtype=int)
            hx, ln = pt.pack(b)
            ctx.case('c09 pack ' + bits(b), '{} {}'.format(hx, ln), nontrivial=bool(b.any()))
            ctx.case('c09 unpack {} {}'.format(hx if hx else '_', ln), bits(pt.unpack((hx, ln))),
                     nontrivial=bool(b.any()))
            # unpack with shorter length than the packed one (prefix)
            if length:
                k = rng.randint(0, length)
                ctx.case('c09 unpack {} {}'.format(hx, k), bits(pt.unpack((hx, k))), nontrivial=bool(b[:k].any()))
        ctx.count('pack_len', length // 8 * 8)
    ctx.exhaustive = False
    ctx.extra['exhaustive_subdomains'] = ['all strings/bsf n<={}'.format(n0), 'all ordered pairs n<=3',
                                          'all (n,lo,hi) n<={}'.format(n1)]
    # --- histories: a result array must be a fresh value — mutating what a call returned must not change what the
    # next call with the same argument returns (round trip / injectivity hold for every call, not just the first)
    for _ in range(ctx.scale(200, 2000)):
        n = rng.choice([1, 2, 3, 5, 8, 17])
        s_ = rand_pauli(rng, n)
        first = pt.pauli_to_bsf(s_); want = first.copy()
        first ^= 1                                   # caller updates the returned error in place (as app does with ^=)
        again = pt.pauli_to_bsf(s_)
        ctx.count('history', 'tobsf-mutate-again')
        if not np.array_equal(again, want):
            ctx.monitor_fail('pauli_to_bsf(s) differs after the array returned by an earlier identical call was updated in '
                             'place: string<->bsf is no longer a bijection', {'pauli': s_, 'first': bits(want),
                                                                             'second': bits(again)}, key=None)
        lst = [rand_pauli(rng, n) for _ in range(3)]
        m1 = pt.pauli_to_bsf(lst); w1 = m1.copy(); m1[:] = 0
        if not np.array_equal(pt.pauli_to_bsf(lst), w1):
            ctx.monitor_fail('pauli_to_bsf(list) differs after in-place update of an earlier result', {'paulis': lst})
        b_ = np.array([rng.randint(0, 1) for _ in range(2 * n)])
        keep = b_.copy(); p1 = pt.bsf_to_pauli(b_); pk = pt.pack(b_); u1 = pt.unpack(pk); u1w = u1.copy(); u1 ^= 1
        if not (np.array_equal(b_, keep) and pt.bsf_to_pauli(b_) == p1 and pt.pack(b_) == pk
                and np.array_equal(pt.unpack(pk), u1w)):
            ctx.monitor_fail('bsf_to_pauli / pack / unpack mutate their argument or depend on earlier calls',
                             {'bsf': bits(keep)})
    # --- accumulator width: dense operators with an odd number of anticommuting positions around every power of two
    # an integer / float accumulator could saturate at (ground truth: X^a on A vs Z on B anticommute iff |A∩B| is odd)
    sizes = [127, 128, 129, 255, 256, 257, 32767, 32768, 32769, 65535, 65536, 65537, (1 << 20) + 1]
    if not ctx.quick():
        sizes += [(1 << 24) + 1, (1 << 24) + 3]     # float32 mantissa; needs ~2 GB and ~40 s
    for n in sizes:
        for overlap in (n, n - 1):
            a = np.zeros(2 * n, dtype=int); b = np.zeros(2 * n, dtype=int)
            a[:n] = 1                    # X on every qubit
            b[n:n + overlap] = 1         # Z on the first `overlap` qubits
            got = int(pt.bsp(a, b)); want = overlap % 2
            ctx.count('dense_bsp_n', n)
            ctx.evaluations += 1
            if got != want or int(pt.bsp(b, a)) != want:
                ctx.monitor_fail('bsp of dense operators disagrees with the Pauli-group commutation (X^n vs Z^m '
                                 'anticommute iff m is odd)', {'n': n, 'z_weight': overlap, 'bsp': got, 'expected': want})
            if overlap == n and int(pt.bsf_wt(a ^ b if False else a)) != n:
                ctx.monitor_fail('bsf_wt of X^n is not n', {'n': n})
            del a, b
    return ctx.finish(RULE, search=search)


def search(m):
    """failing-input search: evaluate the property itself on the real code for the disagreeing op"""
    from qecsim import paulitools as pt
    toks = m['op'].split()
    op = toks[1]
    if op in ('tobsf', 'ofbsf'):
        s = toks[2] if op == 'tobsf' else pt.bsf_to_pauli(np.array([int(c) for c in toks[2]]))
        b = pt.pauli_to_bsf(s)
        n = len(s)
        exp = [int(c in 'XY') for c in s] + [int(c in 'ZY') for c in s]
        if list(b) != exp or pt.bsf_to_pauli(np.array(exp)) != s:
            return {'what': 'string<->bsf is not the documented bijection', 'pauli': s,
                    'pauli_to_bsf': bits(b), 'expected': bits(exp),
                    'bsf_to_pauli(expected)': pt.bsf_to_pauli(np.array(exp))}
    if op in ('bsp', 'anti'):
        if op == 'bsp':
            a = np.array([int(c) for c in toks[2]]); b = np.array([int(c) for c in toks[3]])
            n = len(a) // 2
            s = ''.join('IXZY'[a[i] + 2 * a[n + i]] for i in range(n))
            t = ''.join('IXZY'[b[i] + 2 * b[n + i]] for i in range(n))
        else:
            s, t = toks[2], toks[3]
            a = np.array([int(c in 'XY') for c in s] + [int(c in 'ZY') for c in s])
            b = np.array([int(c in 'XY') for c in t] + [int(c in 'ZY') for c in t])
        truth = sum(ANTI[(x, y)] for x, y in zip(s, t)) % 2
        got = int(pt.bsp(a, b))
        if got != truth:
            return {'what': 'bsp disagrees with Pauli-group commutation', 'a': s, 'b': t, 'bsp': got,
                    'anticommute': truth}
    if op in ('bspmat', 'synd'):
        A = np.array([[int(c) for c in r] for r in toks[2].split('/')])
        B = np.array([[int(c) for c in r] for r in toks[3].split('/')]) if op == 'bspmat' else None
        if op == 'synd':
            B = A; A = np.array([[int(c) for c in toks[3]]])
        M = pt.bsp(A, B.T)
        for i in range(len(A)):
            for j in range(len(B)):
                if int(M[i][j]) != int(pt.bsp(A[i], B[j])):
                    return {'what': 'matrix form of bsp differs from vector form', 'i': i, 'j': j,
                            'A': mat(A), 'B': mat(B)}
        for i in range(len(A)):
            for j in range(len(B)):
                n = A.shape[1] // 2
                s = ''.join('IXZY'[A[i][q] + 2 * A[i][n + q]] for q in range(n))
                t = ''.join('IXZY'[B[j][q] + 2 * B[j][n + q]] for q in range(n))
                truth = sum(ANTI[(x, y)] for x, y in zip(s, t)) % 2
                if int(M[i][j]) != truth:
                    return {'what': 'bsp disagrees with Pauli-group commutation', 'a': s, 'b': t,
                            'bsp': int(M[i][j]), 'anticommute': truth}
    if op in ('bsfwt', 'bsfwtmat', 'pauliwt'):
        if op == 'pauliwt':
            s = toks[2]
            if pt.pauli_wt(s) != sum(c != 'I' for c in s):
                return {'what': 'pauli_wt does not count non-identity factors', 'pauli': s, 'got': pt.pauli_wt(s)}
            b = pt.pauli_to_bsf(s)
        else:
            b = np.array([[int(c) for c in r] for r in toks[2].split('/')])
        rows = np.atleast_2d(b)
        n = rows.shape[1] // 2
        truth = int(sum(((r[:n] + r[n:]) > 0).sum() for r in rows))
        if int(pt.bsf_wt(b if op != 'bsfwt' else rows[0])) != truth:
            return {'what': 'bsf_wt does not count non-identity factors', 'bsf': mat(rows), 'got': int(pt.bsf_wt(b)),
                    'expected': truth}
    if op == 'ipauli':
        n, lo, hi = int(toks[2]), int(toks[3]), int(toks[4])
        if lo <= hi <= n:
            got = list(pt.ipauli(n, lo, hi))
            want = {''.join(t) for t in itertools.product('IXYZ', repeat=n) if lo <= sum(c != 'I' for c in t) <= hi}
            ws = [sum(c != 'I' for c in p) for p in got]
            if set(got) != want or len(got) != len(set(got)) or ws != sorted(ws):
                return {'what': 'ipauli is not complete / duplicate-free / weight-ordered', 'n': n, 'lo': lo,
                        'hi': hi, 'n_yielded': len(got), 'n_expected': len(want)}
    if op in ('pack', 'unpack'):
        for length in range(0, 70):
            for b in (np.ones(length, dtype=int), np.arange(length) % 2, (np.arange(length) % 3 == 0).astype(int)):
                try:
                    r = pt.unpack(pt.pack(b))
                except Exception as ex:
                    return {'what': 'pack/unpack raises', 'bits': bits(b), 'exception': repr(ex)}
                if list(r) != list(b):
                    return {'what': 'unpack(pack(b)) != b', 'bits': bits(b), 'roundtrip': bits(r)}
    return None


def replay(ctx, path):
    body = json.load(open(path))
    bad = 0
    for v in body.get('violations', []):
        m = v.get('first_mismatch')
        if m:
            r = search(m)
            print('replay search on', m['op'][:100], '->', r)
            bad += bool(r)
    return 1 if bad else 0
