"""C09 — Pauli primitives agree with the Pauli group: correspondence of qecsim.paulitools with Model/Pauli.lean"""
import itertools
import json
import math

import numpy as np

from qv import core
from qv.core import bits, mat

RULE = ('exhaustive over all Pauli strings / bsf vectors / ordered pairs for n<=N0, all (n,lo,hi) for ipauli with '
        'n<=N1, all pack lengths 0..L, plus seeded random vectors and matrices up to n=300, call histories with in-place updates of returned arrays, every public function on every argument shape in 7 memory presentations (plain, read-only, strided, reversed, offset, column-major / sliced; arguments unchanged incl. the memory around a view, read-only accepted, results share no memory with arguments or earlier results), ibsf / ipauli as retained sequences judged after full consumption (list, matrix, pairs, held items while advancing, several interleaved iterators), random call histories over all public functions on a pool of retained arrays that are re-used as arguments and updated in place by the caller, dense operators at accumulator-width boundaries up to n=2^20+1 (2^24+3 thorough); '
        'HIGH-WEIGHT ipauli / ibsf ranges on n = 9..12 (every range with max weight >= 9 up to a size cap: exact weight, '
        'two adjacent weights, full ranges; up to 2.7 million items) judged as a stream: count == sum C(n,w) 3^w '
        '(theorem ipauli_length), duplicate-free (hash set), every item a length-n string with weight in range, weights '
        'non-decreasing, items at sampled positions (ends, weight-block boundaries, the first change of the qubit '
        'selection 3^w-1 / 3^w, random) == an independent unranking of the documented order == the model sequence '
        '(driver op ipauliat; whole sequence for <= 200k items), ibsf == pauli_to_bsf of ipauli item by item; '
        'bsp over DTYPES x ARGUMENT SHAPES: all four forms (vector.vector, vector.matrix, matrix.vector, matrix.matrix) '
        'x every ordered pair of dtypes from bool, int8, uint8, int16, int32, uint32, int64 (equal and mixed) x contents '
        'with a controlled number (0, 1, 2, 3, 4, all) of anticommuting qubits incl. Y-vs-Y style double overlaps, '
        'n = 1..300, plus bsf_wt / bsf_to_pauli / pack on every dtype; '
        'STACK SIZES x FORMS: every stacking of m operators against k operators, m, k = 0..4 (0..6 thorough) incl. '
        'single-operator stacks (1 x 2n, one-column right-hand sides in 3 memory presentations), empty stacks and stacks '
        'with repeated operators: all four bsp forms taken from the same stacking have the documented shapes ((m,k), (k,), '
        '(m,), 0-d) and agree entry-wise with the commutation table, conversions / weights of the same stacks have the '
        'documented types (str vs one-element list, vector vs 1 x 2n matrix); every real result is rendered '
        'shape-tolerantly (an unexpected shape / type is an outcome that disagrees with the model, not a harness error); '
        'dense accumulator-boundary operators also in compact dtypes (int8 / uint8 / bool) up to n = 2^24+3 in every '
        'tier; PACK / UNPACK ACROSS ORDERS OF MAGNITUDE: lengths 2^k-1, 2^k, 2^k+1 (k = 7..20, thorough 22), 10^k-1, '
        '10^k, 10^k+1 (k = 2..6, thorough 7), 8*10^k + {-8,-1,0,1,7,8,9} (k = 2..5: 100..100000 packed bytes and the '
        'neighbouring bit / byte boundaries, e.g. 7999, 8000, 8001, 8008) x contents all-zero, all-one, random, a single '
        'one in the middle (up to 20000 bits also random uint8, alternating, a single one in the last position): pack == '
        'the documented packing by an independent integer hex oracle, unpack(pack(b)) == b, unpack(documented packing) '
        '== b, argument unchanged, b with the middle bit flipped packs differently; every array up to 20000 bits and '
        'random arrays of 65537, 80001, 10^5, 2^17+1, 800008, 10^6, 2^20+1 bits also through the Lean model (driver ops '
        'pack / unpack); a case is non-trivial '
        'when its operand is not all-identity/all-zero; distinct = distinct protocol lines')

ANTI = {(a, b): (a != 'I' and b != 'I' and a != b) for a in 'IXYZ' for b in 'IXYZ'}


def rand_pauli(rng, n):
    return ''.join(rng.choice('IXYZ') for _ in range(n))


def safe(f):
    try:
        return f()
    except AssertionError:
        return 'AssertionError'
    except Exception as ex:  # any other exception type is reported by name
        return type(ex).__name__


# shape-tolerant rendering of what the real code returned: a result of an unexpected shape / type is an OUTCOME (it is
# put on the wire as 'shape<...>' and so disagrees with the model, whose reply always has the documented shape), never
# a harness error.  The documented shapes: bsp(vector, vector) is a 0-d integer, bsp(vector, (2n, k)) has shape (k,),
# bsp((m, 2n), vector) shape (m,), bsp((m, 2n), (2n, k)) shape (m, k) - for EVERY m, k >= 1 (single-operator stacks
# included); pauli_to_bsf(str) shape (2n,), pauli_to_bsf(list of m) shape (m, 2n); bsf_to_pauli(vector) a str,
# bsf_to_pauli((m, 2n)) a list of m str; weights are 0-d integers.

def describe(x):
    try:
        if isinstance(x, np.ndarray):
            return 'shape<{}:{}>'.format(','.join(map(str, x.shape)), x.dtype.kind)
        if isinstance(x, (list, tuple)):
            return 'shape<{}:{}>'.format(type(x).__name__, len(x))
        return 'shape<{}>'.format(type(x).__name__)
    except Exception:
        return 'shape<?>'


def is_int0(x):
    return isinstance(x, (int, np.integer, np.bool_)) or (isinstance(x, np.ndarray) and x.ndim == 0
                                                          and x.dtype.kind in 'biu')


def r_int(x):
    """a scalar integer result (python int, numpy integer or 0-d integer array)"""
    return str(int(x)) if is_int0(x) else describe(x)


def r_bits(x, length=None):
    if isinstance(x, np.ndarray) and x.ndim == 1 and x.dtype.kind in 'biu' and (length is None or len(x) == length):
        return bits(x)
    return describe(x)


def r_mat(x, shape=None):
    if isinstance(x, np.ndarray) and x.ndim == 2 and x.dtype.kind in 'biu' and (shape is None or x.shape == tuple(shape)):
        return mat(x)
    return describe(x)


def r_col(x, m):
    """a matrix . vector result (shape (m,)) as the m x 1 matrix the model's bspmat replies with"""
    if isinstance(x, np.ndarray) and x.shape == (m,) and x.dtype.kind in 'biu':
        return mat(x.reshape(m, 1))
    return describe(x)


def r_str(x, n=None):
    return x if isinstance(x, str) and (n is None or len(x) == n) else describe(x)


def part_tall(ctx, pt):
    """STACK HEIGHTS as a class: bsp with very many operators on one or both sides (all Paulis of a few qubits, long
    syndrome tables, n_k_d searches) - heights around every power of two from 2^6 to 2^14 and odd heights in between, so
    that any internal blocking / chunking boundary falls inside some stack.  Ground truth is independent of numpy:
    operators as Python integers, anticommute iff popcount(ax & bz) + popcount(az & bx) is odd.  Every entry of the
    matrix forms is judged; the rows next to the block boundaries and the last rows also go through the Lean model."""
    rng = ctx.rng
    heights = [63, 65, 255, 257, 1023, 1025, 2047, 2049, 4095, 4097, 4133, 8191, 8193, 12345, 16383, 16385]
    if not ctx.quick():
        heights += [20011, 32767, 32769, 65537]
    for m in heights:
        n = rng.choice([3, 5, 6, 7])
        k = rng.choice([1, 2, 5])
        A = np.array([[rng.randint(0, 1) for _ in range(2 * n)] for _ in range(m)], dtype=rng.choice([int, np.int8, np.uint8]))
        A[-1, :] = 0; A[-1, 0] = 1                       # the last operator is X on qubit 0 …
        B = np.array([[rng.randint(0, 1) for _ in range(2 * n)] for _ in range(k)], dtype=int)
        B[0, :] = 0; B[0, n] = 1                         # … and the first on the other side Z on qubit 0
        def asint(row, lo, hi):
            return int(''.join(str(int(x)) for x in row[lo:hi]), 2)
        ax = [asint(r, 0, n) for r in A]; az = [asint(r, n, 2 * n) for r in A]
        bx = [asint(r, 0, n) for r in B]; bz = [asint(r, n, 2 * n) for r in B]
        want = np.array([[(bin(ax[i] & bz[j]).count('1') + bin(az[i] & bx[j]).count('1')) % 2 for j in range(k)]
                         for i in range(m)])
        forms = [('matrix.matrix', lambda: pt.bsp(A, B.T), want),
                 ('matrix.vector', lambda: pt.bsp(A, B[0]), want[:, 0]),
                 ('vector.matrix', lambda: pt.bsp(B[0], A.T), want[:, 0]),
                 ('matrix.matrix (tall on the right)', lambda: pt.bsp(B, A.T), want.T)]
        for name, f, w in forms:
            ctx.evaluations += 1
            ctx.count('tall_bsp_height', m)
            try:
                got = f()
            except Exception as ex:   # noqa: BLE001
                ctx.monitor_fail('bsp raised {!r} on a tall stack'.format(ex)[:200], {'form': name, 'height': m, 'n': n},
                                 key='bsp:tall:raises')
                continue
            if not (isinstance(got, np.ndarray) and got.shape == w.shape and np.array_equal(got, w)):
                bad = None
                if isinstance(got, np.ndarray) and got.shape == w.shape:
                    idx = np.argwhere(got != w)[0]
                    i = int(idx[0]) if name != 'matrix.matrix (tall on the right)' else int(idx[-1])
                    bad = {'operator_index': i, 'a': bits(A[i]), 'b': mat(B), 'got_row': str(got[tuple(idx)]),
                           'expected': str(w[tuple(idx)]), 'vector_form': r_int(pt.bsp(A[i], B[0]))}
                ctx.monitor_fail('bsp ({} form) on a stack of {} operators disagrees with the Pauli-group commutation of '
                                 'the individual operators (and with the vector form)'.format(name, m),
                                 {'form': name, 'height': m, 'n': n, 'first_bad': bad or describe(got)}, key='bsp:tall')
        # model tie on the rows next to power-of-two boundaries and the tail
        res = pt.bsp(A, B.T)
        if isinstance(res, np.ndarray) and res.shape == (m, k):
            rows = sorted(set([0, m - 1, m - 2] + [r for b in (64, 256, 1024, 4096, 8192, 16384) for r in (b - 1, b, b + 1)
                                                   if r < m]))
            ctx.case('c09 bspmat {} {}'.format(mat(A[rows]), mat(B)), r_mat(res[rows], (len(rows), k)))


def run(ctx):
    from qecsim import paulitools as pt
    rng = ctx.rng
    n0 = ctx.scale(3, 4)
    # exhaustive small n: strings <-> bsf, weights
    for n in range(1, n0 + 1):
        strs = [''.join(t) for t in itertools.product('IXYZ', repeat=n)]
        for s in strs:
            b = pt.pauli_to_bsf(s)
            ctx.case('c09 tobsf ' + s, r_bits(b, 2 * n), nontrivial=(s != 'I' * n))
            b = np.array(py_to_bsf(s))      # the operator itself (the harness' own conversion) for the other calls
            ctx.case('c09 ofbsf ' + bits(b), safe(lambda: r_str(pt.bsf_to_pauli(b))), nontrivial=(s != 'I' * n))
            ctx.case('c09 bsfwt ' + bits(b), r_int(pt.bsf_wt(b)), nontrivial=(s != 'I' * n))
            ctx.case('c09 pauliwt ' + s, r_int(pt.pauli_wt(s)), nontrivial=(s != 'I' * n))
        if n <= 3:
            for s in strs:
                bs = np.array(py_to_bsf(s))
                for t in strs:
                    bt = np.array(py_to_bsf(t))
                    v = r_int(pt.bsp(bs, bt))
                    nt = (s != 'I' * n and t != 'I' * n)
                    ctx.case('c09 bsp {} {}'.format(bits(bs), bits(bt)), v, nontrivial=nt)
                    # the independent group-theoretic table must give the same answer as the code
                    ctx.case('c09 anti {} {}'.format(s, t), v, nontrivial=nt)
        ctx.count('exhaustive_n', n)
    # lists of strings -> matrix forms, random sizes
    for _ in range(ctx.scale(400, 4000)):
        n = rng.choice([1, 2, 3, 4, 5, 7, 8, 9, 16, 17, 33, 64, 100, 300])
        ra, rb = rng.randint(1, 5), rng.randint(1, 5)
        A = [rand_pauli(rng, n) for _ in range(ra)]
        B = [rand_pauli(rng, n) for _ in range(rb)]
        ctx.count('random_n', n)
        # the stacks themselves are built by the harness (py_to_bsf): a wrong list conversion is then a wrong REPLY, it
        # cannot make the later questions self-consistent
        bA, bB = np.array([py_to_bsf(p) for p in A]), np.array([py_to_bsf(p) for p in B])
        cA = pt.pauli_to_bsf(A)
        ok = isinstance(cA, np.ndarray) and cA.shape == (ra, 2 * n) and cA.dtype.kind in 'biu'
        # list conversion is row-wise conversion (one row per list element, repeated elements included)
        for i, s in enumerate(A):
            ctx.case('c09 tobsf ' + s, r_bits(cA[i], 2 * n) if ok else describe(cA))
        back = pt.bsf_to_pauli(bA)
        okb = isinstance(back, list) and len(back) == ra
        for i, row in enumerate(bA):
            ctx.case('c09 ofbsf ' + bits(row), r_str(back[i]) if okb else describe(back))
        ctx.case('c09 bspmat {} {}'.format(mat(bA), mat(bB)), r_mat(pt.bsp(bA, bB.T), (ra, rb)))
        ctx.case('c09 synd {} {}'.format(mat(bB), bits(bA[0])), r_bits(pt.bsp(bA[0], bB.T), rb))
        # matrix . vector form: bsp(A, b) for vector b
        ctx.case('c09 bspmat {} {}'.format(mat(bA), mat(bB[:1])), r_col(pt.bsp(bA, bB[0]), ra))
        ctx.case('c09 bsp {} {}'.format(bits(bA[0]), bits(bB[0])), r_int(pt.bsp(bA[0], bB[0])))
        ctx.case('c09 anti {} {}'.format(A[0], B[0]), r_int(pt.bsp(bA[0], bB[0])))
        ctx.case('c09 bsfwtmat ' + mat(bA), r_int(pt.bsf_wt(bA)))
        ctx.case('c09 pauliwt ' + A[0], r_int(pt.pauli_wt(A[0])))
        # weights of lists: sum
        ctx.case('c09 bsfwtmat ' + mat(bB), r_int(pt.pauli_wt(B)))
    # ipauli / ibsf: every (n, lo, hi) incl. invalid ranges
    n1 = ctx.scale(5, 6)
    for n in range(0, n1 + 1):
        for lo in range(0, n + 2):
            for hi in range(0, n + 2):
                def f():
                    return 'ok ' + ' '.join(p if p else '_' for p in pt.ipauli(n, lo, hi))
                ctx.case('c09 ipauli {} {} {}'.format(n, lo, hi), safe(f), nontrivial=(lo <= hi <= n and n > 0))
                if lo <= hi <= n and n <= 4:
                    # ibsf = pauli_to_bsf of ipauli, element by element
                    for p, b in zip(pt.ipauli(n, lo, hi), pt.ibsf(n, lo, hi)):
                        if n > 0:
                            ctx.case('c09 tobsf ' + r_str(p, n), r_bits(b, 2 * n), nontrivial=False)
        ctx.count('ipauli_n', n)
    # default max_weight=None means n
    for n in range(1, 5):
        ctx.case('c09 ipauli {} 0 {}'.format(n, n), safe(lambda n=n: 'ok ' + ' '.join(pt.ipauli(n))))
    # pack / unpack every length
    L = ctx.scale(80, 200)
    for length in range(0, L + 1):
        for rep in range(ctx.scale(4, 10)):
            if rep == 0:
                b = np.zeros(length, dtype=int)
            elif rep == 1:
                b = np.ones(length, dtype=int)
            else:
                b = np.array([rng.randint(0, 1) for _ in range(length)], dtype=int)
            pk = pt.pack(b)
            if not (isinstance(pk, tuple) and len(pk) == 2 and isinstance(pk[0], str) and is_int0(pk[1])):
                ctx.case('c09 pack ' + bits(b), describe(pk), nontrivial=bool(b.any()))
                continue
            hx, ln = pk[0], int(pk[1])
            ctx.case('c09 pack ' + bits(b), '{} {}'.format(hx, ln), nontrivial=bool(b.any()))
            # unpack is asked about the documented packing of b (the harness' own), so a wrong pack cannot mask it
            hx = py_pack(b)
            ctx.case('c09 unpack {} {}'.format(hx if hx else '_', length), r_bits(pt.unpack((hx, length)), length),
                     nontrivial=bool(b.any()))
            # unpack with shorter length than the packed one (prefix)
            if length:
                k = rng.randint(0, length)
                ctx.case('c09 unpack {} {}'.format(hx, k), r_bits(pt.unpack((hx, k)), k), nontrivial=bool(b[:k].any()))
        ctx.count('pack_len', length // 8 * 8)
    ctx.exhaustive = False
    ctx.extra['exhaustive_subdomains'] = ['all strings/bsf n<={}'.format(n0), 'all ordered pairs n<=3',
                                          'all (n,lo,hi) n<={}'.format(n1)]
    # --- histories: a result array must be a fresh value — mutating what a call returned must not change what the
    # next call with the same argument returns (round trip / injectivity hold for every call, not just the first)
    for _ in range(ctx.scale(200, 2000)):
        n = rng.choice([1, 2, 3, 5, 8, 17])
        s_ = rand_pauli(rng, n)
        first = pt.pauli_to_bsf(s_); want = first.copy()
        first ^= 1                                   # caller updates the returned error in place (as app does with ^=)
        again = pt.pauli_to_bsf(s_)
        ctx.count('history', 'tobsf-mutate-again')
        if not np.array_equal(again, want):
            ctx.monitor_fail('pauli_to_bsf(s) differs after the array returned by an earlier identical call was updated in '
                             'place: string<->bsf is no longer a bijection', {'pauli': s_, 'first': bits(want),
                                                                             'second': bits(again)}, key=None)
        lst = [rand_pauli(rng, n) for _ in range(3)]
        m1 = pt.pauli_to_bsf(lst); w1 = m1.copy(); m1[:] = 0
        if not np.array_equal(pt.pauli_to_bsf(lst), w1):
            ctx.monitor_fail('pauli_to_bsf(list) differs after in-place update of an earlier result', {'paulis': lst})
        b_ = np.array([rng.randint(0, 1) for _ in range(2 * n)])
        keep = b_.copy(); p1 = pt.bsf_to_pauli(b_); pk = pt.pack(b_); u1 = pt.unpack(pk); u1w = u1.copy(); u1 ^= 1
        if not (np.array_equal(b_, keep) and pt.bsf_to_pauli(b_) == p1 and pt.pack(b_) == pk
                and np.array_equal(pt.unpack(pk), u1w)):
            ctx.monitor_fail('bsf_to_pauli / pack / unpack mutate their argument or depend on earlier calls',
                             {'bsf': bits(keep)})
    # --- accumulator width: dense operators with an odd number of anticommuting positions around every power of two
    # an integer / float accumulator could saturate at (ground truth: X^a on A vs Z on B anticommute iff |A∩B| is odd)
    sizes = [127, 128, 129, 255, 256, 257, 32767, 32768, 32769, 65535, 65536, 65537, (1 << 20) + 1]
    if not ctx.quick():
        sizes += [(1 << 24) + 1, (1 << 24) + 3]     # float32 mantissa; needs ~2 GB and ~40 s
    dense = [(n, int) for n in sizes]
    # the same boundaries with the operators stored compactly (int8 / uint8 / bool, as one stores an operator on 2^24
    # qubits): 16x less memory, so the single-precision boundary 2^24 is affordable in every tier
    dense += [(n, dt) for n in (127, 129, 255, 257, 32769, 65537) for dt in (np.int8, np.uint8, np.bool_)]
    dense += [((1 << 24) + 1, np.int8), ((1 << 24) + 3, np.bool_)]
    for n, dt in dense:
        for overlap in (n, n - 1):
            a = np.zeros(2 * n, dtype=dt); b = np.zeros(2 * n, dtype=dt)
            a[:n] = 1                    # X on every qubit
            b[n:n + overlap] = 1         # Z on the first `overlap` qubits
            got = r_int(pt.bsp(a, b)); got2 = r_int(pt.bsp(b, a)); want = str(overlap % 2)
            ctx.count('dense_bsp_n', n); ctx.count('dense_bsp_dtype', np.dtype(dt).name)
            ctx.evaluations += 1
            if got != want or got2 != want:
                ctx.monitor_fail('bsp of dense operators disagrees with the Pauli-group commutation (X^n vs Z^m '
                                 'anticommute iff m is odd)', {'n': n, 'z_weight': overlap, 'dtype': np.dtype(dt).name,
                                                               'bsp(a,b)': got, 'bsp(b,a)': got2, 'expected': want})
            if overlap == n and r_int(pt.bsf_wt(a)) != str(n):
                ctx.monitor_fail('bsf_wt of X^n is not n', {'n': n, 'dtype': np.dtype(dt).name,
                                                            'got': r_int(pt.bsf_wt(a))})
            del a, b
    part_tall(ctx, pt)
    part_longpack(ctx, pt)
    part_stackings(ctx, pt)
    part_purity(ctx, pt)
    part_generators(ctx, pt)
    part_histories(ctx, pt)
    part_dtypes(ctx, pt)
    part_highweight(ctx, pt)
    return ctx.finish(RULE, search=search)


# ------------------------------------------------------------------------------------------ pack / unpack at every scale
# "pack/unpack round-trips every binary array of every length": the exhaustive loop above stops at a few hundred bits,
# the arrays qecsim packs in earnest (bsf of a large lattice, its syndrome, logged errors) have 10^4..10^6 entries.
# Lengths are taken across orders of magnitude at every kind of boundary a rendering / buffering / chunking step could
# have: 2^k and 10^k bits (k up to 20 / 6), 8*10^k bits = 10^k packed bytes (array-printing thresholds, line widths),
# each with its neighbours and the neighbouring byte boundaries; contents: all-zero, all-one, random (two), alternating,
# a single one in the middle, a single one in the last position (inside the zero padding of the last byte).
# Every real result is judged twice: by the property's own monitors against an INDEPENDENT hex oracle (integer
# arithmetic only: the padded bit string read as one big-endian integer, two hex digits per byte - no packbits, no
# bytearray) and, for every length up to 20000 and a ladder of long lengths, by the Lean model (driver ops pack /
# unpack, the functions theorems unpack_pack / pack_length are about).  The part draws from its own numpy generator
# (seeded by the run seed), not from ctx.rng.

def fast_bits(b):
    b = np.asarray(b)
    return (b.astype(np.uint8) + 48).tobytes().decode('ascii') if b.size else '_'


def hex_oracle(b):
    """documented packing of a binary vector, by integer arithmetic only"""
    nb = (len(b) + 7) // 8
    if nb == 0:
        return ''
    return '{:0{}x}'.format(int(fast_bits(b) + '0' * (8 * nb - len(b)), 2), 2 * nb)


def unhex_oracle(hx, length):
    """documented unpacking: the first `length` bits of the bytes written in hex (as a 0/1 string)"""
    return ('{:0{}b}'.format(int(hx, 16), 4 * len(hx)) if hx else '')[:length]


LONG_LEAN_ALL = 20000      # every content goes through the Lean model up to this length


def longpack_lengths(quick):
    ls = set()
    for k in range(7, 21 if quick else 23):
        ls |= {2 ** k - 1, 2 ** k, 2 ** k + 1}
    for k in range(2, 7):
        ls |= {10 ** k - 1, 10 ** k, 10 ** k + 1}
    for k in range(2, 6):
        ls |= {8 * 10 ** k + d for d in (-8, -1, 0, 1, 7, 8, 9)}
    if not quick:
        ls |= {10 ** 7 - 1, 10 ** 7, 10 ** 7 + 1}
    return sorted(ls)


def longpack_lean_ladder(quick):
    """long lengths that also go through the Lean model (random content)"""
    return {2 ** 16 + 1, 80001, 10 ** 5, 2 ** 17 + 1, 800008, 10 ** 6, 2 ** 20 + 1} | (set() if quick else {2 ** 21 + 1})


def longpack_content(kind, length, seed):
    if kind == 'zeros':
        return np.zeros(length, dtype=int)
    if kind == 'ones':
        return np.ones(length, dtype=int)
    if kind == 'alternating':
        return (np.arange(length) % 2).astype(int)
    if kind in ('one-in-the-middle', 'one-at-the-end'):
        b = np.zeros(length, dtype=int)
        if length:
            b[length // 2 if kind == 'one-in-the-middle' else length - 1] = 1
        return b
    g = np.random.default_rng([seed, length, 0xC09])
    if kind == 'random-uint8':
        return g.integers(0, 2, length, dtype=np.uint8)
    return g.integers(0, 2, length).astype(int)       # 'random'


def summarise(h):
    return h if not isinstance(h, str) or len(h) <= 64 else '{}<{} characters>{}'.format(h[:24], len(h) - 48, h[-24:])


def longpack_failure(pt, length, kind, seed):
    """the PROPERTY on the real code for one array (described by length / content kind / seed): pack gives the
    documented packing, unpack inverts it (both of pack's own output and of the documented packing), distinct arrays
    pack differently.  returns (failure dict or None, pack's result, the array)"""
    b = longpack_content(kind, length, seed)
    inp = {'part': 'longpack', 'length': length, 'content': kind, 'numpy_seed': seed,
           'ones_at_first_10': np.flatnonzero(b)[:10].tolist(), 'n_ones': int(b.sum())}
    keep = b.copy()
    want = hex_oracle(b)
    try:
        pk = pt.pack(b)
    except Exception as ex:
        return dict(inp, what='pack raises {!r} on a binary array of length {}'.format(ex, length)[:300]), None, b
    if not (isinstance(pk, tuple) and len(pk) == 2 and isinstance(pk[0], str) and is_int0(pk[1])):
        return dict(inp, what='pack does not return (hex string, length): {}'.format(describe(pk))), None, b
    if (pk[0], int(pk[1])) != (want, length):
        return dict(inp, what='pack(b) is not the big-endian bit packing of b for a binary array of length {} ({}): '
                              'got ({!r}, {}), documented ({!r}, {})'.format(length, kind, summarise(pk[0]), int(pk[1]),
                                                                            summarise(want), length),
                    got_hex_length=len(pk[0]), expected_hex_length=len(want)), pk, b
    for what, arg in (('unpack(pack(b))', pk), ('unpack of the documented packing of b', (want, length))):
        try:
            u = pt.unpack(arg)
        except Exception as ex:
            return dict(inp, what='{} raises {!r} (length {}, {})'.format(what, ex, length, kind)[:300]), pk, b
        if not (isinstance(u, np.ndarray) and u.shape == (length,) and u.dtype.kind in 'biu' and np.array_equal(u, keep)):
            first = (int(np.flatnonzero(np.asarray(u) != keep)[0]) if isinstance(u, np.ndarray) and u.shape == (length,)
                     else None)
            return dict(inp, what='{} != b (length {}, {}): result {}, first differing position {}'.format(
                what, length, kind, describe(u), first)), pk, b
    if not np.array_equal(b, keep):
        return dict(inp, what='pack / unpack changed the array they were given'), pk, b
    if length:
        b2 = b.copy(); b2[length // 2] ^= 1
        try:
            pk2 = pt.pack(b2)
        except Exception as ex:
            return dict(inp, what='pack raises {!r} after flipping bit {}'.format(ex, length // 2)[:300]), pk, b
        if pk2 == pk:
            return dict(inp, what='b and b with bit {} flipped pack to the same value (length {}, {}): pack is not '
                                  'injective, so unpack cannot invert it'.format(length // 2, length, kind)), pk, b
    return None, pk, b


def part_longpack(ctx, pt):
    quick = ctx.quick()
    seed = int(ctx.seed)
    ladder = longpack_lean_ladder(quick)
    # the oracle itself against the bit-by-bit definition (py_pack) on short arrays
    g = np.random.default_rng([seed, 0xC09])
    for length in list(range(0, 41)) + [63, 64, 65, 255, 1001]:
        b = g.integers(0, 2, length)
        if hex_oracle(b) != py_pack(b) or unhex_oracle(py_pack(b), length) != ''.join(map(str, b.tolist())):
            raise core.Infra('c09: the integer hex oracle disagrees with the bit-by-bit packing at length {}'.format(length))
    n_fail = 0; n_bits = 0; n_arrays = 0
    for length in longpack_lengths(quick):
        kinds = ['zeros', 'ones', 'random', 'one-in-the-middle']
        if length <= LONG_LEAN_ALL:
            kinds += ['random-uint8', 'alternating', 'one-at-the-end']
        for kind in kinds:
            fail, pk, b = longpack_failure(pt, length, kind, seed)
            ctx.evaluations += 1; n_arrays += 1; n_bits += length
            ctx.count('longpack_len_magnitude', '1e{}'.format(len(str(length)) - 1))
            ctx.count('longpack_content', kind)
            if fail:
                n_fail += 1
                ctx.monitor_fail(fail.pop('what'), fail, key=None)
                if n_fail >= 3:
                    return
            # the Lean model on the same array
            if length <= LONG_LEAN_ALL or (length in ladder and kind == 'random'):
                wire = fast_bits(b)
                nt = bool(b.any())
                ctx.case('c09 pack ' + wire, '{} {}'.format(pk[0], int(pk[1])) if pk else 'no-result', nontrivial=nt,
                         meta={'part': 'longpack', 'length': length, 'content': kind, 'numpy_seed': seed})
                hx = hex_oracle(b)
                try:
                    u = pt.unpack((hx, length))
                    got = (fast_bits(u) if isinstance(u, np.ndarray) and u.shape == (length,) and u.dtype.kind in 'biu'
                           else describe(u))
                except Exception as ex:
                    got = type(ex).__name__
                ctx.case('c09 unpack {} {}'.format(hx if hx else '_', length), got, nontrivial=nt,
                         meta={'part': 'longpack', 'length': length, 'content': kind, 'numpy_seed': seed})
                ctx.count('longpack_lean', 'ladder' if length > LONG_LEAN_ALL else 'all-contents')
        if len(ctx.queue) and sum(len(c[0]) for c in ctx.queue[-8:]) > 4000000:
            ctx.flush()          # keep the queue of very long lines small
    ctx.extra['longpack'] = {'arrays': n_arrays, 'bits': n_bits, 'max_length': longpack_lengths(quick)[-1],
                             'lean_ladder': sorted(ladder)}


# ------------------------------------------------------------------------------------------ purity / freshness
# The property quantifies over VALUES (Pauli operators, binary vectors); the code works on numpy arrays that the caller
# keeps.  For the statement to hold "for all inputs" every public function must (1) leave the arrays it is handed
# unchanged (the operator b denotes the same Pauli after bsf_wt(b) as before), whatever their memory layout and also
# when they are read-only, and (2) return values that are the caller's own (no result shares memory with an argument,
# with an earlier result, or with anything a later call returns): otherwise string<->bsf, bsp and the weight-ordered
# enumeration are right for one call and wrong for the same value one call later.

def py_to_bsf(s):
    return [int(c in 'XY') for c in s] + [int(c in 'ZY') for c in s]


def py_of_bsf(b):
    n = len(b) // 2
    return ''.join('IXZY'[int(b[i]) + 2 * int(b[n + i])] for i in range(n))


def py_pack(b):
    """documented packing: big-endian bits, zero-padded to whole bytes, as a hex string"""
    b = [int(x) for x in b]
    return ''.join('{:02x}'.format(int(''.join(map(str, b[i:i + 8] + [0] * (8 - len(b[i:i + 8])))), 2))
                   for i in range(0, len(b), 8))


def py_anti(s, t):
    return sum(ANTI[(x, y)] for x, y in zip(s, t)) % 2


def py_enum(n, lo, hi):
    """independent enumeration: Pauli strings of weight lo..hi as a set"""
    return {''.join(t) for t in itertools.product('IXYZ', repeat=n) if lo <= sum(c != 'I' for c in t) <= hi}


FORMS = ['plain', 'readonly', 'strided', 'readonly-strided', 'reversed', 'offset', 'layout']
FILL = 7    # content of the memory between / around the elements of a view: never a valid binary entry


def present(a, form):
    """the value `a` (1-d or 2-d int array) in a given memory presentation: returns (array handed to the code,
    base array owning the memory)"""
    a = np.array(a, dtype=int)
    ro = form.startswith('readonly')
    kind = form[9:] if form.startswith('readonly-') else form
    if kind in ('plain', 'readonly'):
        base = a.copy(); sel = (Ellipsis,)
    elif kind == 'strided':
        base = np.full(tuple(2 * d + 1 for d in a.shape), FILL, dtype=int)
        sel = tuple(slice(1, None, 2) for _ in a.shape)
        base[sel] = a
    elif kind == 'reversed':
        sel = tuple(slice(None, None, -1) for _ in a.shape)
        base = a[sel].copy()
    elif kind == 'offset':
        base = np.full(tuple(d + 5 for d in a.shape), FILL, dtype=int)
        sel = tuple(slice(3, 3 + d) for d in a.shape)
        base[sel] = a
    else:   # 'layout': column-major storage for matrices, a slice of a longer vector for vectors
        if a.ndim == 2:
            base = np.asfortranarray(a); sel = (Ellipsis,)
        else:
            base = np.concatenate([a, np.full(3, FILL, dtype=int)]); sel = (slice(0, len(a)),)
    if ro:
        base.setflags(write=False)
    return base[sel], base


def show(v):
    if isinstance(v, np.ndarray):
        return bits(v) if v.ndim == 1 else (mat(v) if v.ndim == 2 else repr(v.tolist()))
    if isinstance(v, (np.integer,)):
        return str(int(v))
    return repr(v)


def as_paulis(v):
    """binary vector / matrix -> Pauli string(s) by the harness' own conversion (None when not an even-length binary)"""
    try:
        v = np.asarray(v)
        if v.ndim == 1 and len(v) % 2 == 0 and set(v.tolist()) <= {0, 1}:
            return py_of_bsf(v)
        if v.ndim == 2 and v.shape[1] % 2 == 0 and set(v.ravel().tolist()) <= {0, 1}:
            return [py_of_bsf(r) for r in v]
    except Exception:
        pass
    return None


class Pure:
    """runs real paulitools calls under the purity / freshness monitors; `live` = every array the caller still holds
    (arguments' bases and earlier results) with the value it must still have"""

    def __init__(self, ctx, tag):
        self.ctx, self.tag = ctx, tag
        self.live = []        # [name, array, snapshot]
        self.log = []         # human-readable call history
        self.failed = False

    def hold(self, arr, desc):
        name = 'r{}'.format(len(self.live))
        self.live.append([name, arr, arr.copy()])
        self.log.append('{} = {}'.format(name, desc))
        return name

    def fail(self, what, extra, key=None):
        self.failed = True
        d = {'history': list(self.log[-40:]), 'part': self.tag}
        d.update(extra)
        self.ctx.monitor_fail(what, d, key=key)

    def verify(self, after):
        """every array the caller holds still has the value it had (the harness' own updates refresh the snapshot)"""
        for name, arr, snap in self.live:
            if arr.shape != snap.shape or not np.array_equal(arr, snap):
                self.fail('an array the caller holds (argument or earlier result) changed during a later paulitools '
                          'call: the operator it denotes is a different Pauli afterwards (string<->bsf round trip, bsp '
                          'and weight of the SAME array disagree before / after)',
                          {'array': name, 'during': after, 'before': show(snap), 'after': show(arr),
                           'pauli_before': as_paulis(snap), 'pauli_after': as_paulis(arr)})
                return False
        return True

    def call(self, desc, fn, args, bases=()):
        """fn(*args) with monitors: no exception, held arrays unchanged, result fresh.  `bases` = arrays owning the
        memory of the arguments (held for the duration of the call only unless already live)"""
        ctx = self.ctx
        ctx.evaluations += 1
        tmp = [['<argument>', b, b.copy()] for b in bases if not any(b is l[1] for l in self.live)]
        self.live += tmp
        try:
            try:
                res = fn(*args)
            except Exception as ex:
                self.fail('{} raised {!r} on a valid input (the property holds for all binary vectors / Pauli strings, '
                          'whatever their memory layout or writeability)'.format(desc.split('(')[0], ex),
                          {'call': desc, 'args': [show(a) for a in args],
                           'flags': [(a.flags.writeable, a.flags.c_contiguous) for a in args
                                     if isinstance(a, np.ndarray)]})
                return None
            self.log.append(desc + ' -> ' + show(res)[:200])
            if not self.verify(desc):
                return None
            outs = res if isinstance(res, (list, tuple)) else [res]
            for o in outs:
                if isinstance(o, np.ndarray):
                    for name, arr, _ in self.live:
                        if arr.size and o.size and np.shares_memory(o, arr):
                            self.fail('the array returned by {} shares memory with {}: updating either in place '
                                      'changes the other, so the returned value is not a fixed Pauli / binary vector'
                                      .format(desc.split('(')[0], 'an argument' if name == '<argument>' else
                                              'the earlier result / held array ' + name), {'call': desc})
                            return None
            return res
        finally:
            for t in tmp:
                self.live.remove(t)


def truth_and_case(ctx, pure, fname, vals, res):
    """value of one call: queue the model comparison and evaluate the property's own ground truth; vals = argument
    VALUES (as they were before the call)"""
    def bad(what, **kw):
        pure.fail('in this call history {} {}'.format(fname, what), dict(kw, args=[show(v) for v in vals]))
    if res is None:
        return
    if fname == 'pauli_to_bsf':
        s = vals[0]
        rows = [s] if isinstance(s, str) else list(s)
        # a string gives a vector, a list of m strings an (m, 2n) matrix - also for m = 1
        wshape = (2 * len(s),) if isinstance(s, str) else (len(rows), 2 * len(rows[0]))
        if not isinstance(res, np.ndarray) or res.shape != wshape or res.dtype.kind not in 'biu':
            for p in rows:
                ctx.case('c09 tobsf ' + p, describe(res), nontrivial=False)
            return bad('returned {} instead of an integer array of shape {}'.format(describe(res), wshape))
        got = np.atleast_2d(res)
        for p, r in zip(rows, got):
            ctx.case('c09 tobsf ' + p, bits(r), nontrivial=False)
            if [int(x) for x in r] != py_to_bsf(p):
                return bad('is not the documented bijection', pauli=p, got=bits(r))
    elif fname == 'bsf_to_pauli':
        b = vals[0]
        rows = np.atleast_2d(b)
        # a vector gives a string, an (m, 2n) matrix a list of m strings - also for m = 1
        if not (isinstance(res, str) if b.ndim == 1 else (isinstance(res, list) and len(res) == len(rows)
                                                          and all(isinstance(p, str) for p in res))):
            for r in rows:
                ctx.case('c09 ofbsf ' + bits(r), describe(res), nontrivial=False)
            return bad('returned {!r} instead of {}'.format(res, 'a string' if b.ndim == 1 else
                                                            'a list of {} strings'.format(len(rows))))
        got = [res] if b.ndim == 1 else list(res)
        for r, p in zip(rows, got):
            ctx.case('c09 ofbsf ' + bits(r), str(p), nontrivial=False)
            if p != py_of_bsf(r):
                return bad('is not the documented bijection', bsf=bits(r), got=p)
    elif fname == 'bsf_wt':
        b = vals[0]
        ctx.case(('c09 bsfwt ' + bits(b)) if b.ndim == 1 else ('c09 bsfwtmat ' + mat(b)), r_int(res), nontrivial=False)
        want = sum(c != 'I' for r in np.atleast_2d(b) for c in py_of_bsf(r))
        if r_int(res) != str(want):
            return bad('does not count the non-identity factors', got=r_int(res), expected=want)
    elif fname == 'pauli_wt':
        s = vals[0]
        rows = [s] if isinstance(s, str) else list(s)
        if isinstance(s, str):
            ctx.case('c09 pauliwt ' + s, r_int(res), nontrivial=False)
        else:
            ctx.case('c09 bsfwtmat ' + mat([py_to_bsf(p) for p in rows]), r_int(res), nontrivial=False)
        want = sum(c != 'I' for p in rows for c in p)
        if r_int(res) != str(want):
            return bad('does not count the non-identity factors', got=r_int(res), expected=want)
    elif fname == 'bsp':
        a, b = vals          # b is given as bsf rows (vector or matrix of operators), i.e. BEFORE transposition
        A, B = np.atleast_2d(a), np.atleast_2d(b)
        want = np.array([[py_anti(py_of_bsf(x), py_of_bsf(y)) for y in B] for x in A])
        m, k = len(A), len(B)
        # documented result shape of each form, for every stack size (single-operator stacks included)
        wshape = () if a.ndim == 1 and b.ndim == 1 else (k,) if a.ndim == 1 else (m,) if b.ndim == 1 else (m, k)
        okr = (is_int0(res) if wshape == () else
               isinstance(res, np.ndarray) and res.shape == wshape and res.dtype.kind in 'biu')
        got = np.asarray(res) if okr else None
        if a.ndim == 1 and b.ndim == 1:
            ctx.case('c09 bsp {} {}'.format(bits(a), bits(b)), r_int(res), nontrivial=False)
        elif a.ndim == 1:
            ctx.case('c09 synd {} {}'.format(mat(B), bits(a)), r_bits(res, k), nontrivial=False)
        elif b.ndim == 1:
            ctx.case('c09 bspmat {} {}'.format(mat(A), mat(B)), r_col(res, m), nontrivial=False)
        else:
            ctx.case('c09 bspmat {} {}'.format(mat(A), mat(B)), r_mat(res, (m, k)), nontrivial=False)
        if not okr:
            return bad('returned {} where the {} form on a stack of {} and a stack of {} operator(s) has shape {}: the '
                       'forms of bsp no longer agree element-wise (entry [i, j] of the matrix form must be bsp(a_i, b_j))'
                       .format(describe(res), '.'.join('vector' if x.ndim == 1 else 'matrix' for x in (a, b)), m, k,
                               wshape), got=repr(res)[:200], expected=mat(want), a=as_paulis(a), b=as_paulis(b))
        if not np.array_equal(got.reshape(want.shape), want):
            return bad('disagrees with the Pauli-group commutation', got=show(got), expected=mat(want),
                       a=as_paulis(a), b=as_paulis(b))
    elif fname == 'pack':
        b = vals[0]
        if not (isinstance(res, tuple) and len(res) == 2 and isinstance(res[0], str) and is_int0(res[1])):
            ctx.case('c09 pack ' + bits(b), describe(res), nontrivial=False)
            return bad('returned {!r} instead of (hex string, length)'.format(res))
        ctx.case('c09 pack ' + bits(b), '{} {}'.format(res[0], res[1]), nontrivial=False)
        want = py_pack(b)
        if (res[0], res[1]) != (want, len(b)):
            return bad('is not the big-endian bit packing', got=repr(res), expected=repr((want, len(b))))
    elif fname == 'unpack':
        hx, ln = vals[0]
        ctx.case('c09 unpack {} {}'.format(hx if hx else '_', ln), r_bits(res, ln), nontrivial=False)
        want = [int(c) for c in ''.join('{:08b}'.format(x) for x in bytes.fromhex(hx))][:ln]
        if r_bits(res, ln) != bits(want):
            return bad('does not invert pack', got=r_bits(res, ln), expected=bits(want))


def rand_bsf(rng, n, rows=None):
    if rows is None:
        return np.array([rng.randint(0, 1) for _ in range(2 * n)], dtype=int)
    return np.array([[rng.randint(0, 1) for _ in range(2 * n)] for _ in range(rows)], dtype=int)


def part_purity(ctx, pt):
    """every public function x every argument shape x every memory presentation of the argument(s): arguments are
    not modified (also around / between the elements of a view), read-only inputs are accepted, results are fresh"""
    rng = ctx.rng
    for n in range(1, ctx.scale(2, 3) + 1):
        strs = [''.join(t) for t in itertools.product('IXYZ', repeat=n)]
        for form in FORMS:
            for s in strs:
                P = Pure(ctx, 'purity')
                val = np.array(py_to_bsf(s))
                v, base = present(val, form)
                ctx.count('purity.form', form)
                truth_and_case(ctx, P, 'bsf_wt', [val], P.call('bsf_wt(<{}> {})'.format(form, s), pt.bsf_wt, [v], [base]))
                # the same array object goes on being used, as a caller would: it must still be the same Pauli
                truth_and_case(ctx, P, 'bsf_to_pauli', [val],
                               P.call('bsf_to_pauli(<{}> {})'.format(form, s), pt.bsf_to_pauli, [v], [base]))
                truth_and_case(ctx, P, 'pack', [val], P.call('pack(<{}> {})'.format(form, s), pt.pack, [v], [base]))
                t = rng.choice(strs)
                w, wbase = present(np.array(py_to_bsf(t)), rng.choice(FORMS))
                truth_and_case(ctx, P, 'bsp', [val, np.array(py_to_bsf(t))],
                               P.call('bsp(<{}> {}, {})'.format(form, s, t), pt.bsp, [v, w], [base, wbase]))
                truth_and_case(ctx, P, 'bsp', [np.array(py_to_bsf(t)), val],
                               P.call('bsp({}, <{}> {})'.format(t, form, s), pt.bsp, [w, v], [base, wbase]))
                truth_and_case(ctx, P, 'bsf_wt', [val], P.call('bsf_wt(<{}> {}) again'.format(form, s), pt.bsf_wt, [v],
                                                               [base]))
                if P.failed:
                    return
    for _ in range(ctx.scale(300, 3000)):
        P = Pure(ctx, 'purity')
        n = rng.choice([1, 2, 3, 4, 5, 8, 9, 17, 64])
        ra, rb = rng.randint(1, 4), rng.randint(1, 4)
        fa, fb = rng.choice(FORMS), rng.choice(FORMS)
        A, B = rand_bsf(rng, n, ra), rand_bsf(rng, n, rb)
        vA, bA = present(A, fa)
        vB, bB = present(B, fb)
        ctx.count('purity.form2', fa)
        d = '<{}> {}x{}'.format(fa, ra, 2 * n)
        truth_and_case(ctx, P, 'bsf_wt', [A], P.call('bsf_wt({})'.format(d), pt.bsf_wt, [vA], [bA]))
        truth_and_case(ctx, P, 'bsf_to_pauli', [A], P.call('bsf_to_pauli({})'.format(d), pt.bsf_to_pauli, [vA], [bA]))
        truth_and_case(ctx, P, 'bsp', [A, B], P.call('bsp({}, <{}>.T)'.format(d, fb), pt.bsp, [vA, vB.T], [bA, bB]))
        truth_and_case(ctx, P, 'bsp', [A, B[0]], P.call('bsp({}, row)'.format(d), pt.bsp, [vA, vB[0]], [bA, bB]))
        truth_and_case(ctx, P, 'bsp', [A[0], B], P.call('bsp(row, <{}>.T)'.format(fb), pt.bsp, [vA[0], vB.T], [bA, bB]))
        truth_and_case(ctx, P, 'bsp', [A[0], B[0]], P.call('bsp(row, row)', pt.bsp, [vA[0], vB[0]], [bA, bB]))
        truth_and_case(ctx, P, 'bsf_wt', [A[0]], P.call('bsf_wt(row of {})'.format(d), pt.bsf_wt, [vA[0]], [bA]))
        truth_and_case(ctx, P, 'pack', [A[0]], P.call('pack(row of {})'.format(d), pt.pack, [vA[0]], [bA]))
        # string / list arguments: the list object the caller passes is not consumed / reordered
        lst = [rand_pauli(rng, n) for _ in range(ra)]
        keep = list(lst)
        r1 = P.call('pauli_to_bsf({!r})'.format(lst)[:120], pt.pauli_to_bsf, [lst])
        truth_and_case(ctx, P, 'pauli_to_bsf', [keep], r1)
        r2 = P.call('pauli_wt(list)', pt.pauli_wt, [lst])
        truth_and_case(ctx, P, 'pauli_wt', [keep], r2)
        if lst != keep:
            P.fail('pauli_to_bsf / pauli_wt modified the list of Pauli strings it was given', {'before': keep,
                                                                                                 'after': lst})
        # results are fresh w.r.t. each other: two calls with the same argument, both results kept
        if r1 is not None:
            P.hold(r1, 'pauli_to_bsf(list)')
            r1b = P.call('pauli_to_bsf(same list)', pt.pauli_to_bsf, [lst])
            truth_and_case(ctx, P, 'pauli_to_bsf', [keep], r1b)
        s1 = P.call('pauli_to_bsf({!r})'.format(keep[0])[:120], pt.pauli_to_bsf, [keep[0]])
        if s1 is not None:
            P.hold(s1, 'pauli_to_bsf(str)')
            truth_and_case(ctx, P, 'pauli_to_bsf', [keep[0]], P.call('pauli_to_bsf(same str)', pt.pauli_to_bsf,
                                                                     [keep[0]]))
        pk = pt.pack(A[0])
        u1 = P.call('unpack({!r})'.format(pk)[:120], pt.unpack, [pk])
        if u1 is not None:
            P.hold(u1, 'unpack(packed)')
            truth_and_case(ctx, P, 'unpack', [pk], P.call('unpack(same)', pt.unpack, [pk]))
        o1 = P.call('bsp(A, B.T)', pt.bsp, [vA, vB.T], [bA, bB])
        if isinstance(o1, np.ndarray):
            P.hold(o1, 'bsp(A, B.T)')
            truth_and_case(ctx, P, 'bsp', [A, B], P.call('bsp(A, B.T) again', pt.bsp, [vA, vB.T], [bA, bB]))
        if P.failed:
            return


def retained_check(ctx, P, what, n, lo, hi, kept, call):
    """a retained sequence of yielded bsf arrays, judged AFTER the iterator was fully consumed: the model's sequence
    (correspondence case) and the property itself (every Pauli of the weight range exactly once, non-decreasing)"""
    strs = [py_of_bsf(b) if len(b) == 2 * n and set(np.asarray(b).tolist()) <= {0, 1} else '?' for b in kept]
    ctx.case('c09 ipauli {} {} {}'.format(n, lo, hi), 'ok ' + ' '.join(p if p else '_' for p in strs),
             nontrivial=(n > 0), meta={'via': what})
    want = py_enum(n, lo, hi)
    ws = [sum(c != 'I' for c in p) for p in strs]
    if set(strs) != want or len(strs) != len(want) or ws != sorted(ws):
        P.fail('{} does not contain every Pauli of the weight range exactly once in non-decreasing weight'.format(call),
               {'n': n, 'min_weight': lo, 'max_weight': hi, 'n_items': len(strs), 'n_distinct': len(set(strs)),
                'n_expected': len(want), 'first_items': strs[:8],
                'distinct_objects': len({id(b) for b in kept})})
        return False
    return True


def part_generators(ctx, pt):
    """ipauli / ibsf as SEQUENCES: what a caller who retains the yielded items holds after the iterator is exhausted
    (list, matrix, sorted, pairs), while it is still running (best-so-far kept across later next() calls), and with
    several iterators open at once"""
    rng = ctx.rng
    nmax = ctx.scale(4, 5)
    for n in range(0, nmax + 1):
        for lo in range(0, n + 1):
            for hi in range(lo, n + 1):
                P = Pure(ctx, 'generators')
                ctx.count('retained_n', n)
                kept = P.call('list(ibsf({}, {}, {}))'.format(n, lo, hi), lambda: list(pt.ibsf(n, lo, hi)), [])
                if kept is None:
                    return
                if n == 0:
                    continue
                if not retained_check(ctx, P, 'ibsf', n, lo, hi, kept, 'list(ibsf({}, {}, {}))'.format(n, lo, hi)):
                    return
                # derived retained forms: matrix, weight-sorted, unordered pairs
                M = np.array(kept).reshape(len(kept), 2 * n)
                ps = list(pt.ipauli(n, lo, hi))
                if [py_of_bsf(r) for r in M] != ps:
                    P.fail('np.array(list(ibsf(n, lo, hi))) is not the matrix of list(ipauli(n, lo, hi))',
                           {'n': n, 'min_weight': lo, 'max_weight': hi}); return
                if n <= 3:
                    pairs = list(itertools.combinations(pt.ibsf(n, lo, hi), 2))
                    wantp = list(itertools.combinations(ps, 2))
                    if [(py_of_bsf(a), py_of_bsf(b)) for a, b in pairs] != wantp:
                        P.fail('itertools.combinations(ibsf(n, lo, hi), 2) are not the pairs of distinct Paulis of the '
                               'weight range', {'n': n, 'min_weight': lo, 'max_weight': hi}); return
                # freshness: yielded arrays are pairwise independent and independent of any pauli_to_bsf result
                seen = kept[:200]
                for i in range(len(seen) - 1):
                    if np.shares_memory(seen[i], seen[i + 1]) or np.shares_memory(seen[i], seen[-1]):
                        P.fail('successive items yielded by ibsf share memory', {'n': n, 'min_weight': lo,
                                                                                  'max_weight': hi, 'index': i}); return
                # while running: keep an item, advance, the kept item is still the Pauli it was
                g = pt.ibsf(n, lo, hi)
                held = []
                for k, b in enumerate(g):
                    if rng.random() < 0.3 or k == 0:
                        held.append((k, b, b.copy()))
                    for k0, arr, snap in held:
                        if not np.array_equal(arr, snap):
                            P.fail('an item yielded by ibsf changes when the iterator is advanced: the Pauli at position '
                                   '{} of the enumeration is {} when yielded and {} {} steps later'.format(
                                       k0, py_of_bsf(snap), py_of_bsf(arr), k - k0),
                                   {'n': n, 'min_weight': lo, 'max_weight': hi}); return
                    if k > 300:
                        break
    # several iterators open at once (same and different arguments), advanced in a random interleaving; caller also
    # updates yielded arrays in place (as a decoder xor-ing a candidate recovery would)
    for _ in range(ctx.scale(60, 600)):
        P = Pure(ctx, 'generators')
        specs = []
        for _g in range(rng.randint(2, 4)):
            n = rng.choice([1, 2, 2, 3, 3, 4])
            lo = rng.randint(0, n); hi = rng.randint(lo, n)
            kind = rng.choice(['ibsf', 'ibsf', 'ipauli'])
            specs.append([kind, n, lo, hi, getattr(pt, kind)(n, lo, hi), []])
        open_ = list(range(len(specs)))
        ctx.count('interleaved_iterators', len(specs))
        steps = 0
        while open_ and steps < 400:
            i = rng.choice(open_); steps += 1
            kind, n, lo, hi, g, got = specs[i]
            try:
                item = next(g)
            except StopIteration:
                open_.remove(i); continue
            ctx.evaluations += 1
            P.log.append('next(g{} = {}({}, {}, {}))'.format(i, kind, n, lo, hi))
            if not P.verify('next(g{})'.format(i)):
                return
            if kind == 'ibsf':
                for name, arr, _ in P.live:
                    if np.shares_memory(item, arr):
                        P.fail('an item yielded by ibsf shares memory with an item yielded earlier ({})'.format(name), {})
                        return
                got.append(py_of_bsf(item) if len(item) == 2 * n and set(item.tolist()) <= {0, 1} else '?')
                P.hold(item, 'g{}[{}]'.format(i, len(got) - 1))
                if rng.random() < 0.3:      # the caller updates what it was given; later items must not depend on it
                    j = rng.randrange(len(item)); item[j] ^= 1
                    P.live[-1][2] = item.copy()
                    P.log.append('{}[{}] ^= 1'.format(P.live[-1][0], j))
            else:
                got.append(item)
        for i, (kind, n, lo, hi, g, got) in enumerate(specs):
            if i not in open_:
                ctx.case('c09 ipauli {} {} {}'.format(n, lo, hi), 'ok ' + ' '.join(p if p else '_' for p in got),
                         nontrivial=(n > 0), meta={'via': kind + '-interleaved'})
                ws = [sum(c != 'I' for c in p) for p in got]
                if set(got) != py_enum(n, lo, hi) or len(got) != len(set(got)) or ws != sorted(ws):
                    P.fail('{}({}, {}, {}) advanced in an interleaving with other iterators does not yield every Pauli '
                           'of the weight range exactly once in non-decreasing weight'.format(kind, n, lo, hi),
                           {'yielded': got[:20]}); return


def part_histories(ctx, pt):
    """call histories interleaving all public functions on a pool of arrays the caller keeps: every result is kept and
    re-used as an argument (the very object, not a copy), updated in place by the caller, and must keep its value
    otherwise; every value is compared with the model and with the property's ground truth"""
    rng = ctx.rng
    for _ in range(ctx.scale(150, 1500)):
        P = Pure(ctx, 'history')
        n = rng.choice([1, 2, 3, 4, 5, 8])
        vecs, mats, other = [], [], []      # indices into P.live
        gens = []

        def keep(arr, desc, where):
            P.hold(arr, desc)
            where.append(len(P.live) - 1)

        def pick(where, rows=None):
            """an operand: mostly an array the caller already holds, else a new one in a random presentation"""
            if where and rng.random() < 0.8:
                e = P.live[rng.choice(where)]
                return e[1], e[2].copy(), e[0]
            val = rand_bsf(rng, n, rows)
            form = rng.choice(FORMS[:1] + FORMS[2:3] + FORMS[4:])     # writeable presentations: the caller updates them
            v, base = present(val, form)
            P.hold(base, 'new <{}> {}'.format(form, show(val)[:80]))
            if base is v:
                where.append(len(P.live) - 1)
                return v, val, P.live[-1][0]
            return v, val, 'view of ' + P.live[-1][0]
        for step in range(rng.randint(10, 40)):
            if P.failed:
                return
            op = rng.choice(['tobsf', 'tobsfl', 'ofbsf', 'ofbsfm', 'wt', 'wtm', 'pwt', 'bsp', 'bsp', 'bspmv', 'bspvm',
                             'bspmm', 'pack', 'unpack', 'mutate', 'mutate', 'ibsf', 'adv', 'adv'])
            ctx.count('history.op', op)
            if op == 'tobsf':
                s = rand_pauli(rng, n)
                r = P.call('pauli_to_bsf({!r})'.format(s), pt.pauli_to_bsf, [s])
                truth_and_case(ctx, P, 'pauli_to_bsf', [s], r)
                if r is not None:
                    keep(r, 'result of pauli_to_bsf({!r})'.format(s), vecs)
            elif op == 'tobsfl':
                lst = [rand_pauli(rng, n) for _ in range(rng.randint(1, 3))]
                r = P.call('pauli_to_bsf({!r})'.format(lst), pt.pauli_to_bsf, [lst])
                truth_and_case(ctx, P, 'pauli_to_bsf', [list(lst)], r)
                if r is not None:
                    keep(r, 'result of pauli_to_bsf({!r})'.format(lst), mats)
            elif op in ('ofbsf', 'wt', 'pack'):
                v, val, nm = pick(vecs)
                fname = {'ofbsf': 'bsf_to_pauli', 'wt': 'bsf_wt', 'pack': 'pack'}[op]
                truth_and_case(ctx, P, fname, [val], P.call('{}({})'.format(fname, nm), getattr(pt, fname), [v]))
            elif op in ('ofbsfm', 'wtm'):
                v, val, nm = pick(mats, rng.randint(1, 3))
                fname = {'ofbsfm': 'bsf_to_pauli', 'wtm': 'bsf_wt'}[op]
                truth_and_case(ctx, P, fname, [val], P.call('{}({})'.format(fname, nm), getattr(pt, fname), [v]))
            elif op == 'pwt':
                s = rng.choice([rand_pauli(rng, n), [rand_pauli(rng, n) for _ in range(2)]])
                truth_and_case(ctx, P, 'pauli_wt', [s], P.call('pauli_wt({!r})'.format(s), pt.pauli_wt, [s]))
            elif op in ('bsp', 'bspmv', 'bspvm', 'bspmm'):
                a, aval, an = pick(mats if op in ('bspmv', 'bspmm') else vecs, rng.randint(1, 3) if op in (
                    'bspmv', 'bspmm') else None)
                b, bval, bn = pick(mats if op in ('bspvm', 'bspmm') else vecs, rng.randint(1, 3) if op in (
                    'bspvm', 'bspmm') else None)
                bt = b.T if b.ndim == 2 else b
                r = P.call('bsp({}, {}{})'.format(an, bn, '.T' if b.ndim == 2 else ''), pt.bsp, [a, bt])
                truth_and_case(ctx, P, 'bsp', [aval, bval], r)
                if isinstance(r, np.ndarray) and r.ndim >= 1:
                    keep(r, 'result of bsp({}, {})'.format(an, bn), other)
            elif op == 'unpack':
                b = np.array([rng.randint(0, 1) for _ in range(rng.choice([2 * n, 2 * n, 7, 8, 9]))], dtype=int)
                hx = ''.join('{:02x}'.format(int(''.join(str(x) for x in list(b[i:i + 8]) + [0] * (8 - len(b[i:i + 8]))),
                                                 2)) for i in range(0, len(b), 8))
                r = P.call('unpack({!r})'.format((hx, len(b))), pt.unpack, [(hx, len(b))])
                truth_and_case(ctx, P, 'unpack', [(hx, len(b))], r)
                if r is not None:
                    keep(r, 'result of unpack', vecs if len(b) == 2 * n else other)
            elif op == 'mutate':
                cand = [i for i in vecs + mats + other if P.live[i][1].flags.writeable]
                if cand:
                    e = P.live[rng.choice(cand)]
                    idx = tuple(rng.randrange(d) for d in e[1].shape)
                    if e[1].size:
                        e[1][idx] ^= 1
                        e[2] = e[1].copy()
                        P.log.append('{}[{}] ^= 1   (caller updates its own array in place)'.format(e[0], idx))
            elif op == 'ibsf' and n <= 3:
                lo = rng.randint(0, n); hi = rng.randint(lo, n)
                gens.append([pt.ibsf(n, lo, hi), list(pt.ipauli(n, lo, hi)), 0, (n, lo, hi)])
                P.log.append('g{} = ibsf({}, {}, {})'.format(len(gens) - 1, n, lo, hi))
            elif op == 'adv' and gens:
                gi = rng.randrange(len(gens))
                g, want, pos, spec = gens[gi]
                if pos < len(want):
                    item = P.call('next(g{})'.format(gi), lambda: next(g), [])
                    gens[gi][2] += 1
                    if item is None:
                        return
                    ctx.case('c09 tobsf ' + want[pos], bits(item), nontrivial=False)
                    if len(item) != 2 * n or py_of_bsf(item) != want[pos]:
                        P.fail('in this call history item {} of ibsf{} is not the bsf of item {} of ipauli{}'.format(
                            pos, spec, pos, spec), {'got': bits(item), 'expected': want[pos]}); return
                    keep(item, 'item {} of g{}'.format(pos, gi), vecs)
        if P.failed:
            return
        # at the end of the history every retained generator prefix is still the model's prefix (checked by verify at
        # every step through the snapshots); one final sweep
        P.verify('end of history')


# ------------------------------------------------------------------------------------------ stack sizes x forms
# "all stackings into matrices": a stack of m operators against a stack of k operators for EVERY (m, k), including the
# degenerate ones - a stack of one operator (1 x 2n matrix, whose transpose is a one-column right-hand side) and the
# empty stack (0 x 2n).  All four forms of bsp are taken from the SAME stacking and must have the documented shapes
# ((m, k), (k,), (m,), scalar) and agree entry by entry with the commutation of the operators; the conversions and
# weights of the same stacks must have the documented types (list of m strings / (m, 2n) matrix, also for m = 1).

def rhs_presentations(rng, Bi):
    """the right-hand side `rows.T` of a stack Bi (k x 2n) as the caller may hold it: (description, array, base)"""
    k, w = Bi.shape
    out = [('rows.T', Bi.T, Bi), ('contiguous copy of rows.T', np.ascontiguousarray(Bi.T), None)]
    wide = np.full((w, k + 3), FILL, dtype=int)
    j = rng.randint(0, 3)
    wide[:, j:j + k] = Bi.T
    out.append(('columns {}..{} of a wider array'.format(j, j + k - 1), wide[:, j:j + k], wide))
    return out


def part_stackings(ctx, pt):
    rng = ctx.rng
    ns = [1, 2, 3, 5, 8, 17] if ctx.quick() else [1, 2, 3, 4, 5, 8, 9, 17, 64, 130]
    top = ctx.scale(4, 6)
    for n in ns:
        for m in list(range(1, top + 1)) + [0]:            # the empty stack last
            for k in list(range(1, top + 1)) + [0]:
                P = Pure(ctx, 'stackings')
                A = [rand_pauli(rng, n) for _ in range(m)]
                B = [rand_pauli(rng, n) for _ in range(k)]
                if m > 1 and rng.random() < 0.3:
                    A[rng.randrange(1, m)] = A[0]          # a stack may contain the same operator more than once
                if k > 1 and rng.random() < 0.3:
                    B[rng.randrange(1, k)] = B[0]
                Ai = np.array([py_to_bsf(p) for p in A], dtype=int).reshape(m, 2 * n)
                Bi = np.array([py_to_bsf(p) for p in B], dtype=int).reshape(k, 2 * n)
                want = np.array([[py_anti(p, q) for q in B] for p in A], dtype=int).reshape(m, k)
                ctx.count('stackings.m_x_k', '{}x{}'.format(m, k)); ctx.count('stackings.n', n)
                pres = rhs_presentations(rng, Bi)
                dsc, bt, base = pres[(m + k + n) % len(pres)]
                held = [x for x in (Ai, base) if x is not None]

                def empty_ok(res, shape, call):
                    """forms involving the empty stack have no model question: shape and type only"""
                    if not (isinstance(res, np.ndarray) and res.shape == shape and res.dtype.kind in 'biu'):
                        P.fail('{} returned {} where the result has shape {} (one entry per pair of operators)'.format(
                            call, describe(res), shape), {'A': A, 'B': B})
                # matrix . matrix
                call = 'bsp(<stack of {}> {}, <stack of {}: {}> {})'.format(m, A, k, dsc, B)[:300]
                r = P.call(call, pt.bsp, [Ai, bt], held)
                if r is None:
                    return
                if m and k:
                    truth_and_case(ctx, P, 'bsp', [Ai, Bi], r)
                else:
                    empty_ok(r, (m, k), call)
                # vector . matrix: row i of the matrix form
                for i in range(m):
                    call = 'bsp({}, <stack of {}: {}> {})'.format(A[i], k, dsc, B)[:300]
                    r = P.call(call, pt.bsp, [Ai[i], bt], held)
                    if r is None:
                        return
                    if k:
                        truth_and_case(ctx, P, 'bsp', [Ai[i], Bi], r)
                    else:
                        empty_ok(r, (0,), call)
                # matrix . vector: column j of the matrix form
                for j in range(k):
                    call = 'bsp(<stack of {}> {}, {})'.format(m, A, B[j])[:300]
                    r = P.call(call, pt.bsp, [Ai, Bi[j]], held)
                    if r is None:
                        return
                    if m:
                        truth_and_case(ctx, P, 'bsp', [Ai, Bi[j]], r)
                    else:
                        empty_ok(r, (0,), call)
                    # vector . vector: entry (i, j)
                    for i in range(m):
                        truth_and_case(ctx, P, 'bsp', [Ai[i], Bi[j]],
                                       P.call('bsp({}, {})'.format(A[i], B[j]), pt.bsp, [Ai[i], Bi[j]], held))
                # conversions and weights of the same stack
                if m:
                    truth_and_case(ctx, P, 'pauli_to_bsf', [list(A)],
                                   P.call('pauli_to_bsf({!r})'.format(A)[:300], pt.pauli_to_bsf, [list(A)]))
                    truth_and_case(ctx, P, 'bsf_to_pauli', [Ai],
                                   P.call('bsf_to_pauli(<stack of {}> {})'.format(m, A)[:300], pt.bsf_to_pauli, [Ai], held))
                    truth_and_case(ctx, P, 'bsf_wt', [Ai], P.call('bsf_wt(<stack of {}> {})'.format(m, A)[:300],
                                                                   pt.bsf_wt, [Ai], held))
                    truth_and_case(ctx, P, 'pauli_wt', [list(A)], P.call('pauli_wt({!r})'.format(A)[:300], pt.pauli_wt,
                                                                          [list(A)]))
                    # a single operator as a string and as a one-element list are different stackings
                    truth_and_case(ctx, P, 'pauli_to_bsf', [A[0]], P.call('pauli_to_bsf({!r})'.format(A[0]),
                                                                          pt.pauli_to_bsf, [A[0]]))
                    truth_and_case(ctx, P, 'pauli_to_bsf', [[A[0]]], P.call('pauli_to_bsf([{!r}])'.format(A[0]),
                                                                            pt.pauli_to_bsf, [[A[0]]]))
                    truth_and_case(ctx, P, 'bsf_to_pauli', [Ai[0]], P.call('bsf_to_pauli({})'.format(A[0]),
                                                                           pt.bsf_to_pauli, [Ai[0]], held))
                    truth_and_case(ctx, P, 'bsf_to_pauli', [Ai[:1]], P.call('bsf_to_pauli(<stack of 1> [{}])'.format(A[0]),
                                                                            pt.bsf_to_pauli, [Ai[:1]], held))
                else:
                    r = P.call('bsf_to_pauli(<empty stack, 0 x {}>)'.format(2 * n), pt.bsf_to_pauli, [Ai], held)
                    if r is not None and r != []:
                        P.fail('bsf_to_pauli of the empty stack is not the empty list', {'got': repr(r)})
                    r = P.call('bsf_wt(<empty stack, 0 x {}>)'.format(2 * n), pt.bsf_wt, [Ai], held)
                    if r is not None and r_int(r) != '0':
                        P.fail('bsf_wt of the empty stack is not 0', {'got': repr(r)})
                if P.failed:
                    return


# ------------------------------------------------------------------------------------------ dtypes x argument shapes
# bsf arrays reach bsp with whatever dtype the caller's arithmetic produced (comparisons / logical_xor give bool,
# packed storage gives uint8, np.mod of int8 data gives int8 ...) and in four argument forms.  Each (form, dtype of a,
# dtype of b) must be the same function of the VALUES.

DTYPES = [('bool', np.bool_), ('int8', np.int8), ('uint8', np.uint8), ('int16', np.int16), ('int32', np.int32),
          ('uint32', np.uint32), ('int64', np.int64)]
SHAPES = ['vector.vector', 'vector.matrix', 'matrix.vector', 'matrix.matrix']
PAIRS_ANTI = [(a, b) for a in 'XYZ' for b in 'XYZ' if a != b]
PAIRS_COMM = [(a, b) for a in 'IXYZ' for b in 'IXYZ' if not ANTI[(a, b)]]


def pauli_pair(rng, n, k):
    """two Pauli strings of length n that anticommute on exactly k qubits (k <= n)"""
    anti = set(rng.sample(range(n), k))
    ab = [rng.choice(PAIRS_ANTI) if q in anti else rng.choice(PAIRS_COMM) for q in range(n)]
    return ''.join(x for x, _ in ab), ''.join(y for _, y in ab)


def part_dtypes(ctx, pt):
    rng = ctx.rng
    sizes = [1, 2, 3, 4, 5, 8, 9, 17, 64, 130, 300]
    for rep in range(ctx.scale(1, 8)):
        for shape in SHAPES:
            for na, da in DTYPES:
                for nb, db in DTYPES:
                    for content in ('0', '1', '2', '3', '4', 'all', 'random'):
                        P = Pure(ctx, 'dtypes')
                        n = rng.choice(sizes)
                        k = n if content == 'all' else (None if content == 'random' else min(int(content), n))
                        ra = 1 if shape.startswith('vector') else rng.randint(1, 4)
                        rb = 1 if shape.endswith('vector') else rng.randint(1, 4)
                        if k is None:
                            A = [rand_pauli(rng, n) for _ in range(ra)]; B = [rand_pauli(rng, n) for _ in range(rb)]
                        else:
                            # every row of A against the first operator of B, remaining rows of B random
                            s0, t0 = pauli_pair(rng, n, k)
                            A = [s0] + [pauli_pair(rng, n, min(n, rng.choice([0, 1, 2, 3, 4])))[0] for _ in range(ra - 1)]
                            B = [t0] + [rand_pauli(rng, n) for _ in range(rb - 1)]
                            if ra > 1:   # all rows of A anticommute with t0 on a controlled number of qubits
                                A = [s0] + [anti_partner(rng, t0, min(n, rng.choice([0, 1, 2, 3, 4]))) for _ in
                                            range(ra - 1)]
                        Ai = np.array([py_to_bsf(p) for p in A]); Bi = np.array([py_to_bsf(p) for p in B])
                        aval = Ai[0] if shape.startswith('vector') else Ai
                        bval = Bi[0] if shape.endswith('vector') else Bi
                        a = aval.astype(da); b = bval.astype(db)
                        bt = b.T if b.ndim == 2 else b
                        ctx.count('dtypes.shape', shape); ctx.count('dtypes.pair', na + '.' + nb)
                        ctx.count('dtypes.anticommuting', content)
                        desc = 'bsp(<{} {}> {}, <{} {}{}> {})'.format(
                            na, 'x'.join(map(str, a.shape)), A if a.ndim == 2 else A[0], nb,
                            'x'.join(map(str, bt.shape)), ' = rows.T' if b.ndim == 2 else '', B if b.ndim == 2 else B[0])
                        r = P.call(desc[:400], pt.bsp, [a, bt], [a, b])
                        truth_and_case(ctx, P, 'bsp', [aval, bval], r)
                        if rep == 0 and shape == 'vector.vector' and content in ('2', 'random') and nb == na:
                            truth_and_case(ctx, P, 'bsf_wt', [aval], P.call('bsf_wt(<{}> {})'.format(na, A[0])[:200],
                                                                           pt.bsf_wt, [a], [a]))
                            truth_and_case(ctx, P, 'bsf_to_pauli', [aval],
                                           P.call('bsf_to_pauli(<{}> {})'.format(na, A[0])[:200], pt.bsf_to_pauli, [a], [a]))
                            truth_and_case(ctx, P, 'pack', [aval], P.call('pack(<{}> {})'.format(na, A[0])[:200], pt.pack,
                                                                         [a], [a]))
                            M = Ai.astype(da) if Ai.shape[0] > 1 else np.array([py_to_bsf(A[0]), py_to_bsf(B[0])]).astype(da)
                            Mv = np.array(M, dtype=int)
                            truth_and_case(ctx, P, 'bsf_wt', [Mv], P.call('bsf_wt(<{}> matrix)'.format(na), pt.bsf_wt, [M], [M]))
                            truth_and_case(ctx, P, 'bsf_to_pauli', [Mv], P.call('bsf_to_pauli(<{}> matrix)'.format(na),
                                                                                pt.bsf_to_pauli, [M], [M]))
                        if P.failed:
                            return


def anti_partner(rng, t, k):
    """a Pauli string anticommuting with t on exactly k qubits where possible (identity factors of t cannot)"""
    idx = [q for q, c in enumerate(t) if c != 'I']
    anti = set(rng.sample(idx, min(k, len(idx))))
    out = []
    for q, c in enumerate(t):
        if q in anti:
            out.append(rng.choice([x for x in 'XYZ' if x != c]))
        else:
            out.append(rng.choice([x for x in 'IXYZ' if not ANTI[(x, c)]]))
    return ''.join(out)


# ------------------------------------------------------------------------------------------ high weights, n = 9..12
# Full-sequence comparison through `c09 ipauli` needs 4^n strings on the wire; here the sequence is judged as a
# stream.  count == sum_w C(n,w) 3^w (Props/C09.lean ipauli_length) + duplicate-free + every item in range => complete.

def seq_count(n, lo, hi):
    return sum(math.comb(n, w) * 3 ** w for w in range(lo, hi + 1))


def unrank(n, lo, hi, k):
    """item k of the documented order, computed directly (no enumeration): weights ascending; within a weight the
    qubit selections in lexicographic order (itertools.combinations); within a selection the letters in the order of
    itertools.product('XZY', repeat=w), last factor fastest"""
    for w in range(lo, hi + 1):
        block = math.comb(n, w) * 3 ** w
        if k < block:
            break
        k -= block
    else:
        return None
    ci, pi = divmod(k, 3 ** w)
    qs, q = [], 0
    for left in range(w, 0, -1):     # lexicographic unranking of a w-combination of range(n)
        while True:
            c = math.comb(n - q - 1, left - 1)
            if ci < c:
                break
            ci -= c; q += 1
        qs.append(q); q += 1
    out = ['I'] * n
    for j, q in enumerate(qs):
        out[q] = 'XZY'[(pi // 3 ** (w - 1 - j)) % 3]
    return ''.join(out)


def sample_positions(rng, n, lo, hi, extra=40):
    total = seq_count(n, lo, hi)
    ks = {0, total - 1, total // 2}
    off = 0
    for w in range(lo, hi + 1):
        block = math.comb(n, w) * 3 ** w
        # first / last of the weight block, the last letters of the first qubit selection and the first of the second
        ks |= {off, off + block - 1, off + 3 ** w - 1, off + 3 ** w, off + 2 * 3 ** w - 1, off + 2 * 3 ** w,
               off + block - 3 ** w, off + block - 3 ** w - 1}
        off += block
    ks |= {rng.randrange(total) for _ in range(extra)}
    return sorted(k for k in ks if 0 <= k < total)


def judge_stream(n, lo, hi, it, ks=()):
    """consume an iterator of Pauli strings: (failure description or None, number of items, items at positions ks)"""
    want = seq_count(n, lo, hi)
    seen = set()
    at = {}
    ks = set(ks)
    prev = -1
    count = 0
    bad = None
    letters = set('IXYZ')
    for p in it:
        if count in ks:
            at[count] = p
        if bad is None:
            w = n - p.count('I') if isinstance(p, str) else -1
            if not isinstance(p, str) or len(p) != n or not set(p) <= letters:
                bad = ('item {} is not a Pauli string on {} qubits'.format(count, n), repr(p)[:60])
            elif not lo <= w <= hi:
                bad = ('item {} has weight {} outside the requested range'.format(count, w), p)
            elif w < prev:
                bad = ('item {} has weight {} after an item of weight {} (not ascending)'.format(count, w, prev), p)
            elif count >= want:
                bad = ('more items than Paulis in the weight range', p)
            prev = max(prev, w)
            seen.add(p)
        count += 1
        if count > want + 10:
            break
    if bad is None and len(seen) != count:
        bad = ('{} of the {} items are repeats'.format(count - len(seen), count), None)
    if bad is None and count != want:
        bad = ('yields {} items; there are {} Paulis of weight {}..{} on {} qubits (sum C(n,w) 3^w): {} are never '
               'yielded'.format(count, want, lo, hi, n, want - count), None)
    return bad, count, at


def highweight_ranges(quick):
    if quick:
        return [(9, 9, 9), (9, 8, 9), (9, 0, 9), (10, 9, 9), (10, 10, 10), (10, 9, 10), (11, 11, 11), (12, 12, 12),
                (12, 0, 3), (11, 1, 2)]
    out = []
    for n in (9, 10, 11, 12):
        for hi in range(9, n + 1):
            for lo in range(0, hi + 1):
                if seq_count(n, lo, hi) <= (1200000 if lo < hi - 1 else 2700000):
                    out.append((n, lo, hi))
        out += [(n, 0, 3), (n, 2, 4), (n, 8, 8)]
    return out


def part_highweight(ctx, pt):
    rng = ctx.rng
    for n, lo, hi in highweight_ranges(ctx.quick()):
        total = seq_count(n, lo, hi)
        ks = sample_positions(rng, n, lo, hi)
        ctx.count('highweight_n', n); ctx.count('highweight_max_weight', hi)
        inp = {'n_qubits': n, 'min_weight': lo, 'max_weight': hi}
        try:
            bad, count, at = judge_stream(n, lo, hi, pt.ipauli(n, lo, hi), ks)
        except Exception as ex:
            ctx.monitor_fail('ipauli({}, {}, {}) raised {!r}'.format(n, lo, hi, ex), inp); return
        ctx.evaluations += count
        if bad:
            ctx.monitor_fail('ipauli({}, {}, {}) does not yield every Pauli of the weight range exactly once in ascending '
                             'weight: {}'.format(n, lo, hi, bad[0]), dict(inp, item=bad[1], n_yielded=count,
                                                                           n_expected=total))
            return
        got = [at.get(k, '-') for k in ks]
        wantp = [unrank(n, lo, hi, k) for k in ks]
        if got != wantp:
            i = next(i for i in range(len(ks)) if got[i] != wantp[i])
            ctx.monitor_fail('ipauli({}, {}, {}) is not in the documented order (weight, then qubit selection, then XZY '
                             'letters): position {}'.format(n, lo, hi, ks[i]),
                             dict(inp, position=ks[i], got=got[i], expected=wantp[i]))
            return
        ctx.case('c09 ipauliat {} {} {} {}'.format(n, lo, hi, ','.join(map(str, ks))),
                 'ok {} {}'.format(count, ' '.join(got)), meta={'via': 'stream'})
        if total <= 200000:
            ctx.case('c09 ipauli {} {} {}'.format(n, lo, hi), 'ok ' + ' '.join(pt.ipauli(n, lo, hi)),
                     meta={'via': 'highweight-full'})
        # default max_weight on a large n: the top weights are part of the range
        if lo == hi == n and n <= 10:
            bad, count, _ = judge_stream(n, n - 1, n, pt.ipauli(n, n - 1))
            if bad:
                ctx.monitor_fail('ipauli({}, {}) (default max_weight): {}'.format(n, n - 1, bad[0]),
                                 {'n_qubits': n, 'min_weight': n - 1, 'max_weight': None, 'n_yielded': count}); return
        # ibsf: the bsf of the same sequence, item by item (retained, then judged)
        if total <= ctx.scale(200000, 300000) and hi >= 9 and (not ctx.quick() or (n, lo, hi) != (11, 11, 11)):
            kept = list(pt.ibsf(n, lo, hi))
            ctx.evaluations += len(kept)
            ps = list(pt.ipauli(n, lo, hi))
            why = None
            if len(kept) != len(ps):
                why = 'list(ibsf) has {} items, list(ipauli) {} (there are {} Paulis in the range)'.format(
                    len(kept), len(ps), total)
            elif any(getattr(b, 'shape', None) != (2 * n,) for b in kept):
                why = 'an item of ibsf is not a vector of length 2n'
            else:
                M = np.array(kept)
                codes = np.array(list('IXZY'))[(M[:, :n] != 0) + 2 * (M[:, n:] != 0)]
                strs = [''.join(r) for r in codes.tolist()]
                if not np.isin(M, (0, 1)).all() or strs != ps:
                    i = next((i for i in range(len(ps)) if strs[i] != ps[i]), None)
                    why = 'item {} of ibsf is {} but item {} of ipauli is {}'.format(i, strs[i] if i is not None else '?',
                                                                                   i, ps[i] if i is not None else '?')
            if why:
                ctx.monitor_fail('ibsf({}, {}, {}) is not pauli_to_bsf of ipauli item by item / does not cover the weight '
                                 'range: {}'.format(n, lo, hi, why), inp)
                return
            del kept, ps


def search(m):
    """failing-input search: evaluate the property itself on the real code for the disagreeing op"""
    from qecsim import paulitools as pt
    toks = m['op'].split()
    op = toks[1]
    if op in ('tobsf', 'ofbsf'):
        s = toks[2] if op == 'tobsf' else pt.bsf_to_pauli(np.array([int(c) for c in toks[2]]))
        b = pt.pauli_to_bsf(s)
        n = len(s)
        exp = [int(c in 'XY') for c in s] + [int(c in 'ZY') for c in s]
        if r_bits(b, 2 * n) != bits(exp) or pt.bsf_to_pauli(np.array(exp)) != s:
            return {'what': 'string<->bsf is not the documented bijection', 'pauli': s,
                    'pauli_to_bsf': r_bits(b, 2 * n), 'expected': bits(exp),
                    'bsf_to_pauli(expected)': repr(pt.bsf_to_pauli(np.array(exp)))}
        # the same operator as a one-element list: a 1 x 2n matrix / a list of one string
        b1 = pt.pauli_to_bsf([s]); s1 = pt.bsf_to_pauli(np.array([exp]))
        if r_mat(b1, (1, 2 * n)) != bits(exp) or s1 != [s]:
            return {'what': 'list<->matrix conversion of a single-operator stack is not the documented bijection',
                    'paulis': [s], 'pauli_to_bsf': r_mat(b1, (1, 2 * n)), 'expected': bits(exp),
                    'bsf_to_pauli([expected])': repr(s1)}
    if op in ('bsp', 'anti'):
        if op == 'bsp':
            a = np.array([int(c) for c in toks[2]]); b = np.array([int(c) for c in toks[3]])
            n = len(a) // 2
            s = ''.join('IXZY'[a[i] + 2 * a[n + i]] for i in range(n))
            t = ''.join('IXZY'[b[i] + 2 * b[n + i]] for i in range(n))
        else:
            s, t = toks[2], toks[3]
            a = np.array([int(c in 'XY') for c in s] + [int(c in 'ZY') for c in s])
            b = np.array([int(c in 'XY') for c in t] + [int(c in 'ZY') for c in t])
        truth = sum(ANTI[(x, y)] for x, y in zip(s, t)) % 2
        got = int(pt.bsp(a, b))
        if got != truth:
            return {'what': 'bsp disagrees with Pauli-group commutation', 'a': s, 'b': t, 'bsp': got,
                    'anticommute': truth}
    if op in ('bspmat', 'synd'):
        A = np.array([[int(c) for c in r] for r in toks[2].split('/')])
        B = np.array([[int(c) for c in r] for r in toks[3].split('/')]) if op == 'bspmat' else None
        if op == 'synd':
            B = A; A = np.array([[int(c) for c in toks[3]]])
        m, k = len(A), len(B)
        sa, sb = [py_of_bsf(r) for r in A], [py_of_bsf(r) for r in B]
        truth = np.array([[py_anti(p, q) for q in sb] for p in sa])
        # all four forms on this stacking: documented shape, then entry-wise agreement with the commutation
        forms = [('matrix.matrix bsp(A, B.T)', lambda: pt.bsp(A, B.T), (m, k), truth)]
        forms += [('vector.matrix bsp(A[{}], B.T)'.format(i), (lambda i=i: pt.bsp(A[i], B.T)), (k,), truth[i])
                  for i in range(m)]
        forms += [('matrix.vector bsp(A, B[{}])'.format(j), (lambda j=j: pt.bsp(A, B[j])), (m,), truth[:, j])
                  for j in range(k)]
        forms += [('vector.vector bsp(A[{}], B[{}])'.format(i, j), (lambda i=i, j=j: pt.bsp(A[i], B[j])), (),
                   truth[i, j]) for i in range(m) for j in range(k)]
        for name, f, shape, want in forms:
            try:
                r = f()
            except Exception as ex:
                return {'what': name + ' raises on a valid stacking', 'A': sa, 'B': sb, 'exception': repr(ex)}
            if np.shape(r) != shape:
                return {'what': 'the forms of bsp do not agree element-wise: {} has shape {} for a stack of {} and a stack '
                                'of {} operator(s), the documented shape is {}'.format(name, np.shape(r), m, k, shape),
                        'A': sa, 'B': sb, 'result': repr(r)[:200]}
            if not np.array_equal(np.asarray(r), want):
                return {'what': 'bsp disagrees with Pauli-group commutation in the form ' + name, 'A': sa, 'B': sb,
                        'bsp': np.asarray(r).tolist(), 'anticommute': np.asarray(want).tolist()}
    if op in ('bsfwt', 'bsfwtmat', 'pauliwt'):
        if op == 'pauliwt':
            s = toks[2]
            if pt.pauli_wt(s) != sum(c != 'I' for c in s):
                return {'what': 'pauli_wt does not count non-identity factors', 'pauli': s, 'got': pt.pauli_wt(s)}
            b = pt.pauli_to_bsf(s)
        else:
            b = np.array([[int(c) for c in r] for r in toks[2].split('/')])
        rows = np.atleast_2d(b)
        n = rows.shape[1] // 2
        truth = int(sum(((r[:n] + r[n:]) > 0).sum() for r in rows))
        if int(pt.bsf_wt(b if op != 'bsfwt' else rows[0])) != truth:
            return {'what': 'bsf_wt does not count non-identity factors', 'bsf': mat(rows), 'got': int(pt.bsf_wt(b)),
                    'expected': truth}
    if op in ('ipauli', 'ipauliat') and int(toks[2]) > 8 and int(toks[3]) <= int(toks[4]) <= int(toks[2]):
        n, lo, hi = int(toks[2]), int(toks[3]), int(toks[4])
        ks = [int(x) for x in toks[5].split(',')] if op == 'ipauliat' else sample_positions(__import__('random').Random(0),
                                                                                           n, lo, hi)
        bad, count, at = judge_stream(n, lo, hi, pt.ipauli(n, lo, hi), ks)
        if bad:
            return {'what': 'ipauli({}, {}, {}) is not complete / duplicate-free / weight-ordered: {}'.format(
                n, lo, hi, bad[0]), 'n': n, 'lo': lo, 'hi': hi, 'n_yielded': count, 'n_expected': seq_count(n, lo, hi)}
        for k in ks:
            if at.get(k) != unrank(n, lo, hi, k):
                return {'what': 'ipauli is not in the documented order', 'n': n, 'lo': lo, 'hi': hi, 'position': k,
                        'got': at.get(k), 'expected': unrank(n, lo, hi, k)}
        return None
    if op == 'ipauli':
        n, lo, hi = int(toks[2]), int(toks[3]), int(toks[4])
        if lo <= hi <= n:
            got = list(pt.ipauli(n, lo, hi))
            want = {''.join(t) for t in itertools.product('IXYZ', repeat=n) if lo <= sum(c != 'I' for c in t) <= hi}
            ws = [sum(c != 'I' for c in p) for p in got]
            if set(got) != want or len(got) != len(set(got)) or ws != sorted(ws):
                return {'what': 'ipauli is not complete / duplicate-free / weight-ordered', 'n': n, 'lo': lo,
                        'hi': hi, 'n_yielded': len(got), 'n_expected': len(want)}
            # the bsf iterator, as a retained sequence judged after full consumption
            kept = list(pt.ibsf(n, lo, hi))
            gotb = [py_of_bsf(b) if len(b) == 2 * n else '?' for b in kept]
            ws = [sum(c != 'I' for c in p) for p in gotb]
            if set(gotb) != want or len(gotb) != len(want) or ws != sorted(ws):
                return {'what': 'list(ibsf(n, lo, hi)) does not contain every Pauli of the weight range exactly once in '
                                'non-decreasing weight', 'n': n, 'lo': lo, 'hi': hi, 'n_items': len(gotb),
                        'n_distinct': len(set(gotb)), 'n_expected': len(want), 'first_items': gotb[:8]}
    if op in ('pack', 'unpack'):
        # the mismatching array itself: round trip and documented packing, on the real code only
        try:
            if op == 'pack':
                b = np.array([int(c) for c in toks[2]] if toks[2] != '_' else [], dtype=int)
            else:
                hx0 = '' if toks[2] == '_' else toks[2]
                b = np.array([int(c) for c in unhex_oracle(hx0, int(toks[3]))], dtype=int)
        except Exception:
            b = None
        if b is not None and (op == 'pack' or len(b) == int(toks[3])):
            desc = {'length': len(b), 'ones_at_first_10': np.flatnonzero(b)[:10].tolist(), 'n_ones': int(b.sum())}
            if len(b) <= 400:
                desc['bits'] = bits(b)
            try:
                pk = pt.pack(b); r = pt.unpack(pk); r2 = pt.unpack((hex_oracle(b), len(b)))
            except Exception as ex:
                return dict(desc, what='pack/unpack raises on a binary array of length {}'.format(len(b)),
                            exception=repr(ex)[:200])
            if not (np.array_equal(r, b) and np.array_equal(r2, b)):
                return dict(desc, what='unpack(pack(b)) != b for a binary array of length {}'.format(len(b)),
                            pack=summarise(pk[0]))
            if tuple(pk) != (hex_oracle(b), len(b)):
                return dict(desc, what='pack(b) is not the big-endian bit packing of b (length {})'.format(len(b)),
                            got=summarise(pk[0]), documented=summarise(hex_oracle(b)))
        # a ladder of lengths across orders of magnitude
        for length in longpack_lengths(True):
            for kind in ('random', 'ones', 'one-in-the-middle'):
                fail, _, _ = longpack_failure(pt, length, kind, 0)
                if fail:
                    return fail
        for length in range(0, 70):
            for b in (np.ones(length, dtype=int), np.arange(length) % 2, (np.arange(length) % 3 == 0).astype(int)):
                try:
                    r = pt.unpack(pt.pack(b))
                except Exception as ex:
                    return {'what': 'pack/unpack raises', 'bits': bits(b), 'exception': repr(ex)}
                if list(r) != list(b):
                    return {'what': 'unpack(pack(b)) != b', 'bits': bits(b), 'roundtrip': bits(r)}
    return None


def replay(ctx, path):
    body = json.load(open(path))
    bad = 0
    for v in body.get('violations', []):
        m = v.get('first_mismatch')
        if m:
            r = search(m)
            print('replay search on', m['op'][:100], '->', r)
            bad += bool(r)
        inp = (v.get('counterexample') or {}).get('input')
        if isinstance(inp, dict) and inp.get('part') == 'longpack':
            from qecsim import paulitools as pt
            r, _, _ = longpack_failure(pt, int(inp['length']), inp['content'], int(inp['numpy_seed']))
            print('replay pack/unpack of length {} ({}, numpy seed {}) ->'.format(
                inp['length'], inp['content'], inp['numpy_seed']), r)
            bad += bool(r)
    return 1 if bad else 0
