"""C02 — every decoder's recovery reproduces the syndrome.

What is a THEOREM (Props/C02.lean, about Model/Decoders.lean, all lattice sizes / syndromes / matchings):
  pairing_theorem / pairing_parity (XOR of paths over a list of pairs has syndrome = parity of endpoint
  occurrences, generic over a lattice interface), planar_mwpm_syndrome + planar_graph_has_pm + planar_mwpm_total,
  planar_cmwpm_syndrome (max_iterations >= 1), toric_mwpm_syndrome + toric_graph_has_pm (even defect count as
  hypothesis), planar / rotated-planar / colour sample_recovery, times_logical_keeps_syndrome, naive_syndrome /
  naive_complete / naive_full, recoveryOk_sound / recoveryOkN_iff — with the C15 path/endpoint facts, the
  run-to-boundary lemmas and C07 commutation facts as named hypotheses (PlanarL.Spec, ToricL.Spec,
  RotatedPlanarL.Spec, Color666L.Spec).
What TIES the model to /repo/src (part a, exact comparison on every run):
  `sample_recovery(code, syndrome)` of the six tensor-network decoder classes; the final recovery of PlanarMWPM,
  PlanarCMWPM, ToricMWPM given the RECORDED return value of `gt.mwpm` (monkeypatched from outside), the recorded
  graphs (nodes, edges, weights) against the modelled graphs, the recorded matching against
  `isPerfectMatchingOfGraph`; CMWPM's `StepGrid.mwpm` post-processing; the tensor-network decoders' answer is
  literally sample x one of the four logical cosets; NaiveDecoder against `naiveDecode`.
What is EXPLORED (part b, ctx.explored): the real `decode` of EVERY registered decoder on real syndromes with
  context kwargs as `app.run_once` passes them, through the verified monitor `recoveryOk` evaluated both in Python
  (independent arithmetic) and by the Lean driver on the real output; never-raises / never-None observed directly;
  every decode under a time limit (a timeout is counted, not a violation).
  Input classes of part (b) beyond `all syndromes of small lattices + random errors`:
  * SHAPE grid (size_grid): tall / wide x same / opposite parity of (rows, cols) up to 8 for every matching decoder
    (PlanarMWPM, PlanarCMWPM, ToricMWPM — with their ties — RotatedPlanarSMWPM, RotatedToricSMWPM), with errors
    LOCALISED on the rim (localised_errors: a single X / Y / Z on every boundary and corner qubit, all Pauli pairs
    around each corner, runs along and the whole of each boundary; on a torus: next to the periodic seam), in
    finite-bias contexts and in the infinite-bias context (Y-only errors, pure-Y model); the tensor-network decoders
    get a seed-rotated sample of the same errors on their existing non-square sizes (sizes not enlarged);
  * PlanarY (a look-up whose branch depends on gcd(R, C)): all 2 <= R, C <= 12 (thorough) / every pair with
    gcd not in {1, R, C} + small + seed-rotated coprime and dividing pairs (quick); Y-only errors of every weight 1..6,
    all weight-<=2 errors within one boundary (quick: on the small sizes and a seed-rotated half of the gcd-table sizes, 40 sampled elsewhere), `several defects on one boundary` (boundary_subset_errors: subsets of
    sizes 3..6 and stride patterns), the rim / corner errors, random spread weights.
  * NaiveDecoder (run_naive_all): ALL 2^(n-k) syndromes of EVERY code of every family inside its default 10-qubit limit
    (basic, Planar 2x2 / 2x3 / 3x2, Toric 2x2, Rotated planar 3x3, Rotated toric 2x2 / 2x4 / 4x2, Colour 3), stratified by
    covering depth (covering_depths: least weight reaching the syndrome, own breadth-first arithmetic) — a few syndromes
    of the lattice codes are only reached ABOVE the distance; judged by the monitor and tied to `naiveDecodeFullAll` in one
    driver call per (code, max_qubits). quick: n <= 8 in full + the 9-qubit code on all depth-<=2 syndromes and a
    seed-rotated part of the deeper strata; thorough: all in full x max_qubits {10, None, n, 0} and the 11..13-qubit
    codes (max_qubits None / n) on a sample of every depth stratum (monitor only).
  Lattices with more than 100 qubits: the Lean evaluation of the monitor is made on every 4th (quick) / 2nd (thorough)
  accepted output and every rejected one (the Python evaluation on all).
  Failing-input search: a correspondence break of c02_smwpm (graph / corners / path / recovery of an SMWPM decoder) is
  followed by a sweep of the real decoder over the recorded size, its transpose and the shape grid (search_smwpm).
Known finding D2: PlanarCMWPMDecoder(max_iterations=0) — reported with key 'PlanarCMWPMDecoder.max_iterations=0'.
"""
import itertools
import json
import os
import random as pyrandom

import numpy as np

from qv import core
from qv.core import bits, mat

_core_bits = bits


def bits(v):  # noqa: F811 - same wire format as core.bits, vectorised (sizes up to 12x12: 530-bit operators)
    a = np.asarray(v)
    if a.ndim != 1 or a.size == 0 or a.dtype.kind not in 'iub':
        return _core_bits(v)
    return ((a != 0).astype(np.uint8) + 48).tobytes().decode('ascii')


LEVEL = 'proof'
KEY_D2 = 'PlanarCMWPMDecoder.max_iterations=0'
TL = 20.0  # seconds per real decode
LEAN_ALL_N, LEAN_EVERY = 100, 4

RULE = ('(a) modelled constructions: for every lattice size up to the tier bound x (all syndromes when the syndrome '
        'space is small, else all single / sampled double defects + random errors of spread weights): sample_recovery '
        'of planar MPS/RMPS, rotated planar MPS/RMPS, colour MPS; PlanarMWPM / PlanarCMWPM (parameter grid) / ToricMWPM '
        'final recovery from the recorded gt.mwpm result, recorded graph vs modelled graph, recorded matching vs '
        'isPerfectMatchingOfGraph; TN answer = sample x logical coset; NaiveDecoder — all compared exactly with the '
        'Lean model. (b) every registered decoder x parameterisations x context (error model, probability in (0,1)): '
        'real decode, monitor synd(S, recovery) == syndrome in Python and in Lean (one protocol line per batch); incl. the '
        'shape grid (tall / wide x parity, up to 8) with rim- and corner-localised errors in finite- and infinite-bias '
        'contexts for the matching decoders and PlanarY on sizes up to 12x12 (all gcd classes) with Y-only errors of '
        'weights 1..6 and several defects on one boundary; NaiveDecoder on all syndromes of every code of every family '
        'with n <= 10 (quick: n <= 8 in full, n = 9 by covering-depth strata), batched tie to naiveDecodeFullAll. '
        'non-trivial = syndrome not all-zero; distinct = distinct protocol lines')


# ------------------------------------------------------------------------------------------ specs -> objects

def mk_code(spec):
    k = spec[0]
    if k == 'planar':
        from qecsim.models.planar import PlanarCode
        return PlanarCode(spec[1], spec[2])
    if k == 'toric':
        from qecsim.models.toric import ToricCode
        return ToricCode(spec[1], spec[2])
    if k == 'rplanar':
        from qecsim.models.rotatedplanar import RotatedPlanarCode
        return RotatedPlanarCode(spec[1], spec[2])
    if k == 'rtoric':
        from qecsim.models.rotatedtoric import RotatedToricCode
        return RotatedToricCode(spec[1], spec[2])
    if k == 'color':
        from qecsim.models.color import Color666Code
        return Color666Code(spec[1])
    if k == 'five':
        from qecsim.models.basic import FiveQubitCode
        return FiveQubitCode()
    if k == 'steane':
        from qecsim.models.basic import SteaneCode
        return SteaneCode()
    raise ValueError(spec)


_CODES = {}


def code_of(spec):
    t = tuple(spec)
    if t not in _CODES:
        c = mk_code(t)
        S = np.array(c.stabilizers, dtype=int)
        _CODES[t] = (c, S, mat(S))
    return _CODES[t]


def mk_decoder(spec):
    name, kw = spec[0], dict(spec[1])
    import qecsim.models.planar as P
    import qecsim.models.toric as T
    import qecsim.models.rotatedplanar as RP
    import qecsim.models.rotatedtoric as RT
    import qecsim.models.color as CO
    import qecsim.models.generic as G
    cls = {'PlanarMWPM': P.PlanarMWPMDecoder, 'PlanarCMWPM': P.PlanarCMWPMDecoder, 'PlanarMPS': P.PlanarMPSDecoder,
           'PlanarRMPS': P.PlanarRMPSDecoder, 'PlanarY': P.PlanarYDecoder, 'ToricMWPM': T.ToricMWPMDecoder,
           'RotatedPlanarMPS': RP.RotatedPlanarMPSDecoder, 'RotatedPlanarRMPS': RP.RotatedPlanarRMPSDecoder,
           'RotatedPlanarSMWPM': RP.RotatedPlanarSMWPMDecoder, 'RotatedToricSMWPM': RT.RotatedToricSMWPMDecoder,
           'Color666MPS': CO.Color666MPSDecoder, 'Naive': G.NaiveDecoder}[name]
    return cls(**kw)


def mk_em(spec):
    import qecsim.models.generic as G
    k = spec[0]
    if k == 'dep':
        return G.DepolarizingErrorModel()
    if k == 'bf':
        return G.BitFlipErrorModel()
    if k == 'pf':
        return G.PhaseFlipErrorModel()
    if k == 'bpf':
        return G.BitPhaseFlipErrorModel()
    if k == 'bdep':
        return G.BiasedDepolarizingErrorModel(spec[1], spec[2])
    if k == 'byx':
        return G.BiasedYXErrorModel(spec[1])
    if k == 'cs':
        return G.CenterSliceErrorModel(tuple(spec[1]), spec[2])
    raise ValueError(spec)


EMS_ANY = [('dep',), ('bf',), ('pf',), ('bpf',), ('bdep', 10, 'Y'), ('bdep', 0.5, 'Z'), ('bdep', 3, 'X'), ('byx', 5),
           ('cs', (0, 1, 1), 0.5), ('cs', (1, 0, 0), -0.3)]
# contexts with a positive finite bias p_y / (p_x + p_z) (SMWPM domain for arbitrary Pauli errors)
EMS_FINITE_BIAS = [('dep',), ('bdep', 10, 'Y'), ('bdep', 0.5, 'Y'), ('bdep', 300, 'Y'), ('bdep', 3, 'X'),
                   ('bdep', 2, 'Z')]
PS = [0.001, 0.01, 0.1, 0.15, 0.3, 0.5, 0.75, 0.9, 0.999]


# ------------------------------------------------------------------------------------------ independent GF(2)

def py_synd(S, r):
    """syndrome of r against the stabilizer rows S — own arithmetic, not paulitools"""
    n = S.shape[1] // 2
    r = np.asarray(r, dtype=int)
    return (S[:, n:].dot(r[:n]) + S[:, :n].dot(r[n:])) % 2


def unit_errors(n, yonly=False):
    out = []
    for q in range(n):
        if yonly:
            e = np.zeros(2 * n, dtype=int); e[q] = 1; e[n + q] = 1; out.append(e)
        else:
            e = np.zeros(2 * n, dtype=int); e[q] = 1; out.append(e)
            e = np.zeros(2 * n, dtype=int); e[n + q] = 1; out.append(e)
    return out


def syndrome_basis(S, gens):
    """independent (syndrome-mask, error) pairs spanning {synd(e) : e in span gens}"""
    basis = []
    for e in gens:
        s = int(''.join(str(int(x)) for x in py_synd(S, e)), 2) if S.shape[0] else 0
        ee = e.copy()
        for pb, ps, pe in basis:
            if (s >> pb) & 1:
                s ^= ps; ee = ee ^ pe
        if s:
            pb = s.bit_length() - 1
            # keep earlier rows reduced too (not needed for enumeration)
            basis.append((pb, s, ee))
    return basis


def random_error(rng, n, w, yonly=False):
    e = np.zeros(2 * n, dtype=int)
    for q in rng.sample(range(n), w):
        op = 'Y' if yonly else rng.choice('XYZ')
        if op in 'XY':
            e[q] = 1
        if op in 'ZY':
            e[n + q] = 1
    return e


def error_cases(ctx, spec, yonly=False, exhaustive_rank=8, n_random=20, singles=True, doubles=0):
    """yield (error, syndrome, kind); exhaustive over the whole syndrome space when its dimension is small"""
    code, S, _ = code_of(spec)
    n = S.shape[1] // 2
    rng = ctx.rng
    basis = syndrome_basis(S, unit_errors(n, yonly))
    out = []
    if len(basis) <= exhaustive_rank:
        for mask in range(1 << len(basis)):
            e = np.zeros(2 * n, dtype=int)
            for i, (_, _, be) in enumerate(basis):
                if (mask >> i) & 1:
                    e = e ^ be
            out.append((e, py_synd(S, e), 'exhaustive'))
        return out, True
    out.append((np.zeros(2 * n, dtype=int), py_synd(S, np.zeros(2 * n, dtype=int)), 'zero'))
    if singles:
        us = unit_errors(n, yonly) + ([] if yonly else unit_errors(n, True))
        for e in us:
            out.append((e, py_synd(S, e), 'w1'))
    if doubles:
        us = unit_errors(n, yonly)
        for _ in range(doubles):
            a, b = rng.sample(range(len(us)), 2)
            e = us[a] ^ us[b]
            out.append((e, py_synd(S, e), 'w2'))
    # random errors of every weight class (spread over 0..n)
    ws = sorted(set([1, 2, 3, n // 4, n // 2, (3 * n) // 4, n - 1, n] + [rng.randint(0, n) for _ in range(n_random)]))
    ws = [w for w in ws if 0 <= w <= n]
    for i in range(n_random):
        w = ws[i % len(ws)]
        e = random_error(rng, n, w, yonly)
        out.append((e, py_synd(S, e), 'random'))
    return out, False


def defect_syndromes(ctx, m, max_pairs):
    """all single-defect and (sampled) double-defect syndrome VECTORS of length m"""
    out = []
    for i in range(m):
        s = np.zeros(m, dtype=int); s[i] = 1; out.append(s)
    pairs = list(itertools.combinations(range(m), 2))
    if len(pairs) > max_pairs:
        pairs = ctx.rng.sample(pairs, max_pairs)
    for i, j in pairs:
        s = np.zeros(m, dtype=int); s[i] = 1; s[j] = 1; out.append(s)
    return out


# ------------------------------------------------------------------------------------------ lattice geometry classes

def size_grid(ctx, lo, hi, step=1, n_extra=2, squares=1, all_thorough=True):
    """(rows, cols) with lo <= rows, cols <= hi covering the four SHAPE classes tall / wide x same / opposite parity
    of rows and cols (plus squares). thorough (unless all_thorough=False): all of them; otherwise: the smallest of each
    class + `n_extra` seed-rotated further members of each class + `squares` seed-rotated squares"""
    classes = {}
    for r in range(lo, hi + 1, step):
        for c in range(lo, hi + 1, step):
            if r != c:
                classes.setdefault(('tall' if r > c else 'wide', 'same' if (r - c) % 2 == 0 else 'opp'), []).append((r, c))
    sq = [(r, r) for r in range(lo, hi + 1, step)]
    if not ctx.quick() and all_thorough:
        return sorted(set(sum(classes.values(), []) + sq))
    out = []
    for key in sorted(classes):
        members = sorted(classes[key], key=lambda t: (t[0] * t[1], t))
        out.append(members[0])
        out += ctx.rng.sample(members[1:], min(n_extra, len(members) - 1))
    out += ctx.rng.sample(sq, min(squares, len(sq)))
    return sorted(set(out))


_GEOM = {}


def geometry(spec):
    """(lines, corners) of a lattice in the code's own site indices. lines: the four boundaries, each an ordered list
    of the qubits on it; corners: per corner the corner qubit followed by its neighbours along either boundary (and, on
    the planar lattice, the diagonal neighbour). On a torus the `boundaries` are the rows / columns next to the periodic
    seam and the neighbours of a corner are taken ACROSS the seam."""
    t = tuple(spec)
    if t in _GEOM:
        return _GEOM[t]
    k = spec[0]
    code = code_of(spec)[0]
    if k == 'planar':
        mr, mc = code.bounds
        lines = {'N': [(0, c) for c in range(0, mc + 1, 2)], 'S': [(mr, c) for c in range(0, mc + 1, 2)],
                 'W': [(r, 0) for r in range(0, mr + 1, 2)], 'E': [(r, mc) for r in range(0, mr + 1, 2)]}
        corners = [((0, 0), (0, 2), (2, 0), (1, 1)), ((0, mc), (0, mc - 2), (2, mc), (1, mc - 1)),
                   ((mr, 0), (mr, 2), (mr - 2, 0), (mr - 1, 1)), ((mr, mc), (mr, mc - 2), (mr - 2, mc), (mr - 1, mc - 1))]
        ok = lambda i: code.is_in_bounds(i) and code.is_site(i)  # noqa: E731
    elif k in ('rplanar', 'rtoric'):
        mx, my = code.site_bounds if k == 'rplanar' else code.bounds
        lines = {'N': [(x, my) for x in range(mx + 1)], 'S': [(x, 0) for x in range(mx + 1)],
                 'W': [(0, y) for y in range(my + 1)], 'E': [(mx, y) for y in range(my + 1)]}
        if k == 'rplanar':
            corners = [((0, 0), (1, 0), (0, 1)), ((mx, 0), (mx - 1, 0), (mx, 1)), ((0, my), (1, my), (0, my - 1)),
                       ((mx, my), (mx - 1, my), (mx, my - 1))]
        else:
            corners = [((0, 0), (mx, 0), (0, my)), ((mx, 0), (0, 0), (mx, my)), ((0, my), (mx, my), (0, 0)),
                       ((mx, my), (0, my), (mx, 0))]
        ok = lambda i: 0 <= i[0] <= mx and 0 <= i[1] <= my  # noqa: E731
    elif k == 'toric':
        R, C = code.size
        lines, corners = {}, []
        for tt in (0, 1):
            lines['N%d' % tt] = [(tt, 0, c) for c in range(C)]
            lines['S%d' % tt] = [(tt, R - 1, c) for c in range(C)]
            lines['W%d' % tt] = [(tt, r, 0) for r in range(R)]
            lines['E%d' % tt] = [(tt, r, C - 1) for r in range(R)]
            corners += [((tt, 0, 0), (tt, 0, C - 1), (tt, R - 1, 0), (1 - tt, 0, 0)),
                        ((tt, 0, C - 1), (tt, 0, 0), (tt, R - 1, C - 1), (1 - tt, 0, C - 1)),
                        ((tt, R - 1, 0), (tt, R - 1, C - 1), (tt, 0, 0), (1 - tt, R - 1, 0)),
                        ((tt, R - 1, C - 1), (tt, R - 1, 0), (tt, 0, C - 1), (1 - tt, R - 1, C - 1))]
        ok = lambda i: True  # noqa: E731
    else:
        raise ValueError(spec)
    lines = {n: [i for i in l if ok(i)] for n, l in lines.items()}
    cs = []
    for c in corners:
        seen = []
        for i in c:
            if ok(i) and i not in seen:
                seen.append(i)
        cs.append(tuple(seen))
    _GEOM[t] = (lines, cs)
    return _GEOM[t]


def pauli_bsf(spec, assignment):
    """bsf of the Pauli with the given {site index: 'X'|'Y'|'Z'} (later entries multiply onto earlier ones)"""
    p = code_of(spec)[0].new_pauli()
    for i, op in assignment:
        p.site(op, i)
    return np.array(p.to_bsf(), dtype=int)


def localised_errors(spec, yonly=False):
    """errors localised on the rim of the lattice: a single X / Y / Z on every boundary qubit (hence every corner
    qubit), every pair of Paulis on two of the qubits around each corner (`pairs across a corner`), short runs from
    either end of each boundary and the whole boundary. Y-only when `yonly`. Returns [(bsf, tag)], de-duplicated."""
    lines, corners = geometry(spec)
    ops = 'Y' if yonly else 'XYZ'
    out, seen = [], set()

    def add(assignment, tag):
        e = pauli_bsf(spec, assignment)
        b = bits(e)
        if b not in seen and np.any(e):
            seen.add(b); out.append((e, tag))
    for name in sorted(lines):
        for i in lines[name]:
            for op in ops:
                add([(i, op)], 'rim-single')
    for c in corners:
        for a, b in itertools.combinations(c, 2):
            for oa in ops:
                for ob in ops:
                    add([(a, oa), (b, ob)], 'corner-pair')
        for op in ops:
            add([(i, op) for i in c], 'corner-all')
    for name in sorted(lines):
        l = lines[name]
        for op in ops:
            for k in (2, 3):
                if len(l) > k:
                    add([(i, op) for i in l[:k]], 'rim-run'); add([(i, op) for i in l[-k:]], 'rim-run')
            add([(i, op) for i in l], 'rim-all')
            add([(i, op) for i in l[::2]], 'rim-alternate')
    return out


def boundary_subset_errors(ctx, spec, op='Y', all_upto=2, cap3=None, n_more=6, max_w=6):
    """`several defects on ONE boundary`: for each boundary all subsets of its qubits of size <= all_upto, all (or `cap3`
    sampled) subsets of size 3, `n_more` sampled subsets of each size 4..max_w and the stride-1 / stride-2 prefixes
    from either end, all with the same Pauli `op`."""
    lines, _ = geometry(spec)
    out, seen = [], set()

    def add(sites, tag):
        e = pauli_bsf(spec, [(i, op) for i in sites])
        b = bits(e)
        if b not in seen:
            seen.add(b); out.append((e, tag))
    for name in sorted(lines):
        l = lines[name]
        for w in range(1, min(all_upto, len(l)) + 1):
            for sub in itertools.combinations(l, w):
                add(sub, 'rim-w%d' % w)
        for w in range(max(3, all_upto + 1), min(max_w, len(l)) + 1):
            subs = list(itertools.combinations(range(len(l)), w)) if len(l) <= 16 else None
            cap = (cap3 if w == 3 else n_more)
            if subs is not None and (cap is None or len(subs) <= cap):
                pick = subs
            elif subs is not None:
                pick = ctx.rng.sample(subs, cap)
            else:
                pick = [tuple(sorted(ctx.rng.sample(range(len(l)), w))) for _ in range(cap or 20)]
            for sub in pick:
                add([l[j] for j in sub], 'rim-w%d' % w)
        for stride in (1, 2):
            for seq in (l[::stride], l[::-1][::stride]):
                for w in range(3, min(max_w, len(seq)) + 1):
                    add(seq[:w], 'rim-stride%d' % stride)
    return out


def with_syndromes(spec, errs):
    S = code_of(spec)[1]
    return [(e, py_synd(S, e), tag) for e, tag in errs]


# ------------------------------------------------------------------------------------------ recording gt.mwpm

class Recorder:
    """records what `qecsim.graphtools.mwpm` is called with and returns (no /repo edits)"""

    def __init__(self):
        import qecsim.graphtools as gt
        from qecsim.models.planar import PlanarCMWPMDecoder
        self.gt = gt
        self.SG = PlanarCMWPMDecoder.StepGrid
        self.calls = []       # (graph copy (list of ((a, b), w)), result list)
        self.grid_calls = []  # CMWPM: dicts
        self.memo = {}

    def __enter__(self):
        self.orig = self.gt.mwpm
        self.orig_sg = self.SG.__dict__['mwpm']
        rec = self

        def mwpm(graph):
            res = rec.orig(graph)
            rec.calls.append((list(graph.items()), list(res)))
            return res

        def sg_mwpm(grid, matched_indices, syndrome_indices, **kw):
            before = len(rec.calls)
            res = rec.orig_sg.__get__(grid, type(grid))(matched_indices, syndrome_indices, **kw)
            key = (id(grid), matched_indices, syndrome_indices, tuple(sorted(kw.items())))
            if len(rec.calls) > before:
                rec.memo[key] = rec.calls[-1]
            rec.grid_calls.append({'syndrome_indices': syndrome_indices, 'result': res, 'gt': rec.memo.get(key),
                                   'matched': matched_indices, 'kw': dict(kw), 'fresh': len(rec.calls) > before})
            return res

        self.gt.mwpm = mwpm
        self.SG.mwpm = sg_mwpm
        return self

    def __exit__(self, *a):
        self.gt.mwpm = self.orig
        self.SG.mwpm = self.orig_sg
        return False

    def reset(self):
        self.calls = []; self.grid_calls = []; self.memo = {}


def idx2(i):
    return '{},{}'.format(int(i[0]), int(i[1]))


def idx3(i):
    return '{},{},{}'.format(int(i[0]), int(i[1]), int(i[2]))


def canon_wedges(txt):
    """canonical form of `a>b@w;…`: endpoints of each edge sorted, list sorted"""
    if txt == '_':
        return '_'
    out = []
    for e in txt.split(';'):
        ab, w = e.split('@')
        a, b = ab.split('>')
        ta, tb = sorted([tuple(int(x) for x in a.split(',')), tuple(int(x) for x in b.split(','))])
        out.append((ta, tb, int(w)))
    out.sort()
    return ';'.join('{}>{}@{}'.format(','.join(map(str, a)), ','.join(map(str, b)), w) for a, b, w in out)


def canon_pairs(txt):
    if txt == '_':
        return '_'
    out = []
    for e in txt.split(';'):
        a, b = e.split('>')
        out.append(tuple(sorted([a, b], key=lambda t: (t[0] if t[0] in 'dv' else '', [int(x) for x in
                                                                                           t.split(':')[-1].split(',')]))))
    out.sort(key=lambda p: [(t[0] if t[0] in 'dv' else '', [int(x) for x in t.split(':')[-1].split(',')]) for t in p])
    return ';'.join('{}>{}'.format(a, b) for a, b in out)


def post_graph(reply):
    """model reply `P=<edges> D=<edges>` -> canonical"""
    p, d = reply.split(' ')
    f = canon_wedges if '@' in reply else canon_pairs
    return 'P={} D={}'.format(f(p[2:]), f(d[2:]))


def post_cmwpm(reply):
    toks = reply.split(' ')
    if len(toks) != 4:
        return reply
    return '{} {} P={} D={}'.format(toks[0], toks[1], canon_pairs(toks[2][2:]), canon_pairs(toks[3][2:]))


def graph_txt(items, f):
    return canon_wedges(';'.join('{}>{}@{}'.format(f(a), f(b), int(w)) for (a, b), w in items) or '_')


# ------------------------------------------------------------------------------------------ evaluating the property

class Acc:
    """accumulates part (b) decodes of one (decoder class): counts, Lean monitor batches"""

    def __init__(self, ctx):
        self.ctx = ctx
        self.by_decoder = {}
        self.batches = {}
        self.skip = {}
        self.fail_counts = {}

    def note(self, dname, exhaustive):
        d = self.by_decoder.setdefault(dname, {'evaluations': 0, 'timeouts': 0, 'exhaustive_codes': set(),
                                                'configs': set()})
        return d

    def push(self, spec, s, r, verdict):
        key = tuple(spec)
        if verdict and len(r) > 2 * LEAN_ALL_N:
            # large lattices (the look-up decoder's sizes): the Lean evaluation of the monitor is made on every
            # LEAN_EVERY-th (quick) / 2nd (thorough) accepted output and on every rejected one (the Python one on all)
            self.skip[key] = self.skip.get(key, 0) + 1
            if self.skip[key] % (LEAN_EVERY if self.ctx.quick() else 2):
                return
        b = self.batches.setdefault(key, [])
        b.append((bits(s), bits(r), verdict))
        if len(b) >= 250:
            self.flush_key(key)

    def flush_key(self, key):
        b = self.batches.pop(key, [])
        if not b:
            return
        code, S, Smat = code_of(key)
        n = S.shape[1] // 2
        line = 'c02 monitor {} {} {}'.format(n, Smat, ';'.join('{}:{}'.format(s, r) for s, r, _ in b))
        self.ctx.case(line, ''.join('1' if v else '0' for _, _, v in b),
                      nontrivial=any('1' in s for s, _, _ in b), meta={'kind': 'monitor', 'code': list(key)})

    def flush(self):
        for key in list(self.batches):
            self.flush_key(key)


def decode_once(code, dec, syndrome, em, p, error):
    """returns (status, recovery) — status in ok | timeout | raise:<T> | none"""
    kw = {'error_model': em, 'error_probability': p, 'error': error, 'step_errors': [error],
          'measurement_error_probability': 0.0, 'step_measurement_errors': [np.zeros(len(syndrome), dtype=int)]}
    try:
        with core.TimeLimit(TL):
            r = dec.decode(code, np.array(syndrome, dtype=int), **kw)
    except core.TimeLimit.Expired:
        return 'timeout', None
    except Exception as ex:  # noqa: BLE001 - the property says decoding never raises
        return 'raise:{}: {}'.format(type(ex).__name__, str(ex)[:120]), None
    if r is None:
        return 'none', None
    if hasattr(r, 'recovery'):  # DecodeResult
        r = r.recovery
        if r is None:
            return 'none', None
    return 'ok', r


def judge(S, syndrome, r):
    """the property's predicate on a returned recovery: (ok, reason)"""
    try:
        a = np.asarray(r)
    except Exception:  # noqa: BLE001
        return False, 'not an array'
    if a.ndim != 1 or a.shape[0] != S.shape[1]:
        return False, 'wrong shape {}'.format(a.shape)
    if not np.all((a == 0) | (a == 1)):
        return False, 'not binary'
    if not np.array_equal(py_synd(S, a.astype(int)), np.asarray(syndrome, dtype=int)):
        return False, 'syndrome of recovery differs from the syndrome'
    return True, ''


def evaluate(ctx, acc, spec, dspec, emspec, p, error, syndrome, exhaustive=False):
    """one real decode through both monitors; returns the recovery (or None)"""
    code, S, _ = code_of(spec)
    dec = dec_of(dspec)
    em = mk_em(emspec)
    status, r = decode_once(code, dec, syndrome, em, p, error)
    dname = dspec[0]
    d = acc.note(dname, exhaustive)
    d['configs'].add(json.dumps([dspec[1], list(spec[:1])], sort_keys=True, default=str))
    ctx.count('b_decoder', dname)
    ctx.count('b_code', '{}:{}'.format(dname, 'x'.join(map(str, spec[1:])) or spec[0]))
    if status == 'timeout':
        d['timeouts'] += 1
        ctx.count('b_timeouts', dname)
        return None
    d['evaluations'] += 1
    if exhaustive:
        d['exhaustive_codes'].add('x'.join(map(str, spec)))
    recipe = {'code': list(spec), 'decoder': [dspec[0], dict(dspec[1])], 'error_model': list(emspec), 'p': p,
              'error': bits(error), 'syndrome': bits(syndrome)}
    key = None
    if dname == 'PlanarCMWPM' and dict(dspec[1]).get('max_iterations', 4) == 0:
        key = KEY_D2
    if status != 'ok':
        fail(ctx, acc, 'decode {} ({})'.format('returned None' if status == 'none' else 'raised', status), recipe, key)
        return None
    ok, why = judge(S, syndrome, r)
    if not ok:
        fail(ctx, acc, '{}: {}'.format(dname, why), recipe, key)
    a = np.asarray(r)
    if a.ndim == 1 and a.shape[0] == S.shape[1] and np.all((a == 0) | (a == 1)):
        acc.push(spec, syndrome, a.astype(int), ok)
    return r


def fail(ctx, acc, what, recipe, key):
    k = key or what.split(':')[0]
    c = acc.fail_counts.get(k, 0)
    acc.fail_counts[k] = c + 1
    if c < 5:
        ctx.monitor_fail('C02 fails on the real code: ' + what, recipe, key=key)


_DECS = {}


def dec_of(dspec):
    k = json.dumps([dspec[0], dict(dspec[1])], sort_keys=True, default=str)
    if k not in _DECS:
        _DECS[k] = mk_decoder(dspec)
    return _DECS[k]


def D(name, **kw):
    return (name, tuple(sorted(kw.items())))


# ------------------------------------------------------------------------------------------ part (a) + (b) per family

def syndromes_for_tie(ctx, spec, exhaustive_rank, max_pairs, n_random, yonly=False):
    """(syndrome, error) list for the modelled constructions"""
    code, S, _ = code_of(spec)
    n = S.shape[1] // 2
    cases, exh = error_cases(ctx, spec, yonly=yonly, exhaustive_rank=exhaustive_rank, n_random=n_random, singles=True)
    out = [(e, s) for e, s, _ in cases]
    if not exh:
        # all single / sampled double DEFECTS that are genuine syndromes (solved for an error through the basis)
        basis = syndrome_basis(S, unit_errors(n, yonly))
        full = len(basis) == S.shape[0]
        if full:
            bymask = basis
            for s in defect_syndromes(ctx, S.shape[0], max_pairs):
                m = int(''.join(str(int(x)) for x in s), 2)
                e = np.zeros(2 * n, dtype=int)
                for pb, ps, pe in sorted(bymask, key=lambda t: -t[0]):
                    if (m >> pb) & 1:
                        m ^= ps; e = e ^ pe
                if m == 0:
                    out.append((e, s))
    return out, exh


def run_sample_ties(ctx, acc):
    """sample_recovery of the tensor-network decoders vs the model; direct syndrome monitor on each"""
    import qecsim.models.planar as P
    import qecsim.models.rotatedplanar as RP
    import qecsim.models.color as CO
    q = ctx.quick()
    fams = [
        ('planar', [('planar', r, c) for r in range(2, (5 if q else 7) + 1) for c in range(2, (5 if q else 7) + 1)],
         [P.PlanarMPSDecoder, P.PlanarRMPSDecoder], 'planar.sample {} {}', D('PlanarMPS', chi=2)),
        ('rplanar', [('rplanar', r, c) for r in range(3, (6 if q else 8) + 1) for c in range(3, (6 if q else 8) + 1)],
         [RP.RotatedPlanarMPSDecoder, RP.RotatedPlanarRMPSDecoder], 'rplanar.sample {} {}',
         D('RotatedPlanarMPS', chi=2)),
        ('color', [('color', L) for L in ((3, 5, 7) if q else (3, 5, 7, 9, 11))], [CO.Color666MPSDecoder],
         'color.sample {}', D('Color666MPS', chi=2)),
    ]
    for fam, specs, classes, op, dspec in fams:
        for spec in specs:
            code, S, _ = code_of(spec)
            cases, exh = syndromes_for_tie(ctx, spec, 10 if q else 12, 60 if q else 400, 12 if q else 40)
            ctx.count('a_sample_size', '{}:{}{}'.format(fam, 'x'.join(map(str, spec[1:])), ':all' if exh else ''))
            for e, s in cases:
                for cls in classes:
                    try:
                        r = cls.sample_recovery(code, np.array(s, dtype=int)).to_bsf()
                        v = bits(r)
                    except Exception as ex:  # noqa: BLE001
                        v = type(ex).__name__; r = None
                    dname = cls.__name__[:-len('Decoder')]
                    meta = {'kind': 'sample', 'code': list(spec), 'decoder': [dname, dict(dspec[1])],
                            'syndrome': bits(s), 'error': bits(e)}
                    ctx.case('c02 ' + op.format(*spec[1:]) + ' ' + bits(s), v, nontrivial=bool(np.any(s)), meta=meta)
                    if r is not None:
                        ok, why = judge(S, s, r)
                        if not ok:
                            fail(ctx, acc, '{}.sample_recovery: {}'.format(cls.__name__, why),
                                 {'code': list(spec), 'decoder': [dname, dict(dspec[1])], 'error_model': ['dep'],
                                  'p': 0.1, 'error': bits(e), 'syndrome': bits(s)}, None)


def tn_coset_case(ctx, spec, dspec, s, r, sample):
    """the TN decoders' answer is literally sample x {I, X, XZ, Z}"""
    code, S, _ = code_of(spec)
    lx, lz = np.array(code.logical_xs[0], dtype=int), np.array(code.logical_zs[0], dtype=int)
    r = np.asarray(r, dtype=int)
    if np.array_equal(r, sample):
        v = 'I'
    elif np.array_equal(r, sample ^ lx):
        v = 'X'
    elif np.array_equal(r, sample ^ lx ^ lz):
        v = 'Y'
    elif np.array_equal(r, sample ^ lz):
        v = 'Z'
    else:
        v = 'none'
    # the documented construction says one of the four cosets: `none` is a correspondence break
    ctx.case('c02 coset {} {} {} {}'.format(bits(sample), bits(lx), bits(lz), bits(r)), v, nontrivial=bool(np.any(s)),
             meta={'kind': 'coset', 'code': list(spec), 'decoder': [dspec[0], dict(dspec[1])], 'syndrome': bits(s)})
    if v == 'none':
        ctx.case('c02 coset-claim', 'answer is not sample x logical coset: ' + bits(r)[:60],
                 meta={'kind': 'coset', 'code': list(spec), 'decoder': [dspec[0], dict(dspec[1])],
                       'syndrome': bits(s)})


def planar_mwpm_case(ctx, acc, rec, spec, e, s, exh):
    """one real PlanarMWPM decode: monitor + ties (final recovery from the recorded matchings, recorded graphs)"""
    _, R, C = spec
    dspec = D('PlanarMWPM')
    rec.reset()
    em = ctx.rng.choice(EMS_ANY); p = ctx.rng.choice(PS)
    r = evaluate(ctx, acc, spec, dspec, em, p, e, s, exhaustive=exh)
    if r is None or len(rec.calls) != 2:
        if r is not None:
            ctx.case('c02 planar.mwpm-calls', 'gt.mwpm called {} times'.format(len(rec.calls)),
                     meta={'kind': 'mwpm', 'code': list(spec), 'decoder': [dspec[0], {}], 'syndrome': bits(s)})
        return
    (gP, mP), (gD, mD) = rec.calls
    meta = {'kind': 'mwpm', 'code': list(spec), 'decoder': [dspec[0], {}], 'syndrome': bits(s), 'error': bits(e)}
    pairs = lambda m: ';'.join('{}>{}'.format(idx2(a), idx2(b)) for a, b in m) or '_'  # noqa: E731
    ctx.case('c02 planar.mwpm {} {} {} {} {}'.format(R, C, bits(s), pairs(mP), pairs(mD)),
             bits(r) + ' pm=11', nontrivial=bool(np.any(s)), meta=meta)
    ctx.case('c02 planar.graph {} {} {}'.format(R, C, bits(s)),
             'P={} D={}'.format(graph_txt(gP, idx2), graph_txt(gD, idx2)), nontrivial=bool(np.any(s)),
             meta=meta, post=post_graph)


def run_planar_mwpm(ctx, acc, rec):
    q = ctx.quick()
    bound = 5 if q else 8
    for R in range(2, bound + 1):
        for C in range(2, bound + 1):
            spec = ('planar', R, C)
            cases, exh = syndromes_for_tie(ctx, spec, 7 if q else 10, 40 if q else 250, 10 if q else 30)
            ctx.count('a_mwpm_size', 'planar:{}x{}{}'.format(R, C, ':all' if exh else ''))
            for e, s in cases:
                planar_mwpm_case(ctx, acc, rec, spec, e, s, exh)


def toric_mwpm_case(ctx, acc, rec, spec, e, s, exh):
    """one real ToricMWPM decode: monitor + ties"""
    _, R, C = spec
    dspec = D('ToricMWPM')
    rec.reset()
    em = ctx.rng.choice(EMS_ANY); p = ctx.rng.choice(PS)
    r = evaluate(ctx, acc, spec, dspec, em, p, e, s, exhaustive=exh)
    if r is None or len(rec.calls) != 2:
        return
    (g0, m0), (g1, m1) = rec.calls
    meta = {'kind': 'mwpm', 'code': list(spec), 'decoder': [dspec[0], {}], 'syndrome': bits(s), 'error': bits(e)}
    pairs = lambda m: ';'.join('{}>{}'.format(idx3(a), idx3(b)) for a, b in m) or '_'  # noqa: E731
    ctx.case('c02 toric.mwpm {} {} {} {} {}'.format(R, C, bits(s), pairs(m0), pairs(m1)),
             bits(r) + ' pm=11', nontrivial=bool(np.any(s)), meta=meta)
    ctx.case('c02 toric.graph {} {} {}'.format(R, C, bits(s)),
             'P={} D={}'.format(graph_txt(g0, idx3), graph_txt(g1, idx3)), nontrivial=bool(np.any(s)),
             meta=meta, post=post_graph)


def run_toric_mwpm(ctx, acc, rec):
    q = ctx.quick()
    bound = 5 if q else 8
    for R in range(2, bound + 1):
        for C in range(2, bound + 1):
            spec = ('toric', R, C)
            cases, exh = error_cases(ctx, spec, exhaustive_rank=6 if q else 10, n_random=25 if q else 60,
                                     doubles=40 if q else 200)
            ctx.count('a_mwpm_size', 'toric:{}x{}{}'.format(R, C, ':all' if exh else ''))
            for e, s, _ in cases:
                toric_mwpm_case(ctx, acc, rec, spec, e, s, exh)


def cnode_txt(code, graph_items, mates):
    """encode identity-hashed `_Node` objects: d:r,c for a defect node, v:r,c for the private virtual node of (r,c)"""
    owner = {}
    for (a, b), _ in graph_items:
        ia, ib = code.is_in_bounds(a.index), code.is_in_bounds(b.index)
        if ia and not ib:
            owner[id(b)] = a.index
        elif ib and not ia:
            owner[id(a)] = b.index

    def t(x):
        if code.is_in_bounds(x.index):
            return 'd:' + idx2(x.index)
        return 'v:' + idx2(owner[id(x)])
    # identity-hashed nodes: set order and pair orientation depend on object addresses -> canonicalise both
    return (canon_pairs(';'.join('{}>{}'.format(t(a), t(b)) for a, b in mates) or '_'),
            canon_pairs(';'.join('{}>{}'.format(t(a), t(b)) for (a, b), _ in graph_items) or '_'))


def cmwpm_configs(ctx):
    q = ctx.quick()
    out = [D('PlanarCMWPM')]
    for mi in (0, 1, 2, 3, 7):
        out.append(D('PlanarCMWPM', max_iterations=mi))
    for bs in 'trfl':
        for da in (1, 2, 4):
            out.append(D('PlanarCMWPM', box_shape=bs, distance_algorithm=da))
    for f in (0, 0.5, 1, 2, 10.0, 1e200, 1e-200, float('inf')):
        out.append(D('PlanarCMWPM', factor=f, max_iterations=3))
    extra = 6 if q else 30
    for _ in range(extra):
        out.append(D('PlanarCMWPM', factor=ctx.rng.choice([0, 0.25, 1, 3, 3.5, 7, 100]),
                     max_iterations=ctx.rng.choice([1, 2, 3, 4, 5, 9]), box_shape=ctx.rng.choice('trfl'),
                     distance_algorithm=ctx.rng.choice([1, 2, 4])))
    return out


def cmwpm_case(ctx, acc, rec, spec, dspec, e, s, exh):
    """one real PlanarCMWPM decode: monitor + ties (StepGrid.mwpm post-processing, recorded graphs, final recovery)"""
    _, R, C = spec
    code = code_of(spec)[0]
    kw = dict(dspec[1])
    mi = kw.get('max_iterations', 4)
    rec.reset()
    em = ctx.rng.choice(EMS_ANY); p = ctx.rng.choice(PS)
    r = evaluate(ctx, acc, spec, dspec, em, p, e, s, exhaustive=exh)
    if r is None:
        return
    meta = {'kind': 'cmwpm', 'code': list(spec), 'decoder': [dspec[0], kw], 'syndrome': bits(s), 'error': bits(e)}
    if mi == 0:
        ctx.case('c02 planar.cmwpm0 {} {}'.format(R, C), bits(r), nontrivial=bool(np.any(s)), meta=meta)
        return
    gc = rec.grid_calls
    if len(gc) < 2 or gc[-1]['gt'] is None or gc[-2]['gt'] is None:
        ctx.case('c02 planar.cmwpm-calls', 'StepGrid.mwpm called {} times'.format(len(gc)), meta=meta)
        return
    lastP = [c for i, c in enumerate(gc) if i % 2 == 0][-1]
    lastD = [c for i, c in enumerate(gc) if i % 2 == 1][-1]
    mP, gPtxt = cnode_txt(code, *lastP['gt'])
    mD, gDtxt = cnode_txt(code, *lastD['gt'])
    mt = lambda res: canon_pairs(';'.join('{}>{}'.format(idx2(a), idx2(b)) for a, b in res) or '_')  # noqa
    ctx.case('c02 planar.cmwpm {} {} {} {} {}'.format(R, C, bits(s), mP, mD),
             '{} pm=11 P={} D={}'.format(bits(r), mt(lastP['result']), mt(lastD['result'])),
             nontrivial=bool(np.any(s)), meta=meta, post=post_cmwpm)
    ctx.case('c02 planar.cmwpm.graph {} {} {}'.format(R, C, bits(s)), 'P={} D={}'.format(gPtxt, gDtxt),
             nontrivial=bool(np.any(s)), meta=meta, post=post_graph)
    # the WEIGHTS of every graph a StepGrid.mwpm call of this decode handed to gt.mwpm == Model/StepGrid.lean distance over
    # the background of that call (exact: only parameter sets whose products and sums are exact in binary64)
    from qv import c02_stepgrid as SGm
    for call in (gc if not ctx.quick() else gc[-2:]):   # quick tier: the graphs of the final primal and dual call
        ckw = call.get('kw') or {}
        fac, shp, alg = ckw.get('factor', 3), ckw.get('box_shape', 't'), ckw.get('distance_algorithm', 4)
        matched = list(call.get('matched') or [])
        if not call.get('fresh') or call.get('gt') is None:
            continue
        if fac not in (3, 2, 1, 0.5, 1.5) or len(matched) > 8 or shp not in 'trfl' or alg not in (1, 2, 4):
            ctx.count('stepgrid.decode-weights', 'skipped: products not exact in binary64')
            continue
        pre = 'stepgrid dist {} {} {} {} {} {} {}'.format(R, C, SGm.fr(1), SGm.fr(fac), shp, SGm.pairs_w(matched), alg)
        for (a, b), w in call['gt'][0]:
            ctx.case(pre + ' {} {}'.format(SGm.idx_w(a.index), SGm.idx_w(b.index)), SGm.fr(w), nontrivial=False,
                     meta=dict(meta, part='stepgrid-weights'))
        ctx.count('stepgrid.decode-weights', 'graphs tied')


def run_planar_cmwpm(ctx, acc, rec):
    q = ctx.quick()
    sizes = [(2, 2), (2, 3), (3, 2), (3, 3), (2, 5), (4, 3), (4, 4), (5, 5), (3, 6)] if q else \
        [(r, c) for r in range(2, 8) for c in range(2, 8)]
    for dspec in cmwpm_configs(ctx):
        for (R, C) in sizes:
            spec = ('planar', R, C)
            cases, exh = syndromes_for_tie(ctx, spec, 4 if q else 7, 6 if q else 25, 5 if q else 12)
            if not exh and q:
                cases = ctx.rng.sample(cases, min(len(cases), 14))
            elif not exh:
                cases = ctx.rng.sample(cases, min(len(cases), 40))
            for e, s in cases:
                cmwpm_case(ctx, acc, rec, spec, dspec, e, s, exh)


def tn_configs(name, q, has_stp=True, has_mode=True):
    out = [D(name)]
    for chi in (2, 4):
        out.append(D(name, chi=chi))
    if has_mode:
        for mode in 'ra':
            out.append(D(name, mode=mode))
            out.append(D(name, chi=4, mode=mode))
    out.append(D(name, chi=4, tol=1e-8))
    out.append(D(name, tol=1e-12))
    if has_stp:
        out.append(D(name, chi=2, stp=0.5))
        out.append(D(name, chi=2, mode='a', stp=1.0))
    return out


def run_tn(ctx, acc):
    """part (b) for the tensor-network decoders, with the coset tie"""
    import qecsim.models.planar as P
    import qecsim.models.rotatedplanar as RP
    import qecsim.models.color as CO
    q = ctx.quick()
    plan = []
    # (decoder name, class for sample_recovery, configs, [(spec, untruncated allowed)], exhaustive rank, n_random)
    planar_small = [('planar', 2, 2), ('planar', 2, 3), ('planar', 3, 2), ('planar', 3, 3)]
    planar_mid = [('planar', 2, 4), ('planar', 4, 3), ('planar', 4, 4)]
    planar_big = [('planar', 5, 5), ('planar', 3, 6), ('planar', 6, 5)] + ([] if q else [('planar', 7, 7), ('planar', 8, 4)])
    plan.append(('PlanarMPS', P.PlanarMPSDecoder, tn_configs('PlanarMPS', q), planar_small + planar_mid, planar_big))
    plan.append(('PlanarRMPS', P.PlanarRMPSDecoder, tn_configs('PlanarRMPS', q), planar_small + planar_mid[:2],
                 planar_big + planar_mid[2:]))
    rp_small = [('rplanar', 3, 3), ('rplanar', 3, 4), ('rplanar', 4, 3), ('rplanar', 4, 4)]
    rp_mid = [('rplanar', 3, 5), ('rplanar', 5, 4), ('rplanar', 5, 5)]
    rp_big = [('rplanar', 6, 6), ('rplanar', 4, 7)] + ([] if q else [('rplanar', 7, 7), ('rplanar', 9, 5)])
    plan.append(('RotatedPlanarMPS', RP.RotatedPlanarMPSDecoder, tn_configs('RotatedPlanarMPS', q, has_stp=False),
                 rp_small + rp_mid, rp_big))
    plan.append(('RotatedPlanarRMPS', RP.RotatedPlanarRMPSDecoder, tn_configs('RotatedPlanarRMPS', q, has_stp=False),
                 rp_small + rp_mid, rp_big))
    plan.append(('Color666MPS', CO.Color666MPSDecoder, tn_configs('Color666MPS', q, has_stp=False, has_mode=False),
                 [('color', 3), ('color', 5)], [('color', 7)] + ([] if q else [('color', 9)])))
    for name, cls, configs, untr_ok, trunc_only in plan:
        for ci, dspec in enumerate(configs):
            chi = dict(dspec[1]).get('chi')
            if dict(dspec[1]).get('stp') == 1.0:
                chi = None  # skip-truncate probability 1 = never truncates: exponential like chi=None
            specs = list(untr_ok) + (list(trunc_only) if chi else [])
            for spec in specs:
                code, S, _ = code_of(spec)
                n = S.shape[1] // 2
                # exhaustive over all syndromes only for the default config on the smallest lattices
                rank = (8 if (ci == 0) else 0) if q else (10 if ci <= 1 else 7)
                if name == 'Color666MPS' and spec[1] >= 5:
                    rank = 0
                nr = (3 if q else 10) if n > 13 else (4 if q else 12)
                if name == 'Color666MPS' and spec[1] >= 5 and not chi:
                    nr = 2 if q else 8
                cases, exh = error_cases(ctx, spec, exhaustive_rank=rank, n_random=nr, singles=False)
                if exh and q and len(cases) > 64:
                    cases = cases[:1] + ctx.rng.sample(cases[1:], 63); exh = False
                for e, s, _ in cases:
                    em = ctx.rng.choice(EMS_ANY); p = ctx.rng.choice(PS)
                    r = evaluate(ctx, acc, spec, dspec, em, p, e, s, exhaustive=exh)
                    if r is None:
                        continue
                    a = np.asarray(r)
                    if a.ndim == 1 and a.shape[0] == 2 * n:
                        try:
                            sample = np.array(cls.sample_recovery(code, np.array(s, dtype=int)).to_bsf(), dtype=int)
                        except Exception:  # noqa: BLE001
                            continue
                        tn_coset_case(ctx, spec, dspec, s, a, sample)


PLANAR_Y_MAX = 12


def planar_y_sizes(ctx):
    """the decoder is a look-up (coprime: destabilizers; one side divides the other: partial recoveries; otherwise a
    table of products of boundary operators), so the three arithmetic classes of (R, C) are what matters: thorough =
    all 2 <= R, C <= 12; quick = every pair with gcd(R, C) not in {1, R, C} + the small sizes + a seed-rotated sample
    of the coprime and of the dividing pairs"""
    import math
    allp = [(r, c) for r in range(2, PLANAR_Y_MAX + 1) for c in range(2, PLANAR_Y_MAX + 1)]
    if not ctx.quick():
        return allp
    table = [t for t in allp if math.gcd(*t) not in (1, t[0], t[1])]
    small = [(2, 2), (2, 3), (3, 2), (3, 3), (2, 4), (4, 2), (3, 4), (4, 4), (3, 5), (5, 5), (6, 3)]
    coprime = [t for t in allp if math.gcd(*t) == 1 and t not in small]
    divides = [t for t in allp if math.gcd(*t) in t and t not in small]
    return sorted(set(table + small + ctx.rng.sample(coprime, 4) + ctx.rng.sample(divides, 4)))


def planar_y_cases(ctx, spec, table, all_w2=True):
    """Y-only errors: (exhaustive over the syndromes of Y-only errors when that space is small, else) every weight-1
    error on the rim + sampled elsewhere, every weight-<=2 error within one boundary, several defects on one boundary
    (subsets of sizes 3..6, stride patterns), the localised rim / corner errors, random errors of every weight 1..6 and
    of spread weights"""
    q = ctx.quick()
    code, S, _ = code_of(spec)
    n = S.shape[1] // 2
    cases, exh = error_cases(ctx, spec, yonly=True, exhaustive_rank=9 if q else 12, n_random=(12 if q else 20),
                             singles=(not q and n <= 100))
    if exh:
        return cases, True
    extra = boundary_subset_errors(ctx, spec, 'Y', all_upto=2, cap3=((16 if table else 6) if q else 24),
                                   n_more=((3 if table else 2) if q else 4))
    if q and not all_w2:  # quick: all weight-<=2 rim errors on the small sizes and a seed-rotated half of the table class
        w2 = [c for c in extra if c[1] == 'rim-w2']
        extra = [c for c in extra if c[1] != 'rim-w2'] + ctx.rng.sample(w2, min(len(w2), 40))
    extra += localised_errors(spec, yonly=True)
    for w in range(1, 7):
        for _ in range((2 if q else 6)):
            if w <= n:
                extra.append((random_error(ctx.rng, n, w, True), 'w%d' % w))
    if q or n > 100:  # weight 1: the rim (above) + sampled interior qubits; thorough, n <= 100: all (error_cases)
        for qb in ctx.rng.sample(range(n), min(n, 12 if q else 40)):
            e = np.zeros(2 * n, dtype=int); e[qb] = 1; e[n + qb] = 1
            extra.append((e, 'w1'))
    seen = set(bits(e) for e, _, _ in cases)
    for e, s, tag in with_syndromes(spec, extra):
        b = bits(e)
        if b not in seen:
            seen.add(b); cases.append((e, s, tag))
    return cases, False


def run_planar_y(ctx, acc):
    import math
    dspec = D('PlanarY')
    sizes = planar_y_sizes(ctx)
    tables = [t for t in sizes if math.gcd(*t) not in (1, t[0], t[1])]
    all_w2 = set(ctx.rng.sample(tables, len(tables) // 2)) if ctx.quick() else set(sizes)
    for (R, C) in sizes:
        spec = ('planar', R, C)
        g = math.gcd(R, C)
        cls = 'coprime' if g == 1 else ('divides' if g in (R, C) else 'table')
        cases, exh = planar_y_cases(ctx, spec, cls == 'table', (R, C) in all_w2)
        ctx.count('b_planar_y_class', cls)
        for e, s, tag in cases:
            ctx.count('b_planar_y_kind', tag)
            em = ctx.rng.choice([('bpf',), ('bpf',), ('dep',), ('bdep', 100, 'Y'), ('byx', 5)]); p = ctx.rng.choice(PS)
            evaluate(ctx, acc, spec, dspec, em, p, e, s, exhaustive=exh)


def run_smwpm(ctx, acc):
    q = ctx.quick()
    rp_sizes = [(3, 3), (3, 4), (4, 3), (4, 4), (3, 5), (5, 5), (4, 6), (6, 5)] + ([] if q else [(7, 7), (6, 6), (3, 9),
                                                                                               (8, 5)])
    rt_sizes = [(2, 2), (2, 4), (4, 2), (4, 4), (4, 6), (6, 4)] + ([] if q else [(6, 6), (2, 8), (8, 4), (8, 8)])
    for name, fam, sizes in (('RotatedPlanarSMWPM', 'rplanar', rp_sizes), ('RotatedToricSMWPM', 'rtoric', rt_sizes)):
        etas = [None, 0.5, 10, 1000.0]
        for (R, C) in sizes:
            spec = (fam, R, C)
            for eta in etas:
                kws = [{'eta': eta}] if eta is not None else [{}]
                if name == 'RotatedToricSMWPM':
                    kws = [dict(k, itp=itp) for k in kws for itp in ((False, True) if eta in (None, 10) else (False,))]
                for kw in kws:
                    dspec = D(name, **kw)
                    # finite bias: any Pauli error
                    rank = 8 if (eta is None and not kw.get('itp')) else 0
                    cases, exh = error_cases(ctx, spec, exhaustive_rank=rank if q else rank + 2,
                                             n_random=(6 if q else 25), singles=(eta is None))
                    if exh and eta is None and q and len(cases) > 128:
                        cases = cases[:1] + ctx.rng.sample(cases[1:], 127); exh = False
                    for e, s, _ in cases:
                        em = ctx.rng.choice(EMS_FINITE_BIAS if eta is None else EMS_FINITE_BIAS + [('bpf',)])
                        p = ctx.rng.choice(PS)
                        evaluate(ctx, acc, spec, dspec, em, p, e, s, exhaustive=exh)
                    # infinite bias (eta=None and a pure-Y context): Y-only errors
                    if eta is None:
                        cases, exh = error_cases(ctx, spec, yonly=True, exhaustive_rank=7 if q else 10,
                                                 n_random=(6 if q else 25))
                        for e, s, _ in cases:
                            evaluate(ctx, acc, spec, dspec, ('bpf',), ctx.rng.choice(PS), e, s, exhaustive=exh)


def thin(ctx, cases, k, kt=None, keep=('rim-single',)):
    """every case whose tag is in `keep` + k (quick) / kt (thorough; None = all) seed-rotated others"""
    if not ctx.quick():
        k = kt
    if k is None:
        return cases
    kept = [c for c in cases if c[2] in keep]
    rest = [c for c in cases if c[2] not in keep]
    return kept + ctx.rng.sample(rest, min(k, len(rest)))


def run_lattice_grid(ctx, acc, rec):
    """every lattice decoder on the SHAPE grid (tall / wide x same / opposite parity of rows and cols, up to 8) with
    errors localised at the four corners and along the four boundaries, in finite-bias contexts (any Pauli) and in the
    infinite-bias context (Y-only errors, pure-Y model). The tensor-network decoders get a seed-rotated sample of the
    same errors on their existing non-square sizes only (their cost grows with the size)."""
    q = ctx.quick()
    # matching decoders on the planar / toric lattice (context is ignored by them: rotated as elsewhere)
    cm = [c for c in cmwpm_configs(ctx) if dict(c[1]).get('max_iterations', 4) != 0]
    for (R, C) in size_grid(ctx, 2, 8, n_extra=1 if q else 0):
        spec = ('planar', R, C)
        ctx.count('grid_size', 'planar:{}x{}'.format(R, C))
        cases = with_syndromes(spec, localised_errors(spec))
        for e, s, tag in thin(ctx, cases, 30, 60):
            planar_mwpm_case(ctx, acc, rec, spec, e, s, False)
        for i, dspec in enumerate([D('PlanarCMWPM')] + ctx.rng.sample(cm, 1 if q else 2)):
            for e, s, tag in thin(ctx, cases, 10, 15, keep=(() if (q or i) else ('rim-single',))):
                cmwpm_case(ctx, acc, rec, spec, dspec, e, s, False)
    for (R, C) in size_grid(ctx, 2, 8, n_extra=1 if q else 0):
        spec = ('toric', R, C)
        ctx.count('grid_size', 'toric:{}x{}'.format(R, C))
        for e, s, tag in thin(ctx, with_syndromes(spec, localised_errors(spec)), 30, 50):
            toric_mwpm_case(ctx, acc, rec, spec, e, s, False)
    # symmetry-matching decoders: the context decides the graph (finite bias: any Pauli; infinite bias: Y-only)
    for name, fam, sizes in (('RotatedPlanarSMWPM', 'rplanar', size_grid(ctx, 3, 8, n_extra=1 if q else 4, squares=1 if q else 2,
                                                                          all_thorough=False)),
                             ('RotatedToricSMWPM', 'rtoric', size_grid(ctx, 2, 8, step=2, n_extra=1 if q else 0))):
        for (R, C) in sizes:
            spec = (fam, R, C)
            ctx.count('grid_size', '{}:{}x{}'.format(fam, R, C))
            fin = with_syndromes(spec, localised_errors(spec))
            inf = with_syndromes(spec, localised_errors(spec, yonly=True))
            kws = [{}, {'eta': ctx.rng.choice([0.5, 10, 1000.0])}]
            if fam == 'rtoric':
                kws.append({'itp': True})
            for kw in kws:
                dspec = D(name, **kw)
                for e, s, tag in thin(ctx, fin, 15, 60) if not kw else thin(ctx, fin, 20, 40, keep=()):
                    em = ctx.rng.choice(EMS_FINITE_BIAS if 'eta' not in kw else EMS_FINITE_BIAS + [('bpf',)])
                    evaluate(ctx, acc, spec, dspec, em, ctx.rng.choice(PS), e, s)
                if 'eta' not in kw:
                    for e, s, tag in thin(ctx, inf, 10, 20):
                        evaluate(ctx, acc, spec, dspec, ('bpf',), ctx.rng.choice(PS), e, s)
    # tensor-network decoders: sizes NOT enlarged
    tn = [('PlanarMPS', [('planar', 2, 3), ('planar', 3, 2), ('planar', 4, 3), ('planar', 2, 4), ('planar', 3, 6),
                         ('planar', 6, 5)]),
          ('PlanarRMPS', [('planar', 2, 3), ('planar', 3, 2), ('planar', 4, 3), ('planar', 2, 4), ('planar', 3, 6)]),
          ('RotatedPlanarMPS', [('rplanar', 3, 4), ('rplanar', 4, 3), ('rplanar', 3, 5), ('rplanar', 5, 4),
                                ('rplanar', 4, 7)]),
          ('RotatedPlanarRMPS', [('rplanar', 3, 4), ('rplanar', 4, 3), ('rplanar', 3, 5), ('rplanar', 5, 4),
                                 ('rplanar', 4, 7)])]
    for name, specs in tn:
        for spec in specs:
            cases = with_syndromes(spec, localised_errors(spec))
            for dspec in (D(name, chi=2), D(name, chi=4, mode='a')):
                for e, s, tag in ctx.rng.sample(cases, min(len(cases), 2 if q else 6)):
                    evaluate(ctx, acc, spec, dspec, ctx.rng.choice(EMS_ANY), ctx.rng.choice(PS), e, s)


def run_naive(ctx, acc):
    q = ctx.quick()
    specs = [('five',), ('steane',), ('planar', 2, 2), ('color', 3)] + [('planar', 2, 3), ('toric', 2, 2),
                                                                          ('rplanar', 3, 3)]
    for spec in specs:
        code, S, Smat = code_of(spec)
        n = S.shape[1] // 2
        big = n >= 8
        for mq in ([None, 10, 0, n, n - 1, 4] if not big else [10, None]):
            dspec = D('Naive', max_qubits=mq)
            blocked = bool(mq) and n > mq
            if blocked:
                # outside the stated domain (documented ValueError): tie only
                s = np.zeros(S.shape[0], dtype=int)
                try:
                    dec_of(dspec).decode(code, s)
                    v = 'no-error'
                except ValueError:
                    v = 'ValueError'
                ctx.case('c02 naive {} {} {} {}'.format(mq, n, Smat, bits(s)), v, nontrivial=False,
                         meta={'kind': 'naive', 'code': list(spec), 'decoder': ['Naive', {'max_qubits': mq}],
                               'syndrome': bits(s)})
                continue
            if big:
                cases, exh = error_cases(ctx, spec, exhaustive_rank=0, n_random=(3 if q else 12), singles=False)
                cases = cases[:(4 if q else 13)]
            else:
                cases, exh = error_cases(ctx, spec, exhaustive_rank=6 if (q or mq is not None) else 8,
                                         n_random=(10 if q else 40), singles=True)
                if not exh and q:
                    cases = ctx.rng.sample(cases, 16)
            batch = []
            for e, s, _ in cases:
                r = evaluate(ctx, acc, spec, dspec, ctx.rng.choice(EMS_ANY), ctx.rng.choice(PS), e, s, exhaustive=exh)
                if r is not None and not big:  # the 8- and 9-qubit codes are tied over ALL their syndromes by run_naive_all
                    batch.append((bits(s), 'ok ' + bits(r)))
            if batch:
                # one driver call per (code, max_qubits): the model's candidate list is built once (naive_full_all_eq)
                ctx.case('c02 naiveall {} {} {} {}'.format('N' if mq is None else mq, n, Smat,
                                                           ';'.join(t for t, _ in batch)),
                         ';'.join(v for _, v in batch), nontrivial=True,
                         meta={'kind': 'naive', 'code': list(spec), 'decoder': ['Naive', {'max_qubits': mq}],
                               'syndromes': [t for t, _ in batch]})
        # vectors that are NOT syndromes (toric: odd parity): the loop falls through and returns None — tie only
        if spec[0] == 'toric' and not q:
            s = np.zeros(S.shape[0], dtype=int); s[0] = 1
            r = dec_of(D('Naive', max_qubits=None)).decode(code, s)
            ctx.case('c02 naive N {} {} {}'.format(n, Smat, bits(s)), 'None' if r is None else 'ok ' + bits(r),
                     nontrivial=False, meta={'kind': 'naive-nonsyndrome'})


def naive_family_codes(lo, hi):
    """every code of every family (basic, planar, toric, rotated planar, rotated toric, colour) with lo <= n <= hi qubits"""
    cands = [(5, ('five',)), (7, ('steane',))]
    for r in range(2, hi + 1):
        for c in range(2, hi + 1):
            cands.append((2 * r * c - r - c + 1, ('planar', r, c)))
            cands.append((2 * r * c, ('toric', r, c)))
            if r >= 3 and c >= 3:
                cands.append((r * c, ('rplanar', r, c)))
            if r % 2 == 0 and c % 2 == 0:
                cands.append((r * c, ('rtoric', r, c)))
    for L in range(3, hi + 1, 2):
        cands.append(((3 * L * L + 1) // 4, ('color', L)))
    out = []
    for n, spec in sorted(cands):
        if lo <= n <= hi:
            code, S, _ = code_of(spec)
            if code.n_k_d[0] != n or S.shape[1] != 2 * n:
                raise core.Infra('qubit count of {} is {} (expected {})'.format(spec, code.n_k_d[0], n))
            out.append(spec)
    return out


def covering_depths(S):
    """{syndrome (big-endian int): least weight of a Pauli with that syndrome} over the whole image of the syndrome map —
    breadth-first over the single-qubit Paulis' syndromes (own arithmetic; two factors on one qubit merge, so the number
    of steps is the weight). The largest value is the depth the decoder's ascending-weight search must reach."""
    n = S.shape[1] // 2
    gens = []
    for q in range(n):
        for x, z in ((1, 0), (0, 1), (1, 1)):
            e = np.zeros(2 * n, dtype=int); e[q] = x; e[n + q] = z
            gens.append(int(bits(py_synd(S, e)), 2) if S.shape[0] else 0)
    dist, frontier, d = {0: 0}, [0], 0
    while frontier:
        d += 1
        nxt = []
        for a in frontier:
            for g in gens:
                b = a ^ g
                if b not in dist:
                    dist[b] = d
                    nxt.append(b)
        frontier = nxt
    return dist


NAIVE_LIMIT = 10  # NaiveDecoder's default max_qubits: the decoder's stated domain


def run_naive_all(ctx, acc):
    """the naive decoder on ALL 2^(n-k) syndromes of EVERY code of every family inside its default qubit limit (not only
    the basic codes, not only syndromes of light errors): most syndromes of a lattice code are reached at weight <= d, a
    few only deeper (covering depth > distance: Planar 2x3 15 of 128, Toric 2x2 4 of 64, Rotated planar 3x3 16 of 256),
    so a search that stops early shows only there. Each decode goes through the property's monitor (evaluate) and ALL
    answers of one (code, max_qubits) are compared with the Lean model in one driver call (`naiveall` =
    naiveDecodeFullAll, `naive_full_all_eq`: the single-syndrome model mapped over the list).
    quick: every code with n <= 8 on all syndromes with the default limit; the 9-qubit code on all syndromes of depth
    <= 2 and a seed-rotated part of each deeper stratum. thorough: all of them on all syndromes x max_qubits in
    {default, None, n, 0}; and the 11..13-qubit codes (outside the default limit: max_qubits None / n; no Lean
    evaluation — the model's candidate list has 4^n entries) on a sample of every depth stratum incl. the deepest."""
    q = ctx.quick()
    rng = pyrandom.Random('c02-naive-all-{}'.format(ctx.seed))  # own stream: the sections after this one keep theirs
    tally = ctx.extra.setdefault('naive_all', {})

    def sweep(spec, mq, cases, lean, exh):
        code, S, Smat = code_of(spec)
        n = S.shape[1] // 2
        dspec = D('Naive', max_qubits=mq)
        d = acc.note('Naive', exh)
        ss, replies = [], []
        for e, s in cases:
            t_before = d['timeouts']
            r = evaluate(ctx, acc, spec, dspec, rng.choice(EMS_ANY), rng.choice(PS), e, s, exhaustive=exh)
            if r is None and d['timeouts'] > t_before:
                continue  # counted, not judged
            ss.append(bits(s))
            try:
                replies.append('ok ' + bits(r) if r is not None else 'no-recovery')
            except Exception:  # noqa: BLE001 - already reported by the monitor
                replies.append('malformed')
        if lean and ss:
            ctx.case('c02 naiveall {} {} {} {}'.format('N' if mq is None else mq, n, Smat, ';'.join(ss)),
                     ';'.join(replies), nontrivial=True,
                     meta={'kind': 'naive', 'code': list(spec), 'decoder': ['Naive', {'max_qubits': mq}],
                           'syndromes': ss})

    for spec in naive_family_codes(1, NAIVE_LIMIT) + ([] if q else naive_family_codes(NAIVE_LIMIT + 1, 13)):
        code, S, _ = code_of(spec)
        n = S.shape[1] // 2
        inside = n <= NAIVE_LIMIT
        cases, exh = error_cases(ctx, spec, exhaustive_rank=13)
        if not exh:
            raise core.Infra('syndrome space of {} not enumerated'.format(spec))
        depth = covering_depths(S)
        if len(depth) != len(cases):
            raise core.Infra('{}: {} syndromes enumerated, {} reached breadth-first'.format(spec, len(cases), len(depth)))
        strata = {}
        for e, s, _ in cases:
            strata.setdefault(depth[int(bits(s), 2) if len(s) else 0], []).append((e, s))
        top, dist = max(strata), code.n_k_d[2]
        tally['x'.join(map(str, spec))] = {'n': n, 'distance': dist, 'syndromes': len(cases),
                                             'by_depth': {str(k): len(v) for k, v in sorted(strata.items())}}
        full = inside and (not q or n <= 8)
        if full:
            chosen = [c for k in sorted(strata) for c in strata[k]]
        else:
            chosen = []
            for k in sorted(strata):
                v = strata[k]
                if inside:   # quick, 9 qubits: cost grows as 3^k C(n, k)
                    m = len(v) if k <= 2 else max(4, len(v) // (3 if k == 3 else 4))
                else:        # thorough, 11..13 qubits (a depth-5 decode on 12 qubits scans 2.4e5 candidates)
                    m = 6 if k <= 3 else (4 if k == 4 else 2)
                chosen += rng.sample(v, min(m, len(v)))
        for e, s in chosen:
            ctx.count('naive_depth', '{}:{}{}'.format('x'.join(map(str, spec)), depth[int(bits(s), 2) if len(s) else 0],
                                                      '>d' if depth[int(bits(s), 2) if len(s) else 0] > dist else ''))
        if inside:
            mqs = [NAIVE_LIMIT] if q else [NAIVE_LIMIT, None, n, 0]
        else:
            mqs = [None, n]
        for i, mq in enumerate(mqs):
            sweep(spec, mq, chosen if (inside or i == 0) else chosen[::3], lean=inside, exh=full)
        if inside and not q:
            # one below the code's size: the documented ValueError, for every syndrome alike (tie only)
            ss = [bits(s) for _, s in chosen[:8]]
            out = []
            for _, s in chosen[:8]:
                try:
                    dec_of(D('Naive', max_qubits=n - 1)).decode(code, s)
                    out.append('no-error')
                except ValueError:
                    out.append('ValueError')
            ctx.case('c02 naiveall {} {} {} {}'.format(n - 1, n, code_of(spec)[2], ';'.join(ss)), ';'.join(out),
                     nontrivial=False, meta={'kind': 'naive-blocked'})


# ------------------------------------------------------------------------------------------ entry points

def limit_blas_threads():
    """best effort: one BLAS thread (tiny matrices; 16 spinning threads on a shared machine cost minutes of sys time).
    Only the tensor-network coset choice could depend on it, which C02 does not."""
    import ctypes
    import re
    try:
        import scipy.linalg  # noqa: F401  (loads its own copy of the library, if any)
    except Exception:  # noqa: BLE001
        pass
    libs = set()
    try:
        for line in open('/proc/self/maps'):
            m = re.search(r'(/\S*openblas\S*\.so\S*)', line)
            if m:
                libs.add(m.group(1))
    except OSError:
        return
    for p in libs:
        try:
            L = ctypes.CDLL(p)
        except OSError:
            continue
        for name in ('scipy_openblas_set_num_threads64_', 'scipy_openblas_set_num_threads', 'openblas_set_num_threads64_',
                     'openblas_set_num_threads'):
            f = getattr(L, name, None)
            if f is not None:
                f(1)
                break


def _timed(ctx, name, f, *a):
    import time
    t = time.time()
    f(*a)
    ctx.extra.setdefault('section_wall_s', {})[name] = round(time.time() - t, 1)
    if os.environ.get('QV_C02_TIMING'):
        print('[c02] {} {:.1f}s evaluations={}'.format(name, time.time() - t, ctx.evaluations), flush=True)


def run(ctx):
    pyrandom.seed(ctx.rng.getrandbits(32))  # PlanarYDecoder breaks coset ties with the global `random`
    limit_blas_threads()
    acc = Acc(ctx)
    with Recorder() as rec:
        _timed(ctx, 'sample_ties', run_sample_ties, ctx, acc)
        _timed(ctx, 'planar_mwpm', run_planar_mwpm, ctx, acc, rec)
        _timed(ctx, 'toric_mwpm', run_toric_mwpm, ctx, acc, rec)
        _timed(ctx, 'planar_cmwpm', run_planar_cmwpm, ctx, acc, rec)
        _timed(ctx, 'lattice_grid', run_lattice_grid, ctx, acc, rec)
    _timed(ctx, 'naive', run_naive, ctx, acc)
    _timed(ctx, 'naive_all', run_naive_all, ctx, acc)
    _timed(ctx, 'planar_y', run_planar_y, ctx, acc)
    _timed(ctx, 'smwpm', run_smwpm, ctx, acc)
    _timed(ctx, 'tn', run_tn, ctx, acc)
    acc.flush()
    _timed(ctx, 'driver_flush', ctx.flush)
    ctx.explored = {}
    for name, d in sorted(acc.by_decoder.items()):
        ctx.explored[name] = {
            'evaluations': d['evaluations'], 'timeouts': d['timeouts'], 'parameterisations': len(d['configs']),
            'exhaustive': False, 'exhaustive_over_all_syndromes_of': sorted(d['exhaustive_codes'])[:40],
            'rule': 'real decode with run_once-style context kwargs; monitor synd(S, recovery) == syndrome evaluated in '
                    'Python and by the Lean driver (recoveryOkN); never-raises / never-None observed'}
    ctx.extra['timeouts'] = {k: v['timeouts'] for k, v in acc.by_decoder.items() if v['timeouts']}
    ctx.assumptions = [
        'gt.mwpm (networkx max_weight_matching; Blossom V absent) returns a perfect matching of the graph it is given '
        '(C13) — re-checked on every recorded call with isPerfectMatchingOfGraph',
        'C15 path/endpoint facts and C07 commutation facts enter the C02 theorems as named hypotheses (PathSpec / '
        'RunSpec structures)',
        'tensor-network contraction (numpy/LAPACK/mpmath) only selects the coset; irrelevant to C02 by '
        'times_logical_keeps_syndrome; checked literally per decode (coset op)',
        'SMWPM x2: the recovery construction (graphs, clustering, paths) IS modelled and proved for any perfect '
        'matchings (Props/C02/Smwpm.lean, SmwpmToric.lean); edge WEIGHTS and the matching algorithm are not (irrelevant to '
        'C02). PlanarY: construction modelled (Model/PlanarY.lean) and proved for R >= C with gcd != 1; remaining cases tied '
        'exactly and explored through the verified monitor',
    ]
    # the two symmetry-matching decoders: recovery construction inside the model (Model/Smwpm.lean, Props/C02/Smwpm*.lean)
    from qv import c02_smwpm
    sm = c02_smwpm.cases(ctx)
    ctx.explored['smwpm_model_tie'] = {
        'evaluations': int(sm.get('decodes', 0)), 'exhaustive': False,
        'rule': 'RotatedPlanarSMWPMDecoder / RotatedToricSMWPMDecoder: recorded graph nodes and edges, matchings, clusters, '
                'cluster graph, both recovery stages and the final recovery compared exactly with Model/Smwpm.lean given '
                'the recorded matchings; _path_operator over all pairs'}
    # planar Y decoder: construction inside the model (Model/PlanarY.lean, Props/C02/PlanarY*.lean)
    from qv import c02_planary
    before = ctx.evaluations
    c02_planary.cases(ctx)
    from qv import c02_stepgrid
    sg = c02_stepgrid.cases(ctx)
    ctx.explored['cmwpm_stepgrid_tie'] = {
        'evaluations': int(sg['grids'] + sg['distances']), 'exhaustive': False,
        'rule': 'StepGrid.set_background (all four box shapes, real / virtual / both-virtual matched pairs, set or list) and '
                'StepGrid.distance (algorithms 1, 2, 4) of PlanarCMWPMDecoder on random planar sizes: every grid cell and '
                'every distance compared exactly (fractions) with Model/StepGrid.lean (theorems: Props/C02/StepGrid.lean); '
                'grids={grids} distances={distances}'.format(**sg)}
    ctx.explored['planary_model_tie'] = {
        'evaluations': ctx.evaluations - before, 'exhaustive': False,
        'rule': 'PlanarYDecoder: snake fills, partial recoveries, destabilisers, the whole residual look-up table, y-stabilizers, '
                'y-logical and _sample_recovery on Y-only errors compared bit for bit with Model/PlanarY.lean'}
    ctx.exhaustive = False
    return ctx.finish(RULE, search=search,
                      explanation='modelled constructions proved in Lean under named C15/C07 hypotheses and tied by exact '
                                  'comparison; all 12 registered decoders additionally explored through the verified '
                                  'monitor (see coverage.explored)')


def check_recipe(recipe):
    """evaluate the property on the real code for one recorded recipe; returns None or a description"""
    spec = tuple(recipe['code'])
    code, S, _ = code_of(spec)
    dspec = (recipe['decoder'][0], tuple(sorted(recipe['decoder'][1].items())))
    P = lambda t: np.array([int(c) for c in t], dtype=int) if t != '_' else np.array([], dtype=int)  # noqa: E731
    s = P(recipe['syndrome'])
    e = P(recipe['error']) if recipe.get('error') else np.zeros(S.shape[1], dtype=int)
    em = mk_em(tuple(recipe.get('error_model', ['dep'])))
    p = recipe.get('p', 0.1)
    status, r = decode_once(code, mk_decoder(dspec), s, em, p, e)
    if status == 'timeout':
        return None
    if status != 'ok':
        return 'decode {}'.format(status)
    ok, why = judge(S, s, r)
    return None if ok else why


_SM_DONE = set()


def search_smwpm(meta, budget_s=90.0):
    """a correspondence break of one of the symmetry-matching decoders (c02_smwpm: graph / clusters / corners / path /
    recovery differs from the model): look for an input on which the real decode violates the property — the recorded
    size first, then its transpose and the whole shape grid (a corner / path slip may be harmless on one shape and not
    on another), rim-localised then random errors, finite- and infinite-bias contexts"""
    import time
    t0 = time.time()
    toric = bool(meta.get('toric'))
    fam, name = ('rtoric', 'RotatedToricSMWPM') if toric else ('rplanar', 'RotatedPlanarSMWPM')
    size = tuple(meta.get('size') or ())
    grid = [(r, c) for r in range(2 if toric else 3, 9, 2 if toric else 1) for c in range(2 if toric else 3, 9, 2 if toric else 1)]
    grid.sort(key=lambda s: (s[0] * s[1], s))
    sizes = ([size, size[::-1]] if len(size) == 2 else []) + grid
    kws = [{}]
    if isinstance(meta.get('eta'), (int, float)):
        kws.append({'eta': meta['eta']})
    rng = pyrandom.Random(12345)
    # the recorded input itself (ideal decodes only: FTP is C03's)
    if meta.get('ideal') and len(size) == 2 and isinstance(meta.get('rows'), str) and '/' not in meta['rows']:
        recipe = {'code': [fam] + list(size), 'decoder': [name, kws[-1]], 'error_model': list(meta.get('em') or ['dep']),
                  'p': meta.get('p') or 0.1, 'syndrome': meta['rows'], 'error': None}
        why = check_recipe(recipe)
        if why:
            return {'what': 'C02 fails on the real code: ' + why, 'input': recipe}
    done = _SM_DONE  # finish() calls search once per mismatch: the sweep of a (size, context) is made once per run
    kwkey = json.dumps(kws, sort_keys=True)
    for pass_ in ('localised', 'random'):
        for sz in sizes:
            if (fam, kwkey, pass_, sz) in done:
                continue
            done.add((fam, kwkey, pass_, sz))
            spec = (fam,) + tuple(sz)
            try:
                code, S, _ = code_of(spec)
            except Exception:  # noqa: BLE001 - not a valid size
                continue
            n = S.shape[1] // 2
            for yonly in (False, True):
                if pass_ == 'localised':
                    errs = [e for e, _ in localised_errors(spec, yonly=yonly)]
                else:
                    errs = [random_error(rng, n, rng.randint(1, max(1, n // 2)), yonly) for _ in range(60)]
                for kw in (kws if not yonly else [{}]):
                    for em in ([['bpf']] if yonly else [['bdep', 10, 'Y'], ['dep']]):
                        for e in errs:
                            if time.time() - t0 > budget_s:
                                return None
                            recipe = {'code': list(spec), 'decoder': [name, kw], 'error_model': em, 'p': 0.1,
                                      'syndrome': bits(py_synd(S, e)), 'error': bits(e)}
                            why = check_recipe(recipe)
                            if why:
                                return {'what': 'C02 fails on the real code: ' + why, 'input': recipe}
    return None


def search(m):
    """is the PROPERTY false on the real code for the disagreeing case or its neighbourhood?"""
    meta = m.get('meta') or {}
    if str(meta.get('kind', '')).startswith('smwpm'):
        return search_smwpm(meta)
    if 'code' not in meta or 'decoder' not in meta:
        return None
    spec = tuple(meta['code'])
    code, S, _ = code_of(spec)
    base = {'code': list(spec), 'decoder': meta['decoder'], 'error_model': ['dep'], 'p': 0.1}
    if meta['decoder'][0] in ('RotatedPlanarSMWPM', 'RotatedToricSMWPM'):
        base['error_model'] = ['bdep', 10, 'Y']
    if meta['decoder'][0] == 'PlanarCMWPM' and meta['decoder'][1].get('max_iterations', 4) == 0:
        return None  # known finding D2 is reported through the monitor with its own key
    cands = []
    if meta.get('syndrome'):
        cands.append((meta['syndrome'], meta.get('error')))
    for t in meta.get('syndromes') or []:  # a batched tie (naiveall): every syndrome of the batch
        cands.append((t, None))
    n = S.shape[1] // 2
    yonly = meta['decoder'][0] == 'PlanarY'
    us = unit_errors(n, yonly)
    for e in us:
        cands.append((bits(py_synd(S, e)), bits(e)))
    if spec[0] in ('planar', 'toric', 'rplanar', 'rtoric'):
        for e, _ in localised_errors(spec, yonly=yonly):
            cands.append((bits(py_synd(S, e)), bits(e)))
    rng = pyrandom.Random(12345)
    for _ in range(200):
        a, b = rng.sample(range(len(us)), 2)
        e = us[a] ^ us[b]
        cands.append((bits(py_synd(S, e)), bits(e)))
    for _ in range(100):
        e = random_error(rng, n, rng.randint(1, n), yonly)
        cands.append((bits(py_synd(S, e)), bits(e)))
    for s, e in cands:
        recipe = dict(base, syndrome=s, error=e)
        why = check_recipe(recipe)
        if why:
            return {'what': 'C02 fails on the real code: ' + why, 'input': recipe}
    return None


def replay(ctx, path):
    body = json.load(open(path))
    bad = 0
    for v in body.get('violations', []):
        c = v.get('counterexample') or {}
        recipe = c.get('input')
        if recipe and 'code' in recipe:
            why = check_recipe(recipe)
            print('replay', json.dumps(recipe)[:300], '->', why)
            bad += bool(why)
        elif v.get('first_mismatch'):
            r = search(v['first_mismatch'])
            print('replay', v['first_mismatch']['op'][:160], '->', r)
            bad += bool(r)
    if bad:
        print('VIOLATION property=C02 replay={}'.format(path))
    return 1 if bad else 0
