"""C02 — every decoder's recovery reproduces the syndrome.

What is a THEOREM (Props/C02.lean, about Model/Decoders.lean, all lattice sizes / syndromes / matchings):
  pairing_theorem / pairing_parity (XOR of paths over a list of pairs has syndrome = parity of endpoint
  occurrences, generic over a lattice interface), planar_mwpm_syndrome + planar_graph_has_pm + planar_mwpm_total,
  planar_cmwpm_syndrome (max_iterations >= 1), toric_mwpm_syndrome + toric_graph_has_pm (even defect count as
  hypothesis), planar / rotated-planar / colour sample_recovery, times_logical_keeps_syndrome, naive_syndrome /
  naive_complete / naive_full, recoveryOk_sound / recoveryOkN_iff — with the C15 path/endpoint facts, the
  run-to-boundary lemmas and C07 commutation facts as named hypotheses (PlanarL.Spec, ToricL.Spec,
  RotatedPlanarL.Spec, Color666L.Spec).
What TIES the model to /repo/src (part a, exact comparison on every run):
  `sample_recovery(code, syndrome)` of the six tensor-network decoder classes; the final recovery of PlanarMWPM,
  PlanarCMWPM, ToricMWPM given the RECORDED return value of `gt.mwpm` (monkeypatched from outside), the recorded
  graphs (nodes, edges, weights) against the modelled graphs, the recorded matching against
  `isPerfectMatchingOfGraph`; CMWPM's `StepGrid.mwpm` post-processing; the tensor-network decoders' answer is
  literally sample x one of the four logical cosets; NaiveDecoder against `naiveDecode`.
What is EXPLORED (part b, ctx.explored): the real `decode` of EVERY registered decoder on real syndromes with
  context kwargs as `app.run_once` passes them, through the verified monitor `recoveryOk` evaluated both in Python
  (independent arithmetic) and by the Lean driver on the real output; never-raises / never-None observed directly;
  every decode under a time limit (a timeout is counted, not a violation).
Known finding D2: PlanarCMWPMDecoder(max_iterations=0) — reported with key 'PlanarCMWPMDecoder.max_iterations=0'.
"""
import itertools
import json
import os
import random as pyrandom

import numpy as np

from qv import core
from qv.core import bits, mat

LEVEL = 'proof'
KEY_D2 = 'PlanarCMWPMDecoder.max_iterations=0'
TL = 20.0  # seconds per real decode

RULE = ('(a) modelled constructions: for every lattice size up to the tier bound x (all syndromes when the syndrome '
        'space is small, else all single / sampled double defects + random errors of spread weights): sample_recovery '
        'of planar MPS/RMPS, rotated planar MPS/RMPS, colour MPS; PlanarMWPM / PlanarCMWPM (parameter grid) / ToricMWPM '
        'final recovery from the recorded gt.mwpm result, recorded graph vs modelled graph, recorded matching vs '
        'isPerfectMatchingOfGraph; TN answer = sample x logical coset; NaiveDecoder — all compared exactly with the '
        'Lean model. (b) every registered decoder x parameterisations x context (error model, probability in (0,1)): '
        'real decode, monitor synd(S, recovery) == syndrome in Python and in Lean (one protocol line per batch). '
        'non-trivial = syndrome not all-zero; distinct = distinct protocol lines')


# ------------------------------------------------------------------------------------------ specs -> objects

def mk_code(spec):
    k = spec[0]
    if k == 'planar':
        from qecsim.models.planar import PlanarCode
        return PlanarCode(spec[1], spec[2])
    if k == 'toric':
        from qecsim.models.toric import ToricCode
        return ToricCode(spec[1], spec[2])
    if k == 'rplanar':
        from qecsim.models.rotatedplanar import RotatedPlanarCode
        return RotatedPlanarCode(spec[1], spec[2])
    if k == 'rtoric':
        from qecsim.models.rotatedtoric import RotatedToricCode
        return RotatedToricCode(spec[1], spec[2])
    if k == 'color':
        from qecsim.models.color import Color666Code
        return Color666Code(spec[1])
    if k == 'five':
        from qecsim.models.basic import FiveQubitCode
        return FiveQubitCode()
    if k == 'steane':
        from qecsim.models.basic import SteaneCode
        return SteaneCode()
    raise ValueError(spec)


_CODES = {}


def code_of(spec):
    t = tuple(spec)
    if t not in _CODES:
        c = mk_code(t)
        S = np.array(c.stabilizers, dtype=int)
        _CODES[t] = (c, S, mat(S))
    return _CODES[t]


def mk_decoder(spec):
    name, kw = spec[0], dict(spec[1])
    import qecsim.models.planar as P
    import qecsim.models.toric as T
    import qecsim.models.rotatedplanar as RP
    import qecsim.models.rotatedtoric as RT
    import qecsim.models.color as CO
    import qecsim.models.generic as G
    cls = {'PlanarMWPM': P.PlanarMWPMDecoder, 'PlanarCMWPM': P.PlanarCMWPMDecoder, 'PlanarMPS': P.PlanarMPSDecoder,
           'PlanarRMPS': P.PlanarRMPSDecoder, 'PlanarY': P.PlanarYDecoder, 'ToricMWPM': T.ToricMWPMDecoder,
           'RotatedPlanarMPS': RP.RotatedPlanarMPSDecoder, 'RotatedPlanarRMPS': RP.RotatedPlanarRMPSDecoder,
           'RotatedPlanarSMWPM': RP.RotatedPlanarSMWPMDecoder, 'RotatedToricSMWPM': RT.RotatedToricSMWPMDecoder,
           'Color666MPS': CO.Color666MPSDecoder, 'Naive': G.NaiveDecoder}[name]
    return cls(**kw)


def mk_em(spec):
    import qecsim.models.generic as G
    k = spec[0]
    if k == 'dep':
        return G.DepolarizingErrorModel()
    if k == 'bf':
        return G.BitFlipErrorModel()
    if k == 'pf':
        return G.PhaseFlipErrorModel()
    if k == 'bpf':
        return G.BitPhaseFlipErrorModel()
    if k == 'bdep':
        return G.BiasedDepolarizingErrorModel(spec[1], spec[2])
    if k == 'byx':
        return G.BiasedYXErrorModel(spec[1])
    if k == 'cs':
        return G.CenterSliceErrorModel(tuple(spec[1]), spec[2])
    raise ValueError(spec)


EMS_ANY = [('dep',), ('bf',), ('pf',), ('bpf',), ('bdep', 10, 'Y'), ('bdep', 0.5, 'Z'), ('bdep', 3, 'X'), ('byx', 5),
           ('cs', (0, 1, 1), 0.5), ('cs', (1, 0, 0), -0.3)]
# contexts with a positive finite bias p_y / (p_x + p_z) (SMWPM domain for arbitrary Pauli errors)
EMS_FINITE_BIAS = [('dep',), ('bdep', 10, 'Y'), ('bdep', 0.5, 'Y'), ('bdep', 300, 'Y'), ('bdep', 3, 'X'),
                   ('bdep', 2, 'Z')]
PS = [0.001, 0.01, 0.1, 0.15, 0.3, 0.5, 0.75, 0.9, 0.999]


# ------------------------------------------------------------------------------------------ independent GF(2)

def py_synd(S, r):
    """syndrome of r against the stabilizer rows S — own arithmetic, not paulitools"""
    n = S.shape[1] // 2
    r = np.asarray(r, dtype=int)
    return (S[:, n:].dot(r[:n]) + S[:, :n].dot(r[n:])) % 2


def unit_errors(n, yonly=False):
    out = []
    for q in range(n):
        if yonly:
            e = np.zeros(2 * n, dtype=int); e[q] = 1; e[n + q] = 1; out.append(e)
        else:
            e = np.zeros(2 * n, dtype=int); e[q] = 1; out.append(e)
            e = np.zeros(2 * n, dtype=int); e[n + q] = 1; out.append(e)
    return out


def syndrome_basis(S, gens):
    """independent (syndrome-mask, error) pairs spanning {synd(e) : e in span gens}"""
    basis = []
    for e in gens:
        s = int(''.join(str(int(x)) for x in py_synd(S, e)), 2) if S.shape[0] else 0
        ee = e.copy()
        for pb, ps, pe in basis:
            if (s >> pb) & 1:
                s ^= ps; ee = ee ^ pe
        if s:
            pb = s.bit_length() - 1
            # keep earlier rows reduced too (not needed for enumeration)
            basis.append((pb, s, ee))
    return basis


def random_error(rng, n, w, yonly=False):
    e = np.zeros(2 * n, dtype=int)
    for q in rng.sample(range(n), w):
        op = 'Y' if yonly else rng.choice('XYZ')
        if op in 'XY':
            e[q] = 1
        if op in 'ZY':
            e[n + q] = 1
    return e


def error_cases(ctx, spec, yonly=False, exhaustive_rank=8, n_random=20, singles=True, doubles=0):
    """yield (error, syndrome, kind); exhaustive over the whole syndrome space when its dimension is small"""
    code, S, _ = code_of(spec)
    n = S.shape[1] // 2
    rng = ctx.rng
    basis = syndrome_basis(S, unit_errors(n, yonly))
    out = []
    if len(basis) <= exhaustive_rank:
        for mask in range(1 << len(basis)):
            e = np.zeros(2 * n, dtype=int)
            for i, (_, _, be) in enumerate(basis):
                if (mask >> i) & 1:
                    e = e ^ be
            out.append((e, py_synd(S, e), 'exhaustive'))
        return out, True
    out.append((np.zeros(2 * n, dtype=int), py_synd(S, np.zeros(2 * n, dtype=int)), 'zero'))
    if singles:
        us = unit_errors(n, yonly) + ([] if yonly else unit_errors(n, True))
        for e in us:
            out.append((e, py_synd(S, e), 'w1'))
    if doubles:
        us = unit_errors(n, yonly)
        for _ in range(doubles):
            a, b = rng.sample(range(len(us)), 2)
            e = us[a] ^ us[b]
            out.append((e, py_synd(S, e), 'w2'))
    # random errors of every weight class (spread over 0..n)
    ws = sorted(set([1, 2, 3, n // 4, n // 2, (3 * n) // 4, n - 1, n] + [rng.randint(0, n) for _ in range(n_random)]))
    ws = [w for w in ws if 0 <= w <= n]
    for i in range(n_random):
        w = ws[i % len(ws)]
        e = random_error(rng, n, w, yonly)
        out.append((e, py_synd(S, e), 'random'))
    return out, False


def defect_syndromes(ctx, m, max_pairs):
    """all single-defect and (sampled) double-defect syndrome VECTORS of length m"""
    out = []
    for i in range(m):
        s = np.zeros(m, dtype=int); s[i] = 1; out.append(s)
    pairs = list(itertools.combinations(range(m), 2))
    if len(pairs) > max_pairs:
        pairs = ctx.rng.sample(pairs, max_pairs)
    for i, j in pairs:
        s = np.zeros(m, dtype=int); s[i] = 1; s[j] = 1; out.append(s)
    return out


# ------------------------------------------------------------------------------------------ recording gt.mwpm

class Recorder:
    """records what `qecsim.graphtools.mwpm` is called with and returns (no /repo edits)"""

    def __init__(self):
        import qecsim.graphtools as gt
        from qecsim.models.planar import PlanarCMWPMDecoder
        self.gt = gt
        self.SG = PlanarCMWPMDecoder.StepGrid
        self.calls = []       # (graph copy (list of ((a, b), w)), result list)
        self.grid_calls = []  # CMWPM: dicts
        self.memo = {}

    def __enter__(self):
        self.orig = self.gt.mwpm
        self.orig_sg = self.SG.__dict__['mwpm']
        rec = self

        def mwpm(graph):
            res = rec.orig(graph)
            rec.calls.append((list(graph.items()), list(res)))
            return res

        def sg_mwpm(grid, matched_indices, syndrome_indices, **kw):
            before = len(rec.calls)
            res = rec.orig_sg.__get__(grid, type(grid))(matched_indices, syndrome_indices, **kw)
            key = (id(grid), matched_indices, syndrome_indices, tuple(sorted(kw.items())))
            if len(rec.calls) > before:
                rec.memo[key] = rec.calls[-1]
            rec.grid_calls.append({'syndrome_indices': syndrome_indices, 'result': res, 'gt': rec.memo.get(key)})
            return res

        self.gt.mwpm = mwpm
        self.SG.mwpm = sg_mwpm
        return self

    def __exit__(self, *a):
        self.gt.mwpm = self.orig
        self.SG.mwpm = self.orig_sg
        return False

    def reset(self):
        self.calls = []; self.grid_calls = []; self.memo = {}


def idx2(i):
    return '{},{}'.format(int(i[0]), int(i[1]))


def idx3(i):
    return '{},{},{}'.format(int(i[0]), int(i[1]), int(i[2]))


def canon_wedges(txt):
    """canonical form of `a>b@w;…`: endpoints of each edge sorted, list sorted"""
    if txt == '_':
        return '_'
    out = []
    for e in txt.split(';'):
        ab, w = e.split('@')
        a, b = ab.split('>')
        ta, tb = sorted([tuple(int(x) for x in a.split(',')), tuple(int(x) for x in b.split(','))])
        out.append((ta, tb, int(w)))
    out.sort()
    return ';'.join('{}>{}@{}'.format(','.join(map(str, a)), ','.join(map(str, b)), w) for a, b, w in out)


def canon_pairs(txt):
    if txt == '_':
        return '_'
    out = []
    for e in txt.split(';'):
        a, b = e.split('>')
        out.append(tuple(sorted([a, b], key=lambda t: (t[0] if t[0] in 'dv' else '', [int(x) for x in
                                                                                           t.split(':')[-1].split(',')]))))
    out.sort(key=lambda p: [(t[0] if t[0] in 'dv' else '', [int(x) for x in t.split(':')[-1].split(',')]) for t in p])
    return ';'.join('{}>{}'.format(a, b) for a, b in out)


def post_graph(reply):
    """model reply `P=<edges> D=<edges>` -> canonical"""
    p, d = reply.split(' ')
    f = canon_wedges if '@' in reply else canon_pairs
    return 'P={} D={}'.format(f(p[2:]), f(d[2:]))


def post_cmwpm(reply):
    toks = reply.split(' ')
    if len(toks) != 4:
        return reply
    return '{} {} P={} D={}'.format(toks[0], toks[1], canon_pairs(toks[2][2:]), canon_pairs(toks[3][2:]))


def graph_txt(items, f):
    return canon_wedges(';'.join('{}>{}@{}'.format(f(a), f(b), int(w)) for (a, b), w in items) or '_')


# ------------------------------------------------------------------------------------------ evaluating the property

class Acc:
    """accumulates part (b) decodes of one (decoder class): counts, Lean monitor batches"""

    def __init__(self, ctx):
        self.ctx = ctx
        self.by_decoder = {}
        self.batches = {}
        self.fail_counts = {}

    def note(self, dname, exhaustive):
        d = self.by_decoder.setdefault(dname, {'evaluations': 0, 'timeouts': 0, 'exhaustive_codes': set(),
                                                'configs': set()})
        return d

    def push(self, spec, s, r, verdict):
        key = tuple(spec)
        b = self.batches.setdefault(key, [])
        b.append((bits(s), bits(r), verdict))
        if len(b) >= 250:
            self.flush_key(key)

    def flush_key(self, key):
        b = self.batches.pop(key, [])
        if not b:
            return
        code, S, Smat = code_of(key)
        n = S.shape[1] // 2
        line = 'c02 monitor {} {} {}'.format(n, Smat, ';'.join('{}:{}'.format(s, r) for s, r, _ in b))
        self.ctx.case(line, ''.join('1' if v else '0' for _, _, v in b),
                      nontrivial=any('1' in s for s, _, _ in b), meta={'kind': 'monitor', 'code': list(key)})

    def flush(self):
        for key in list(self.batches):
            self.flush_key(key)


def decode_once(code, dec, syndrome, em, p, error):
    """returns (status, recovery) — status in ok | timeout | raise:<T> | none"""
    kw = {'error_model': em, 'error_probability': p, 'error': error, 'step_errors': [error],
          'measurement_error_probability': 0.0, 'step_measurement_errors': [np.zeros(len(syndrome), dtype=int)]}
    try:
        with core.TimeLimit(TL):
            r = dec.decode(code, np.array(syndrome, dtype=int), **kw)
    except core.TimeLimit.Expired:
        return 'timeout', None
    except Exception as ex:  # noqa: BLE001 - the property says decoding never raises
        return 'raise:{}: {}'.format(type(ex).__name__, str(ex)[:120]), None
    if r is None:
        return 'none', None
    if hasattr(r, 'recovery'):  # DecodeResult
        r = r.recovery
        if r is None:
            return 'none', None
    return 'ok', r


def judge(S, syndrome, r):
    """the property's predicate on a returned recovery: (ok, reason)"""
    try:
        a = np.asarray(r)
    except Exception:  # noqa: BLE001
        return False, 'not an array'
    if a.ndim != 1 or a.shape[0] != S.shape[1]:
        return False, 'wrong shape {}'.format(a.shape)
    if not np.all((a == 0) | (a == 1)):
        return False, 'not binary'
    if not np.array_equal(py_synd(S, a.astype(int)), np.asarray(syndrome, dtype=int)):
        return False, 'syndrome of recovery differs from the syndrome'
    return True, ''


def evaluate(ctx, acc, spec, dspec, emspec, p, error, syndrome, exhaustive=False):
    """one real decode through both monitors; returns the recovery (or None)"""
    code, S, _ = code_of(spec)
    dec = dec_of(dspec)
    em = mk_em(emspec)
    status, r = decode_once(code, dec, syndrome, em, p, error)
    dname = dspec[0]
    d = acc.note(dname, exhaustive)
    d['configs'].add(json.dumps([dspec[1], list(spec[:1])], sort_keys=True, default=str))
    ctx.count('b_decoder', dname)
    ctx.count('b_code', '{}:{}'.format(dname, 'x'.join(map(str, spec[1:])) or spec[0]))
    if status == 'timeout':
        d['timeouts'] += 1
        ctx.count('b_timeouts', dname)
        return None
    d['evaluations'] += 1
    if exhaustive:
        d['exhaustive_codes'].add('x'.join(map(str, spec)))
    recipe = {'code': list(spec), 'decoder': [dspec[0], dict(dspec[1])], 'error_model': list(emspec), 'p': p,
              'error': bits(error), 'syndrome': bits(syndrome)}
    key = None
    if dname == 'PlanarCMWPM' and dict(dspec[1]).get('max_iterations', 4) == 0:
        key = KEY_D2
    if status != 'ok':
        fail(ctx, acc, 'decode {} ({})'.format('returned None' if status == 'none' else 'raised', status), recipe, key)
        return None
    ok, why = judge(S, syndrome, r)
    if not ok:
        fail(ctx, acc, '{}: {}'.format(dname, why), recipe, key)
    a = np.asarray(r)
    if a.ndim == 1 and a.shape[0] == S.shape[1] and np.all((a == 0) | (a == 1)):
        acc.push(spec, syndrome, a.astype(int), ok)
    return r


def fail(ctx, acc, what, recipe, key):
    k = key or what.split(':')[0]
    c = acc.fail_counts.get(k, 0)
    acc.fail_counts[k] = c + 1
    if c < 5:
        ctx.monitor_fail('C02 fails on the real code: ' + what, recipe, key=key)


_DECS = {}


def dec_of(dspec):
    k = json.dumps([dspec[0], dict(dspec[1])], sort_keys=True, default=str)
    if k not in _DECS:
        _DECS[k] = mk_decoder(dspec)
    return _DECS[k]


def D(name, **kw):
    return (name, tuple(sorted(kw.items())))


# ------------------------------------------------------------------------------------------ part (a) + (b) per family

def syndromes_for_tie(ctx, spec, exhaustive_rank, max_pairs, n_random, yonly=False):
    """(syndrome, error) list for the modelled constructions"""
    code, S, _ = code_of(spec)
    n = S.shape[1] // 2
    cases, exh = error_cases(ctx, spec, yonly=yonly, exhaustive_rank=exhaustive_rank, n_random=n_random, singles=True)
    out = [(e, s) for e, s, _ in cases]
    if not exh:
        # all single / sampled double DEFECTS that are genuine syndromes (solved for an error through the basis)
        basis = syndrome_basis(S, unit_errors(n, yonly))
        full = len(basis) == S.shape[0]
        if full:
            bymask = basis
            for s in defect_syndromes(ctx, S.shape[0], max_pairs):
                m = int(''.join(str(int(x)) for x in s), 2)
                e = np.zeros(2 * n, dtype=int)
                for pb, ps, pe in sorted(bymask, key=lambda t: -t[0]):
                    if (m >> pb) & 1:
                        m ^= ps; e = e ^ pe
                if m == 0:
                    out.append((e, s))
    return out, exh


def run_sample_ties(ctx, acc):
    """sample_recovery of the tensor-network decoders vs the model; direct syndrome monitor on each"""
    import qecsim.models.planar as P
    import qecsim.models.rotatedplanar as RP
    import qecsim.models.color as CO
    q = ctx.quick()
    fams = [
        ('planar', [('planar', r, c) for r in range(2, (5 if q else 7) + 1) for c in range(2, (5 if q else 7) + 1)],
         [P.PlanarMPSDecoder, P.PlanarRMPSDecoder], 'planar.sample {} {}', D('PlanarMPS', chi=2)),
        ('rplanar', [('rplanar', r, c) for r in range(3, (6 if q else 8) + 1) for c in range(3, (6 if q else 8) + 1)],
         [RP.RotatedPlanarMPSDecoder, RP.RotatedPlanarRMPSDecoder], 'rplanar.sample {} {}',
         D('RotatedPlanarMPS', chi=2)),
        ('color', [('color', L) for L in ((3, 5, 7) if q else (3, 5, 7, 9, 11))], [CO.Color666MPSDecoder],
         'color.sample {}', D('Color666MPS', chi=2)),
    ]
    for fam, specs, classes, op, dspec in fams:
        for spec in specs:
            code, S, _ = code_of(spec)
            cases, exh = syndromes_for_tie(ctx, spec, 10 if q else 12, 60 if q else 400, 12 if q else 40)
            ctx.count('a_sample_size', '{}:{}{}'.format(fam, 'x'.join(map(str, spec[1:])), ':all' if exh else ''))
            for e, s in cases:
                for cls in classes:
                    try:
                        r = cls.sample_recovery(code, np.array(s, dtype=int)).to_bsf()
                        v = bits(r)
                    except Exception as ex:  # noqa: BLE001
                        v = type(ex).__name__; r = None
                    dname = cls.__name__[:-len('Decoder')]
                    meta = {'kind': 'sample', 'code': list(spec), 'decoder': [dname, dict(dspec[1])],
                            'syndrome': bits(s), 'error': bits(e)}
                    ctx.case('c02 ' + op.format(*spec[1:]) + ' ' + bits(s), v, nontrivial=bool(np.any(s)), meta=meta)
                    if r is not None:
                        ok, why = judge(S, s, r)
                        if not ok:
                            fail(ctx, acc, '{}.sample_recovery: {}'.format(cls.__name__, why),
                                 {'code': list(spec), 'decoder': [dname, dict(dspec[1])], 'error_model': ['dep'],
                                  'p': 0.1, 'error': bits(e), 'syndrome': bits(s)}, None)


def tn_coset_case(ctx, spec, dspec, s, r, sample):
    """the TN decoders' answer is literally sample x {I, X, XZ, Z}"""
    code, S, _ = code_of(spec)
    lx, lz = np.array(code.logical_xs[0], dtype=int), np.array(code.logical_zs[0], dtype=int)
    r = np.asarray(r, dtype=int)
    if np.array_equal(r, sample):
        v = 'I'
    elif np.array_equal(r, sample ^ lx):
        v = 'X'
    elif np.array_equal(r, sample ^ lx ^ lz):
        v = 'Y'
    elif np.array_equal(r, sample ^ lz):
        v = 'Z'
    else:
        v = 'none'
    # the documented construction says one of the four cosets: `none` is a correspondence break
    ctx.case('c02 coset {} {} {} {}'.format(bits(sample), bits(lx), bits(lz), bits(r)), v, nontrivial=bool(np.any(s)),
             meta={'kind': 'coset', 'code': list(spec), 'decoder': [dspec[0], dict(dspec[1])], 'syndrome': bits(s)})
    if v == 'none':
        ctx.case('c02 coset-claim', 'answer is not sample x logical coset: ' + bits(r)[:60],
                 meta={'kind': 'coset', 'code': list(spec), 'decoder': [dspec[0], dict(dspec[1])],
                       'syndrome': bits(s)})


def run_planar_mwpm(ctx, acc, rec):
    q = ctx.quick()
    bound = 5 if q else 8
    dspec = D('PlanarMWPM')
    for R in range(2, bound + 1):
        for C in range(2, bound + 1):
            spec = ('planar', R, C)
            code, S, _ = code_of(spec)
            cases, exh = syndromes_for_tie(ctx, spec, 7 if q else 10, 40 if q else 250, 10 if q else 30)
            ctx.count('a_mwpm_size', 'planar:{}x{}{}'.format(R, C, ':all' if exh else ''))
            for e, s in cases:
                rec.reset()
                em = ctx.rng.choice(EMS_ANY); p = ctx.rng.choice(PS)
                r = evaluate(ctx, acc, spec, dspec, em, p, e, s, exhaustive=exh)
                if r is None or len(rec.calls) != 2:
                    if r is not None:
                        ctx.case('c02 planar.mwpm-calls', 'gt.mwpm called {} times'.format(len(rec.calls)),
                                 meta={'kind': 'mwpm', 'code': list(spec), 'decoder': [dspec[0], {}],
                                       'syndrome': bits(s)})
                    continue
                (gP, mP), (gD, mD) = rec.calls
                meta = {'kind': 'mwpm', 'code': list(spec), 'decoder': [dspec[0], {}], 'syndrome': bits(s),
                        'error': bits(e)}
                pairs = lambda m: ';'.join('{}>{}'.format(idx2(a), idx2(b)) for a, b in m) or '_'  # noqa: E731
                ctx.case('c02 planar.mwpm {} {} {} {} {}'.format(R, C, bits(s), pairs(mP), pairs(mD)),
                         bits(r) + ' pm=11', nontrivial=bool(np.any(s)), meta=meta)
                ctx.case('c02 planar.graph {} {} {}'.format(R, C, bits(s)),
                         'P={} D={}'.format(graph_txt(gP, idx2), graph_txt(gD, idx2)), nontrivial=bool(np.any(s)),
                         meta=meta, post=post_graph)


def run_toric_mwpm(ctx, acc, rec):
    q = ctx.quick()
    bound = 5 if q else 8
    dspec = D('ToricMWPM')
    for R in range(2, bound + 1):
        for C in range(2, bound + 1):
            spec = ('toric', R, C)
            cases, exh = error_cases(ctx, spec, exhaustive_rank=6 if q else 10, n_random=25 if q else 60,
                                     doubles=40 if q else 200)
            ctx.count('a_mwpm_size', 'toric:{}x{}{}'.format(R, C, ':all' if exh else ''))
            for e, s, _ in cases:
                rec.reset()
                em = ctx.rng.choice(EMS_ANY); p = ctx.rng.choice(PS)
                r = evaluate(ctx, acc, spec, dspec, em, p, e, s, exhaustive=exh)
                if r is None or len(rec.calls) != 2:
                    continue
                (g0, m0), (g1, m1) = rec.calls
                meta = {'kind': 'mwpm', 'code': list(spec), 'decoder': [dspec[0], {}], 'syndrome': bits(s),
                        'error': bits(e)}
                pairs = lambda m: ';'.join('{}>{}'.format(idx3(a), idx3(b)) for a, b in m) or '_'  # noqa: E731
                ctx.case('c02 toric.mwpm {} {} {} {} {}'.format(R, C, bits(s), pairs(m0), pairs(m1)),
                         bits(r) + ' pm=11', nontrivial=bool(np.any(s)), meta=meta)
                ctx.case('c02 toric.graph {} {} {}'.format(R, C, bits(s)),
                         'P={} D={}'.format(graph_txt(g0, idx3), graph_txt(g1, idx3)), nontrivial=bool(np.any(s)),
                         meta=meta, post=post_graph)


def cnode_txt(code, graph_items, mates):
    """encode identity-hashed `_Node` objects: d:r,c for a defect node, v:r,c for the private virtual node of (r,c)"""
    owner = {}
    for (a, b), _ in graph_items:
        ia, ib = code.is_in_bounds(a.index), code.is_in_bounds(b.index)
        if ia and not ib:
            owner[id(b)] = a.index
        elif ib and not ia:
            owner[id(a)] = b.index

    def t(x):
        if code.is_in_bounds(x.index):
            return 'd:' + idx2(x.index)
        return 'v:' + idx2(owner[id(x)])
    # identity-hashed nodes: set order and pair orientation depend on object addresses -> canonicalise both
    return (canon_pairs(';'.join('{}>{}'.format(t(a), t(b)) for a, b in mates) or '_'),
            canon_pairs(';'.join('{}>{}'.format(t(a), t(b)) for (a, b), _ in graph_items) or '_'))


def cmwpm_configs(ctx):
    q = ctx.quick()
    out = [D('PlanarCMWPM')]
    for mi in (0, 1, 2, 3, 7):
        out.append(D('PlanarCMWPM', max_iterations=mi))
    for bs in 'trfl':
        for da in (1, 2, 4):
            out.append(D('PlanarCMWPM', box_shape=bs, distance_algorithm=da))
    for f in (0, 0.5, 1, 2, 10.0, 1e200, 1e-200, float('inf')):
        out.append(D('PlanarCMWPM', factor=f, max_iterations=3))
    extra = 6 if q else 40
    for _ in range(extra):
        out.append(D('PlanarCMWPM', factor=ctx.rng.choice([0, 0.25, 1, 3, 3.5, 7, 100]),
                     max_iterations=ctx.rng.choice([1, 2, 3, 4, 5, 9]), box_shape=ctx.rng.choice('trfl'),
                     distance_algorithm=ctx.rng.choice([1, 2, 4])))
    return out


def run_planar_cmwpm(ctx, acc, rec):
    q = ctx.quick()
    sizes = [(2, 2), (2, 3), (3, 2), (3, 3), (2, 5), (4, 3), (4, 4), (5, 5), (3, 6)] if q else \
        [(r, c) for r in range(2, 8) for c in range(2, 8)]
    for dspec in cmwpm_configs(ctx):
        kw = dict(dspec[1])
        mi = kw.get('max_iterations', 4)
        for (R, C) in sizes:
            spec = ('planar', R, C)
            code, S, _ = code_of(spec)
            cases, exh = syndromes_for_tie(ctx, spec, 4 if q else 7, 6 if q else 25, 5 if q else 12)
            if not exh and q:
                cases = ctx.rng.sample(cases, min(len(cases), 14))
            elif not exh:
                cases = ctx.rng.sample(cases, min(len(cases), 40))
            for e, s in cases:
                rec.reset()
                em = ctx.rng.choice(EMS_ANY); p = ctx.rng.choice(PS)
                r = evaluate(ctx, acc, spec, dspec, em, p, e, s, exhaustive=exh)
                if r is None:
                    continue
                meta = {'kind': 'cmwpm', 'code': list(spec), 'decoder': [dspec[0], kw], 'syndrome': bits(s),
                        'error': bits(e)}
                if mi == 0:
                    ctx.case('c02 planar.cmwpm0 {} {}'.format(R, C), bits(r), nontrivial=bool(np.any(s)), meta=meta)
                    continue
                gc = rec.grid_calls
                if len(gc) < 2 or gc[-1]['gt'] is None or gc[-2]['gt'] is None:
                    ctx.case('c02 planar.cmwpm-calls', 'StepGrid.mwpm called {} times'.format(len(gc)), meta=meta)
                    continue
                lastP = [c for i, c in enumerate(gc) if i % 2 == 0][-1]
                lastD = [c for i, c in enumerate(gc) if i % 2 == 1][-1]
                mP, gPtxt = cnode_txt(code, *lastP['gt'])
                mD, gDtxt = cnode_txt(code, *lastD['gt'])
                mt = lambda res: canon_pairs(';'.join('{}>{}'.format(idx2(a), idx2(b)) for a, b in res) or '_')  # noqa
                ctx.case('c02 planar.cmwpm {} {} {} {} {}'.format(R, C, bits(s), mP, mD),
                         '{} pm=11 P={} D={}'.format(bits(r), mt(lastP['result']), mt(lastD['result'])),
                         nontrivial=bool(np.any(s)), meta=meta, post=post_cmwpm)
                ctx.case('c02 planar.cmwpm.graph {} {} {}'.format(R, C, bits(s)), 'P={} D={}'.format(gPtxt, gDtxt),
                         nontrivial=bool(np.any(s)), meta=meta, post=post_graph)


def tn_configs(name, q, has_stp=True, has_mode=True):
    out = [D(name)]
    for chi in (2, 4):
        out.append(D(name, chi=chi))
    if has_mode:
        for mode in 'ra':
            out.append(D(name, mode=mode))
            out.append(D(name, chi=4, mode=mode))
    out.append(D(name, chi=4, tol=1e-8))
    out.append(D(name, tol=1e-12))
    if has_stp:
        out.append(D(name, chi=2, stp=0.5))
        out.append(D(name, chi=2, mode='a', stp=1.0))
    return out


def run_tn(ctx, acc):
    """part (b) for the tensor-network decoders, with the coset tie"""
    import qecsim.models.planar as P
    import qecsim.models.rotatedplanar as RP
    import qecsim.models.color as CO
    q = ctx.quick()
    plan = []
    # (decoder name, class for sample_recovery, configs, [(spec, untruncated allowed)], exhaustive rank, n_random)
    planar_small = [('planar', 2, 2), ('planar', 2, 3), ('planar', 3, 2), ('planar', 3, 3)]
    planar_mid = [('planar', 2, 4), ('planar', 4, 3), ('planar', 4, 4)]
    planar_big = [('planar', 5, 5), ('planar', 3, 6), ('planar', 6, 5)] + ([] if q else [('planar', 7, 7), ('planar', 8, 4)])
    plan.append(('PlanarMPS', P.PlanarMPSDecoder, tn_configs('PlanarMPS', q), planar_small + planar_mid, planar_big))
    plan.append(('PlanarRMPS', P.PlanarRMPSDecoder, tn_configs('PlanarRMPS', q), planar_small + planar_mid[:2],
                 planar_big + planar_mid[2:]))
    rp_small = [('rplanar', 3, 3), ('rplanar', 3, 4), ('rplanar', 4, 3), ('rplanar', 4, 4)]
    rp_mid = [('rplanar', 3, 5), ('rplanar', 5, 4), ('rplanar', 5, 5)]
    rp_big = [('rplanar', 6, 6), ('rplanar', 4, 7)] + ([] if q else [('rplanar', 7, 7), ('rplanar', 9, 5)])
    plan.append(('RotatedPlanarMPS', RP.RotatedPlanarMPSDecoder, tn_configs('RotatedPlanarMPS', q, has_stp=False),
                 rp_small + rp_mid, rp_big))
    plan.append(('RotatedPlanarRMPS', RP.RotatedPlanarRMPSDecoder, tn_configs('RotatedPlanarRMPS', q, has_stp=False),
                 rp_small + rp_mid, rp_big))
    plan.append(('Color666MPS', CO.Color666MPSDecoder, tn_configs('Color666MPS', q, has_stp=False, has_mode=False),
                 [('color', 3), ('color', 5)], [('color', 7)] + ([] if q else [('color', 9)])))
    for name, cls, configs, untr_ok, trunc_only in plan:
        for ci, dspec in enumerate(configs):
            chi = dict(dspec[1]).get('chi')
            if dict(dspec[1]).get('stp') == 1.0:
                chi = None  # skip-truncate probability 1 = never truncates: exponential like chi=None
            specs = list(untr_ok) + (list(trunc_only) if chi else [])
            for spec in specs:
                code, S, _ = code_of(spec)
                n = S.shape[1] // 2
                # exhaustive over all syndromes only for the default config on the smallest lattices
                rank = (8 if (ci == 0) else 0) if q else (10 if ci <= 1 else 7)
                if name == 'Color666MPS' and spec[1] >= 5:
                    rank = 0
                nr = (3 if q else 10) if n > 13 else (4 if q else 12)
                if name == 'Color666MPS' and spec[1] >= 5 and not chi:
                    nr = 2 if q else 8
                cases, exh = error_cases(ctx, spec, exhaustive_rank=rank, n_random=nr, singles=False)
                if exh and q and len(cases) > 64:
                    cases = cases[:1] + ctx.rng.sample(cases[1:], 63); exh = False
                for e, s, _ in cases:
                    em = ctx.rng.choice(EMS_ANY); p = ctx.rng.choice(PS)
                    r = evaluate(ctx, acc, spec, dspec, em, p, e, s, exhaustive=exh)
                    if r is None:
                        continue
                    a = np.asarray(r)
                    if a.ndim == 1 and a.shape[0] == 2 * n:
                        try:
                            sample = np.array(cls.sample_recovery(code, np.array(s, dtype=int)).to_bsf(), dtype=int)
                        except Exception:  # noqa: BLE001
                            continue
                        tn_coset_case(ctx, spec, dspec, s, a, sample)


def run_planar_y(ctx, acc):
    q = ctx.quick()
    dspec = D('PlanarY')
    sizes = [(2, 2), (2, 3), (3, 2), (3, 3), (2, 4), (4, 2), (3, 4), (4, 4), (3, 5), (5, 5), (4, 6), (6, 3)] + \
        ([] if q else [(6, 6), (7, 7), (5, 8), (2, 9), (9, 3), (8, 8)])
    for (R, C) in sizes:
        spec = ('planar', R, C)
        cases, exh = error_cases(ctx, spec, yonly=True, exhaustive_rank=9 if q else 13, n_random=25 if q else 80)
        for e, s, _ in cases:
            em = ctx.rng.choice([('bpf',), ('bpf',), ('dep',), ('bdep', 100, 'Y'), ('byx', 5)]); p = ctx.rng.choice(PS)
            evaluate(ctx, acc, spec, dspec, em, p, e, s, exhaustive=exh)


def run_smwpm(ctx, acc):
    q = ctx.quick()
    rp_sizes = [(3, 3), (3, 4), (4, 3), (4, 4), (3, 5), (5, 5), (4, 6), (6, 5)] + ([] if q else [(7, 7), (6, 6), (3, 9),
                                                                                               (8, 5)])
    rt_sizes = [(2, 2), (2, 4), (4, 2), (4, 4), (4, 6), (6, 4)] + ([] if q else [(6, 6), (2, 8), (8, 4), (8, 8)])
    for name, fam, sizes in (('RotatedPlanarSMWPM', 'rplanar', rp_sizes), ('RotatedToricSMWPM', 'rtoric', rt_sizes)):
        etas = [None, 0.5, 10, 1000.0]
        for (R, C) in sizes:
            spec = (fam, R, C)
            for eta in etas:
                kws = [{'eta': eta}] if eta is not None else [{}]
                if name == 'RotatedToricSMWPM':
                    kws = [dict(k, itp=itp) for k in kws for itp in ((False, True) if eta in (None, 10) else (False,))]
                for kw in kws:
                    dspec = D(name, **kw)
                    # finite bias: any Pauli error
                    rank = 8 if (eta is None and not kw.get('itp')) else 0
                    cases, exh = error_cases(ctx, spec, exhaustive_rank=rank if q else rank + 2,
                                             n_random=(6 if q else 25), singles=(eta is None))
                    if exh and eta is None and q and len(cases) > 128:
                        cases = cases[:1] + ctx.rng.sample(cases[1:], 127); exh = False
                    for e, s, _ in cases:
                        em = ctx.rng.choice(EMS_FINITE_BIAS if eta is None else EMS_FINITE_BIAS + [('bpf',)])
                        p = ctx.rng.choice(PS)
                        evaluate(ctx, acc, spec, dspec, em, p, e, s, exhaustive=exh)
                    # infinite bias (eta=None and a pure-Y context): Y-only errors
                    if eta is None:
                        cases, exh = error_cases(ctx, spec, yonly=True, exhaustive_rank=7 if q else 10,
                                                 n_random=(6 if q else 25))
                        for e, s, _ in cases:
                            evaluate(ctx, acc, spec, dspec, ('bpf',), ctx.rng.choice(PS), e, s, exhaustive=exh)


def run_naive(ctx, acc):
    q = ctx.quick()
    specs = [('five',), ('steane',), ('planar', 2, 2), ('color', 3)] + [('planar', 2, 3), ('toric', 2, 2),
                                                                          ('rplanar', 3, 3)]
    for spec in specs:
        code, S, Smat = code_of(spec)
        n = S.shape[1] // 2
        big = n >= 8
        for mq in ([None, 10, 0, n, n - 1, 4] if not big else [10, None]):
            dspec = D('Naive', max_qubits=mq)
            blocked = bool(mq) and n > mq
            if blocked:
                # outside the stated domain (documented ValueError): tie only
                s = np.zeros(S.shape[0], dtype=int)
                try:
                    dec_of(dspec).decode(code, s)
                    v = 'no-error'
                except ValueError:
                    v = 'ValueError'
                ctx.case('c02 naive {} {} {} {}'.format(mq, n, Smat, bits(s)), v, nontrivial=False,
                         meta={'kind': 'naive', 'code': list(spec), 'decoder': ['Naive', {'max_qubits': mq}],
                               'syndrome': bits(s)})
                continue
            if big:
                cases, exh = error_cases(ctx, spec, exhaustive_rank=0, n_random=(3 if q else 12), singles=False)
                cases = cases[:(4 if q else 13)]
            else:
                cases, exh = error_cases(ctx, spec, exhaustive_rank=6 if (q or mq is not None) else 8,
                                         n_random=(10 if q else 40), singles=True)
                if not exh and q:
                    cases = ctx.rng.sample(cases, 16)
            for e, s, _ in cases:
                r = evaluate(ctx, acc, spec, dspec, ctx.rng.choice(EMS_ANY), ctx.rng.choice(PS), e, s, exhaustive=exh)
                if r is not None:
                    ctx.case('c02 naive {} {} {} {}'.format('N' if mq is None else mq, n, Smat, bits(s)),
                             'ok ' + bits(r), nontrivial=bool(np.any(s)),
                             meta={'kind': 'naive', 'code': list(spec), 'decoder': ['Naive', {'max_qubits': mq}],
                                   'syndrome': bits(s), 'error': bits(e)})
        # vectors that are NOT syndromes (toric: odd parity): the loop falls through and returns None — tie only
        if spec[0] == 'toric' and not q:
            s = np.zeros(S.shape[0], dtype=int); s[0] = 1
            r = dec_of(D('Naive', max_qubits=None)).decode(code, s)
            ctx.case('c02 naive N {} {} {}'.format(n, Smat, bits(s)), 'None' if r is None else 'ok ' + bits(r),
                     nontrivial=False, meta={'kind': 'naive-nonsyndrome'})


# ------------------------------------------------------------------------------------------ entry points

def limit_blas_threads():
    """best effort: one BLAS thread (tiny matrices; 16 spinning threads on a shared machine cost minutes of sys time).
    Only the tensor-network coset choice could depend on it, which C02 does not."""
    import ctypes
    import re
    try:
        import scipy.linalg  # noqa: F401  (loads its own copy of the library, if any)
    except Exception:  # noqa: BLE001
        pass
    libs = set()
    try:
        for line in open('/proc/self/maps'):
            m = re.search(r'(/\S*openblas\S*\.so\S*)', line)
            if m:
                libs.add(m.group(1))
    except OSError:
        return
    for p in libs:
        try:
            L = ctypes.CDLL(p)
        except OSError:
            continue
        for name in ('scipy_openblas_set_num_threads64_', 'scipy_openblas_set_num_threads', 'openblas_set_num_threads64_',
                     'openblas_set_num_threads'):
            f = getattr(L, name, None)
            if f is not None:
                f(1)
                break


def _timed(ctx, name, f, *a):
    import time
    t = time.time()
    f(*a)
    ctx.extra.setdefault('section_wall_s', {})[name] = round(time.time() - t, 1)
    if os.environ.get('QV_C02_TIMING'):
        print('[c02] {} {:.1f}s evaluations={}'.format(name, time.time() - t, ctx.evaluations), flush=True)


def run(ctx):
    pyrandom.seed(ctx.rng.getrandbits(32))  # PlanarYDecoder breaks coset ties with the global `random`
    limit_blas_threads()
    acc = Acc(ctx)
    with Recorder() as rec:
        _timed(ctx, 'sample_ties', run_sample_ties, ctx, acc)
        _timed(ctx, 'planar_mwpm', run_planar_mwpm, ctx, acc, rec)
        _timed(ctx, 'toric_mwpm', run_toric_mwpm, ctx, acc, rec)
        _timed(ctx, 'planar_cmwpm', run_planar_cmwpm, ctx, acc, rec)
    _timed(ctx, 'naive', run_naive, ctx, acc)
    _timed(ctx, 'planar_y', run_planar_y, ctx, acc)
    _timed(ctx, 'smwpm', run_smwpm, ctx, acc)
    _timed(ctx, 'tn', run_tn, ctx, acc)
    acc.flush()
    _timed(ctx, 'driver_flush', ctx.flush)
    ctx.explored = {}
    for name, d in sorted(acc.by_decoder.items()):
        ctx.explored[name] = {
            'evaluations': d['evaluations'], 'timeouts': d['timeouts'], 'parameterisations': len(d['configs']),
            'exhaustive': False, 'exhaustive_over_all_syndromes_of': sorted(d['exhaustive_codes'])[:40],
            'rule': 'real decode with run_once-style context kwargs; monitor synd(S, recovery) == syndrome evaluated in '
                    'Python and by the Lean driver (recoveryOkN); never-raises / never-None observed'}
    ctx.extra['timeouts'] = {k: v['timeouts'] for k, v in acc.by_decoder.items() if v['timeouts']}
    ctx.assumptions = [
        'gt.mwpm (networkx max_weight_matching; Blossom V absent) returns a perfect matching of the graph it is given '
        '(C13) — re-checked on every recorded call with isPerfectMatchingOfGraph',
        'C15 path/endpoint facts and C07 commutation facts enter the C02 theorems as named hypotheses (PathSpec / '
        'RunSpec structures)',
        'tensor-network contraction (numpy/LAPACK/mpmath) only selects the coset; irrelevant to C02 by '
        'times_logical_keeps_syndrome; checked literally per decode (coset op)',
        'SMWPM x2: the recovery construction (graphs, clustering, paths) IS modelled and proved for any perfect '
        'matchings (Props/C02/Smwpm.lean, SmwpmToric.lean); edge WEIGHTS and the matching algorithm are not (irrelevant to '
        'C02). PlanarY internals are not modelled: explored through the verified monitor only',
    ]
    # the two symmetry-matching decoders: recovery construction inside the model (Model/Smwpm.lean, Props/C02/Smwpm*.lean)
    from qv import c02_smwpm
    sm = c02_smwpm.cases(ctx)
    ctx.explored['smwpm_model_tie'] = {
        'evaluations': int(sm.get('decodes', 0)), 'exhaustive': False,
        'rule': 'RotatedPlanarSMWPMDecoder / RotatedToricSMWPMDecoder: recorded graph nodes and edges, matchings, clusters, '
                'cluster graph, both recovery stages and the final recovery compared exactly with Model/Smwpm.lean given '
                'the recorded matchings; _path_operator over all pairs'}
    ctx.exhaustive = False
    return ctx.finish(RULE, search=search,
                      explanation='modelled constructions proved in Lean under named C15/C07 hypotheses and tied by exact '
                                  'comparison; all 12 registered decoders additionally explored through the verified '
                                  'monitor (see coverage.explored)')


def check_recipe(recipe):
    """evaluate the property on the real code for one recorded recipe; returns None or a description"""
    spec = tuple(recipe['code'])
    code, S, _ = code_of(spec)
    dspec = (recipe['decoder'][0], tuple(sorted(recipe['decoder'][1].items())))
    P = lambda t: np.array([int(c) for c in t], dtype=int) if t != '_' else np.array([], dtype=int)  # noqa: E731
    s = P(recipe['syndrome'])
    e = P(recipe['error']) if recipe.get('error') else np.zeros(S.shape[1], dtype=int)
    em = mk_em(tuple(recipe.get('error_model', ['dep'])))
    p = recipe.get('p', 0.1)
    status, r = decode_once(code, mk_decoder(dspec), s, em, p, e)
    if status == 'timeout':
        return None
    if status != 'ok':
        return 'decode {}'.format(status)
    ok, why = judge(S, s, r)
    return None if ok else why


def search(m):
    """is the PROPERTY false on the real code for the disagreeing case or its neighbourhood?"""
    meta = m.get('meta') or {}
    if 'code' not in meta or 'decoder' not in meta:
        return None
    spec = tuple(meta['code'])
    code, S, _ = code_of(spec)
    base = {'code': list(spec), 'decoder': meta['decoder'], 'error_model': ['dep'], 'p': 0.1}
    if meta['decoder'][0] in ('RotatedPlanarSMWPM', 'RotatedToricSMWPM'):
        base['error_model'] = ['bdep', 10, 'Y']
    if meta['decoder'][0] == 'PlanarCMWPM' and meta['decoder'][1].get('max_iterations', 4) == 0:
        return None  # known finding D2 is reported through the monitor with its own key
    cands = []
    if meta.get('syndrome'):
        cands.append((meta['syndrome'], meta.get('error')))
    n = S.shape[1] // 2
    yonly = meta['decoder'][0] == 'PlanarY'
    us = unit_errors(n, yonly)
    for e in us:
        cands.append((bits(py_synd(S, e)), bits(e)))
    rng = pyrandom.Random(12345)
    for _ in range(200):
        a, b = rng.sample(range(len(us)), 2)
        e = us[a] ^ us[b]
        cands.append((bits(py_synd(S, e)), bits(e)))
    for _ in range(100):
        e = random_error(rng, n, rng.randint(1, n), yonly)
        cands.append((bits(py_synd(S, e)), bits(e)))
    for s, e in cands:
        recipe = dict(base, syndrome=s, error=e)
        why = check_recipe(recipe)
        if why:
            return {'what': 'C02 fails on the real code: ' + why, 'input': recipe}
    return None


def replay(ctx, path):
    body = json.load(open(path))
    bad = 0
    for v in body.get('violations', []):
        c = v.get('counterexample') or {}
        recipe = c.get('input')
        if recipe and 'code' in recipe:
            why = check_recipe(recipe)
            print('replay', json.dumps(recipe)[:300], '->', why)
            bad += bool(why)
        elif v.get('first_mismatch'):
            r = search(v['first_mismatch'])
            print('replay', v['first_mismatch']['op'][:160], '->', r)
            bad += bool(r)
    if bad:
        print('VIOLATION property=C02 replay={}'.format(path))
    return 1 if bad else 0
