"""C04 — run loop stops exactly on its limits; aggregates are the fold of the runs
   (qecsim.app.run / run_ftp against Model/RunLoop.lean)"""
import json
from fractions import Fraction

import numpy as np

from qv import gens
from qv.core import ilist, rat

RULE = ('scripted outcome histories (length<=40) through the real app.run / app.run_ftp with a scripted decoder '
        '(DecodeResult with chosen success / logical_commutations / custom_values) and a scripted error model '
        '(chosen weights); all (max_runs, max_failures) in {None,1..6}^2 sampled; arrays present / absent / '
        'length-changing at a chosen run; ideal and ftp (T<=4); n in {5,7,13,25}. Compared: number of decoder calls, '
        'every aggregate field (floats bit-exact via the documented float expressions on the model\'s integers), '
        'value types and JSON serialisability. non-trivial = history with at least one failure or a mismatch')


class Exhausted(Exception):
    pass


def make_env():
    from qecsim.model import ErrorModel, Decoder, DecoderFTP, DecodeResult

    class ScriptEM(ErrorModel):
        """per run, T step errors whose weights sum to the scripted weight"""

        def __init__(self, n, T, weights, rng):
            self.q = []
            for w in weights:
                parts = [0] * T
                for _ in range(w):
                    parts[rng.randrange(T)] += 1
                for pw in parts:
                    e = np.zeros(2 * n, dtype=int)
                    for qb in rng.sample(range(n), min(pw, n)):
                        kind = rng.choice('XYZ')
                        if kind in 'XY': e[qb] = 1
                        if kind in 'ZY': e[n + qb] = 1
                    self.q.append(e)
            self.i = 0

        def generate(self, code, probability, rng=None):
            if self.i >= len(self.q):
                raise Exhausted()
            e = self.q[self.i]; self.i += 1; return e

        label = 'script-em'

    class ScriptDec(Decoder, DecoderFTP):
        def __init__(self, outs):
            self.outs = outs; self.i = 0

        def _next(self):
            if self.i >= len(self.outs):
                raise Exhausted()
            su, lc, cv = self.outs[self.i]; self.i += 1
            return DecodeResult(success=su, logical_commutations=None if lc is None else np.array(lc, dtype=int),
                                custom_values=None if cv is None else np.array(cv, dtype=int))

        def decode(self, code, syndrome, **kw):
            return self._next()

        def decode_ftp(self, code, time_steps, syndrome, **kw):
            return self._next()

        label = 'script-dec'
    return ScriptEM, ScriptDec


def fhex(x):
    return float(x).hex()


def gen_history(rng, length):
    pf = rng.choice([0.0, 0.1, 0.3, 0.6, 1.0])
    lcl = rng.choice([None, 0, 1, 2, 2, 4])
    cvl = rng.choice([None, None, 1, 3])
    outs = []
    for _ in range(length):
        su = rng.random() >= pf
        lc = None if lcl is None else [rng.randint(0, 1) for _ in range(lcl)]
        cv = None if cvl is None else [rng.randint(-3, 7) for _ in range(cvl)]
        outs.append([su, lc, cv, rng.choice([0, 0, 1, 2, 3, 5])])
    kind = 'consistent'
    if length >= 2 and rng.random() < 0.25:  # plant an inconsistency at a chosen run
        i = rng.randrange(0, length)
        which = rng.choice([1, 2])
        cur = outs[i][which]
        if cur is None:
            outs[i][which] = [1]
        else:
            outs[i][which] = rng.choice([None, cur + [0], cur[:-1] if cur else [1]])
        kind = 'mismatch'
    return outs, kind


def run(ctx):
    from qecsim import app
    from qecsim.error import QecsimError
    ScriptEM, ScriptDec = make_env()
    rng = ctx.rng
    PLAIN = (int, float, str, tuple, type(None))
    for it in range(ctx.scale(2500, 60000)):
        n = rng.choice([5, 7, 13, 25])
        k = 1
        S, Lx, Lz = gens.trivial_code(n, k)
        code = gens.MatCode(S, Lx, Lz, nkd=(n, k, rng.choice([None, 1])), label='c%d' % n)
        mode = rng.choice(['ideal', 'ftp'])
        T = 1 if mode == 'ideal' else rng.choice([1, 2, 3, 4])
        length = rng.choice([1, 2, 3, 5, 8, 13, 25, 40])
        outs, kind = gen_history(rng, length)
        mr = rng.choice([None, None, 1, 2, 3, 4, 5, 6, 10, 40])
        mf = rng.choice([None, None, 1, 2, 3, 4, 5, 6])
        em = ScriptEM(n, T, [o[3] for o in outs], rng)
        dec = ScriptDec([(o[0], o[1], o[2]) for o in outs])
        p = rng.choice([0.0, 0.1, 0.5])
        q = rng.choice([None, 0.0, 0.2]) if mode == 'ftp' else None
        try:
            if mode == 'ideal':
                r = app.run(code, em, dec, p, max_runs=mr, max_failures=mf, random_seed=rng.randrange(10 ** 6))
            else:
                r = app.run_ftp(code, T, em, dec, p, q, max_runs=mr, max_failures=mf,
                                random_seed=rng.randrange(10 ** 6))
            f = lambda v: 'N' if v is None else ilist(v)  # noqa: E731
            impl = 'ok {} {} {} {} {} {} {} {} {}'.format(
                r['n_run'], r['n_success'], r['n_fail'], f(r['n_logical_commutations']), f(r['custom_totals']),
                r['error_weight_total'], fhex(r['error_weight_pvar']), fhex(r['logical_failure_rate']),
                fhex(r['physical_error_rate']))
            impl += ' calls={}'.format(dec.i)
            # plain JSON-serialisable scalars / tuples
            bad = [kk for kk, v in r.items() if type(v) not in PLAIN or (
                isinstance(v, tuple) and any(type(x) not in (int, float, type(None)) for x in v))]
            try:
                json.dumps(r)
            except TypeError:
                bad.append('json.dumps')
            impl += ' types=' + ('ok' if not bad else 'bad:' + ','.join(
                '{}:{}'.format(b, type(r[b]).__name__ if b in r else '') for b in bad))
            qeff = 0.0 if mode == 'ideal' else ((0.0 if T == 1 else p) if q is None else q)
            idok = (r['code'] == code.label and r['n_k_d'] == code.n_k_d and r['time_steps'] == T and
                    r['error_model'] == em.label and r['decoder'] == dec.label and r['error_probability'] == p and
                    r['measurement_error_probability'] == qeff and r['n_run'] == r['n_success'] + r['n_fail'])
            impl += ' id=' + ('ok' if idok else 'bad')
        except QecsimError as ex:
            msg = str(ex)
            impl = 'QecsimError:{}:{}'.format('lc' if 'logical_commutations' in msg else 'cv', dec.i)
        except Exhausted:
            impl = 'needMore'
        wire = '|'.join('{}:{}:{}:{}'.format(o[3], int(o[0]), 'N' if o[1] is None else ilist(o[1]),
                                              'N' if o[2] is None else ilist(o[2])) for o in outs)
        line = 'c04 run {} {} {} {} {}'.format(n, T, 'N' if mr is None else mr, 'N' if mf is None else mf, wire)

        def post(reply, n=n, T=T):
            t = reply.split()
            if t[0] != 'ok':
                return reply
            nrun, nsucc, nfail, lc, cv, tot, pvar, _lfr, _per = t[1:10]
            nrun_i, nfail_i, tot_i = int(nrun), int(nfail), int(tot)
            a, b = pvar.split('/')
            return 'ok {} {} {} {} {} {} {} {} {} calls={} types=ok id=ok'.format(
                nrun, nsucc, nfail, lc, cv, tot, fhex(float(Fraction(int(a), int(b)))), fhex(nfail_i / nrun_i),
                fhex(tot_i / n / T / nrun_i), nrun)
        nt = any(not o[0] for o in outs) or kind == 'mismatch'
        ctx.case(line, impl, nontrivial=nt, post=post, meta={'mode': mode, 'kind': kind})
        ctx.count('mode', mode); ctx.count('limits', '{}/{}'.format(mr, mf)); ctx.count('kind', kind)
        ctx.count('outcome', impl.split()[0].split(':')[0]); ctx.count('len', length)
    return ctx.finish(RULE, search=search)


def search(m):
    """evaluate the property directly: recompute stopping index and fold from the history (pure Python spec)"""
    toks = m['op'].split()
    n, T = int(toks[2]), int(toks[3])
    mr = None if toks[4] == 'N' else int(toks[4]); mf = None if toks[5] == 'N' else int(toks[5])
    outs = []
    for o in toks[6].split('|'):
        ew, su, lc, cv = o.split(':')
        P = lambda s: None if s == 'N' else ([] if s == '_' else [int(x) for x in s.split(',')])  # noqa: E731
        outs.append((int(ew), su == '1', P(lc), P(cv)))
    if mr is None and mf is None:
        mr = 1
    N = None; fails = 0
    for j in range(0, len(outs) + 1):
        if (mr is not None and j >= mr) or (mf is not None and fails >= mf):
            N = j; break
        if j < len(outs):
            fails += (not outs[j][1])
    impl = m['impl'].split()
    shape = lambda v: None if v is None else len(v)  # noqa: E731
    first_bad = next((i for i, o in enumerate(outs) if shape(o[2]) != shape(outs[0][2]) or
                      shape(o[3]) != shape(outs[0][3])), None)
    if N is not None and (first_bad is None or first_bad >= N):
        if impl[0] != 'ok':
            return {'what': 'run did not return although a limit is reached with consistent arrays', 'op': m['op'],
                    'impl': m['impl'], 'expected_runs': N}
        run_ = outs[:N]
        exp = {'n_run': N, 'n_success': sum(o[1] for o in run_), 'n_fail': sum(not o[1] for o in run_),
               'total': sum(o[0] for o in run_)}
        got = {'n_run': int(impl[1]), 'n_success': int(impl[2]), 'n_fail': int(impl[3]), 'total': int(impl[6])}
        if got != exp:
            return {'what': 'stopping index / counts differ from the fold of the history', 'op': m['op'],
                    'got': got, 'expected': exp}
        for idx, col in ((4, 2), (5, 3)):
            e = None if run_[0][col] is None else [sum(o[col][i] for o in run_) for i in range(len(run_[0][col]))]
            e = 'N' if e is None else (','.join(map(str, e)) if e else '_')
            if impl[idx] != e:
                return {'what': 'array total is not the element-wise sum', 'op': m['op'], 'got': impl[idx],
                        'expected': e}
        ws = [o[0] for o in run_]
        mu = Fraction(sum(ws), N)
        pv = float(sum((w - mu) ** 2 for w in ws) / N)
        if float.fromhex(impl[7]) != pv:
            return {'what': 'error_weight_pvar is not the population variance of the run weights', 'op': m['op'],
                    'got': float.fromhex(impl[7]), 'expected': pv, 'weights': ws}
        if float.fromhex(impl[8]) != exp['n_fail'] / N or float.fromhex(impl[9]) != exp['total'] / n / T / N:
            return {'what': 'rates are not n_fail/n_run and total/(n*T*n_run)', 'op': m['op']}
        for fl in impl[10:]:
            if fl.startswith('types=') and fl != 'types=ok':
                return {'what': 'aggregate contains values that are not plain JSON-serialisable scalars/tuples',
                        'op': m['op'], 'detail': fl}
            if fl.startswith('id=') and fl != 'id=ok':
                return {'what': 'identification fields do not echo the inputs', 'op': m['op']}
            if fl.startswith('calls=') and int(fl[6:]) != N:
                return {'what': 'number of runs performed differs from the stopping index', 'op': m['op'],
                        'calls': fl, 'expected': N}
    elif first_bad is not None and (N is None or first_bad < N):
        if impl[0] == 'ok':
            return {'what': 'inconsistent per-run arrays were summed instead of raising', 'op': m['op'],
                    'impl': m['impl'], 'first_inconsistent_run': first_bad + 1}
    return None


def replay(ctx, path):
    body = json.load(open(path)); bad = 0
    for v in body.get('violations', []):
        mm = v.get('first_mismatch')
        if mm:
            r = search(mm); print('replay', mm['op'][:160], '->', r); bad += bool(r)
    return 1 if bad else 0
