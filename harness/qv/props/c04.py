"""C04 — run loop stops exactly on its limits; aggregates are the fold of the runs
   (qecsim.app.run / run_ftp against Model/RunLoop.lean)"""
import json
import os
from fractions import Fraction
from math import lcm

import numpy as np

from qv import gens
from qv.core import ilist, rat

RULE = ('scripted outcome histories (length<=40, plus long chains of 300/600 runs) through the real app.run / '
        'app.run_ftp with a scripted decoder (DecodeResult with chosen success / logical_commutations / custom_values) '
        'and a scripted error model (chosen weights); all (max_runs, max_failures) in {None,1..6}^2 sampled; arrays '
        'present / absent / zero-length / length-changing at a chosen run; ideal and ftp (T<=4); n in {5,7,13,25}. '
        'Value TYPES are an input class: the per-run vectors are numpy arrays of dtype bool / (u)int8..64 / '
        'float16/32/64, uniform, mixed across the runs of one history, narrow-first / wide-first / switching at a '
        'chosen run, with values up to the extremes of the narrow dtypes (the fold is over mathematical integers / '
        'dyadic rationals: the model receives the values as exact integers over a per-history common denominator; float '
        'values are dyadic and chosen so that every partial sum is exact in the numpy-promoted dtype of its prefix); '
        'the success flag is a python bool / numpy.bool_ / python int / numpy int (0/1 and other truthy values), '
        'uniform or mixed. Compared: number of decoder calls, every aggregate field (floats bit-exact via the '
        'documented float expressions on the model\'s integers; array totals as exact rationals), value types (every '
        'value int / float / str / tuple / None, tuple elements int / float / None) and a json.dumps/loads round trip, '
        'on every history. non-trivial = history with at least one failure or a mismatch')

K_WRAP = 'array-sum-wraps-in-narrow-integer-dtype'
K_BOOL = 'array-sum-of-bool-vectors-is-logical-or'

INT_RANGE = {dt: (int(np.iinfo(dt).min), int(np.iinfo(dt).max))
             for dt in ('int8', 'int16', 'int32', 'int64', 'uint8', 'uint16', 'uint32', 'uint64')}
CAP = 2 ** 40  # magnitudes of the wide integer dtypes stay below this (exact also after promotion to float64)
POOL = ['int64', 'int32', 'int16', 'int8', 'uint8', 'uint16', 'uint32', 'uint64', 'bool', 'float64', 'float32',
        'float16']
NARROW = ['int8', 'uint8', 'int16', 'uint16', 'int32', 'bool', 'float16', 'float32']
WIDE = ['int64', 'float64', 'int64', 'float64', 'int32', 'int16', 'float32', 'uint64']
FLAG_KINDS = ['bool', 'np.bool_', 'int', 'np.int64', 'np.int8', 'np.uint8', 'truthy-int', 'truthy-np.int64']


class Exhausted(Exception):
    pass


def make_env():
    from qecsim.model import ErrorModel, Decoder, DecoderFTP, DecodeResult

    class ScriptEM(ErrorModel):
        """per run, T step errors whose weights sum to the scripted weight"""

        def __init__(self, n, T, weights, rng):
            self.q = []
            for w in weights:
                parts = [0] * T
                for _ in range(w):
                    parts[rng.randrange(T)] += 1
                for pw in parts:
                    e = np.zeros(2 * n, dtype=int)
                    for qb in rng.sample(range(n), min(pw, n)):
                        kind = rng.choice('XYZ')
                        if kind in 'XY': e[qb] = 1
                        if kind in 'ZY': e[n + qb] = 1
                    self.q.append(e)
            self.i = 0

        def generate(self, code, probability, rng=None):
            if self.i >= len(self.q):
                raise Exhausted()
            e = self.q[self.i]; self.i += 1; return e

        label = 'script-em'

    class ScriptDec(Decoder, DecoderFTP):
        """outs: (success flag object, logical_commutations array or None, custom_values array or None)"""

        def __init__(self, outs):
            self.outs = outs; self.i = 0

        def _next(self):
            if self.i >= len(self.outs):
                raise Exhausted()
            su, lc, cv = self.outs[self.i]; self.i += 1
            return DecodeResult(success=su, logical_commutations=lc, custom_values=cv)

        def decode(self, code, syndrome, **kw):
            return self._next()

        def decode_ftp(self, code, time_steps, syndrome, **kw):
            return self._next()

        label = 'script-dec'
    return ScriptEM, ScriptDec


def fhex(x):
    return float(x).hex()


# ---------------------------------------------------------------------------------------- value / dtype classes

def gen_value(rng, dt, binary):
    """an exact value (int or Fraction) representable in dtype dt"""
    if binary or dt == 'bool':
        return rng.randint(0, 1)
    if dt in INT_RANGE:
        lo, hi = INT_RANGE[dt]
        lo, hi = max(lo, -CAP), min(hi, CAP)
        c = rng.random()
        if c < 0.55:
            return max(lo, min(hi, rng.randint(-3, 7)))
        if c < 0.85:
            return rng.choice([hi, hi - 1, lo, lo + 1, hi // 2 + 1, (hi // 4) * 3])
        return rng.randint(lo, hi)
    if dt == 'float16':
        return Fraction(rng.randint(-8, 8), 4)
    if dt == 'float32':
        return Fraction(rng.randint(-64, 64), 8)
    c = rng.random()  # float64
    if c < 0.4:
        return Fraction(rng.randint(-24, 56), 8)
    if c < 0.8:
        return rng.randint(-8, 8) + Fraction(rng.randrange(2 ** 40), 2 ** 40)  # needs > 24 bits of mantissa
    return Fraction(rng.randint(-3, 7))


def gen_dtypes(rng, length):
    mode = rng.choice(['default'] * 6 + ['uniform', 'uniform', 'mixed', 'mixed', 'narrow-first', 'wide-first', 'switch'])
    if mode == 'default':
        return mode, ['int64'] * length
    if mode == 'uniform':
        return mode, [rng.choice(POOL)] * length
    if mode == 'mixed':
        sub = rng.sample(POOL, rng.randint(2, 4))
        return mode, [rng.choice(sub) for _ in range(length)]
    if mode == 'switch':
        a, b = rng.sample(POOL, 2)
    else:
        a = rng.choice(NARROW); b = rng.choice([w for w in WIDE if w != a])
        if mode == 'wide-first':
            a, b = b, a
    k = rng.choice([1, 1, max(1, length - 1), rng.randint(1, max(1, length - 1))])
    return mode, [a] * min(k, length) + [b] * max(0, length - k)


def representable(x, dt):
    """exact value x is representable in numpy dtype dt"""
    if dt.kind == 'b':
        return x in (0, 1)
    if dt.kind in 'iu':
        lo, hi = INT_RANGE[dt.name]
        return x == int(x) and lo <= x <= hi
    with np.errstate(all='ignore'):
        f = float(dt.type(float(x)))
    return f == f and f not in (float('inf'), float('-inf')) and Fraction(f) == x


def promote_guard(vecs, dts):
    """simulate the accumulation `zeros_like(v1, dtype>=int64) + v1 + v2 + ...` in numpy's promoted dtype over exact values:
    returns None when every partial sum is representable in the promoted dtype of its prefix, else the kind of the
    first loss ('int-wrap' | 'bool-or' | 'float-round'); 'bool-type' when everything is exact but the total is a
    vector of numpy bools"""
    if not vecs or not len(vecs[0]):
        return None
    # the accumulator starts as zeros_like(v1, dtype=result_type(v1, int64)) (repo commit e73051e)
    P = np.result_type(np.dtype(dts[0]), np.int64); S = [0] * len(vecs[0])
    for v, d in zip(vecs, dts):
        P = np.result_type(P, np.dtype(d))
        S = [a + b for a, b in zip(S, v)]
        if not all(representable(s, P) for s in S):
            return {'b': 'bool-or', 'i': 'int-wrap', 'u': 'int-wrap'}.get(P.kind, 'float-round')
    return 'bool-type' if P.kind == 'b' else None


def gen_vectors(rng, length, vlen, binary):
    """per-run exact vectors + dtypes; float rounding in the promoted accumulator is excluded by construction"""
    if vlen is None:
        return 'absent', [None] * length, ['int64'] * length
    for _ in range(6):
        mode, dts = gen_dtypes(rng, length)
        vecs = [[gen_value(rng, dt, binary) for _ in range(vlen)] for dt in dts]
        if promote_guard(vecs, dts) != 'float-round':
            return mode, vecs, dts
    dts = ['int64'] * length
    return 'default', [[gen_value(rng, 'int64', binary) for _ in range(vlen)] for _ in dts], dts


def mk_flag(rng, kind, b):
    if kind == 'bool': return bool(b)
    if kind == 'np.bool_': return np.bool_(b)
    if kind == 'int': return int(b)
    if kind == 'np.int64': return np.int64(b)
    if kind == 'np.int8': return np.int8(b)
    if kind == 'np.uint8': return np.uint8(b)
    t = rng.choice([1, 2, 3, -1, 7]) if b else 0
    return t if kind == 'truthy-int' else np.int64(t)


def gen_history(rng, length):
    pf = rng.choice([0.0, 0.1, 0.3, 0.6, 1.0])
    lcl = rng.choice([None, 0, 1, 2, 2, 4])
    cvl = rng.choice([None, None, 0, 1, 3])
    lcmode, lcs, lcdt = gen_vectors(rng, length, lcl, True)
    cvmode, cvs, cvdt = gen_vectors(rng, length, cvl, False)
    fplan = rng.choice(['bool'] * 5 + FLAG_KINDS[1:] + ['mixed'])
    outs, fkinds = [], []
    for i in range(length):
        su = rng.random() >= pf
        fk = rng.choice(FLAG_KINDS) if fplan == 'mixed' else fplan
        fkinds.append(fk)
        outs.append([su, lcs[i], cvs[i], rng.choice([0, 0, 1, 2, 3, 5]), mk_flag(rng, fk, su)])
    kind = 'consistent'
    if length >= 2 and rng.random() < 0.25:  # plant an inconsistency at a chosen run
        i = rng.randrange(0, length)
        which = rng.choice([1, 2])
        cur = outs[i][which]
        if cur is None:
            outs[i][which] = [1]
        else:
            outs[i][which] = rng.choice([None, cur + [0], cur[:-1] if cur else [1]])
        kind = 'mismatch'
    return outs, kind, {'lcdt': lcdt, 'cvdt': cvdt, 'flags': fkinds, 'lcmode': lcmode, 'cvmode': cvmode,
                        'flagplan': fplan}


def to_array(v, dt):
    if v is None:
        return None
    if np.dtype(dt).kind == 'f':
        return np.array([float(x) for x in v], dtype=dt)
    return np.array([int(x) for x in v], dtype=dt)


def qs(x):
    """exact text of one total: integer or p/q"""
    if isinstance(x, (bool, int, np.integer, np.bool_)):
        return str(int(x))
    if isinstance(x, (float, np.floating)):
        x = float(x)
        if x != x or x in (float('inf'), float('-inf')):
            return repr(x)
        x = Fraction(x)
    if isinstance(x, Fraction):
        return str(x.numerator) if x.denominator == 1 else '{}/{}'.format(x.numerator, x.denominator)
    return 'obj:' + type(x).__name__


def qlist(v):
    if v is None:
        return 'N'
    try:
        v = list(v)
    except TypeError:
        return 'obj:' + type(v).__name__
    return ','.join(qs(x) for x in v) if v else '_'


def denominator(outs, col):
    d = 1
    for o in outs:
        for x in (o[col] or []):
            d = lcm(d, Fraction(x).denominator)
    return d


def describe(outs, info, upto=None):
    """human-readable history for counterexample reports"""
    rows = []
    for i, o in enumerate(outs[:upto]):
        f = lambda v, dt: 'None' if v is None else '{}{}'.format(dt, [float(x) if isinstance(x, Fraction) else x  # noqa
                                                                        for x in v])
        rows.append('run {}: success={}({}) logical_commutations={} custom_values={} error_weight={}'.format(
            i + 1, info['flags'][i], o[4] if not isinstance(o[4], (np.generic,)) else o[4].item(),
            f(o[1], info['lcdt'][i]), f(o[2], info['cvdt'][i]), o[3]))
    if len(rows) > 14:
        rows = rows[:8] + ['… {} more runs …'.format(len(rows) - 12)] + rows[-4:]
    return rows


def run(ctx):
    from qecsim import app
    from qecsim.error import QecsimError
    ScriptEM, ScriptDec = make_env()
    rng = ctx.rng
    if os.environ.get('QV_EXTRA_KNOWN'):  # development aid: candidate known_findings entries under evaluation
        ctx.known = list(ctx.known) + json.load(open(os.environ['QV_EXTRA_KNOWN'])).get('findings', [])
    PLAIN = (int, float, str, tuple, type(None))
    for it in range(ctx.scale(4000, 80000)):
        n = rng.choice([5, 7, 13, 25])
        k = 1
        S, Lx, Lz = gens.trivial_code(n, k)
        code = gens.MatCode(S, Lx, Lz, nkd=(n, k, rng.choice([None, 1])), label='c%d' % n)
        mode = rng.choice(['ideal', 'ftp'])
        T = 1 if mode == 'ideal' else rng.choice([1, 2, 3, 4])
        length = rng.choice([1, 2, 3, 5, 8, 13, 25, 40])
        if rng.random() < 0.012:
            length = rng.choice([300, 600])  # long chains: narrow accumulators run out of range
        outs, kind, info = gen_history(rng, length)
        mr = rng.choice([None, None, 1, 2, 3, 4, 5, 6, 10, 40, length])
        mf = rng.choice([None, None, 1, 2, 3, 4, 5, 6])
        em = ScriptEM(n, T, [o[3] for o in outs], rng)
        dec = ScriptDec([(o[4], to_array(o[1], info['lcdt'][i]), to_array(o[2], info['cvdt'][i]))
                         for i, o in enumerate(outs)])
        p = rng.choice([0.0, 0.1, 0.5])
        q = rng.choice([None, 0.0, 0.2]) if mode == 'ftp' else None
        Dlc, Dcv = denominator(outs, 1), denominator(outs, 2)
        meta = dict(info, mode=mode, kind=kind, Dlc=Dlc, Dcv=Dcv, flagvals=[int(o[4]) for o in outs])
        try:
            with np.errstate(all='ignore'):
                if mode == 'ideal':
                    r = app.run(code, em, dec, p, max_runs=mr, max_failures=mf, random_seed=rng.randrange(10 ** 6))
                else:
                    r = app.run_ftp(code, T, em, dec, p, q, max_runs=mr, max_failures=mf,
                                    random_seed=rng.randrange(10 ** 6))
            shown = {'n_logical_commutations': r['n_logical_commutations'], 'custom_totals': r['custom_totals']}
            # histories on which numpy's promoted accumulator itself cannot hold a partial sum (uniformly narrow integer
            # dtype running out of range, bool vectors): the total is compared with the exact sum by a monitor and
            # reported under a stable key; the remaining fields stay under the correspondence
            try:
                N = min(int(r['n_run']), len(outs))
            except Exception:
                N = 0
            for key, col, dk in (('n_logical_commutations', 1, 'lcdt'), ('custom_totals', 2, 'cvdt')):
                pre = outs[:N]
                if not pre or any(o[col] is None or len(o[col]) != len(pre[0][col]) for o in pre):
                    continue
                g = promote_guard([o[col] for o in pre], info[dk][:N])
                if g in ('int-wrap', 'bool-or', 'bool-type'):
                    exact = tuple(sum(o[col][i] for o in pre) for i in range(len(pre[0][col])))
                    ctx.count('accumulator-class', g)
                    got = shown[key]
                    if qlist(got) != qlist(exact) or any(type(x) not in (int, float) for x in (got or ())):
                        ctx.monitor_fail(
                            '{} is not the element-wise sum of the per-run vectors ({}): got {!r}, exact sum {!r}'.format(
                                key, 'the accumulator keeps the narrow integer dtype of the vectors and wraps around'
                                if g == 'int-wrap' else 'bool vectors are OR-ed / returned as bools, not counted',
                                got, exact),
                            {'n': n, 'time_steps': T, 'mode': mode, 'max_runs': mr, 'max_failures': mf,
                             'history': describe(outs, info, N)},
                            key=K_WRAP if g == 'int-wrap' else K_BOOL)
                        shown[key] = tuple(Fraction(x) for x in exact)  # exact; excluded from the type monitor
            impl = 'ok {} {} {} {} {} {} {} {} {}'.format(
                r['n_run'], r['n_success'], r['n_fail'], qlist(shown['n_logical_commutations']),
                qlist(shown['custom_totals']), r['error_weight_total'], fhex(r['error_weight_pvar']),
                fhex(r['logical_failure_rate']), fhex(r['physical_error_rate']))
            impl += ' calls={}'.format(dec.i)
            # plain JSON-serialisable scalars / tuples (type monitor, every history)
            rr = dict(r, **{kk: (() if v and type(v[0]) is Fraction else v) for kk, v in shown.items()})
            bad = [kk for kk, v in rr.items() if type(v) not in PLAIN or (
                isinstance(v, tuple) and any(type(x) not in (int, float, type(None)) for x in v))]
            try:
                back = json.loads(json.dumps(r))
                if back != {kk: (list(v) if isinstance(v, tuple) else v) for kk, v in r.items()}:
                    bad.append('json.roundtrip')
            except (TypeError, ValueError):
                bad.append('json.dumps')
            impl += ' types=' + ('ok' if not bad else 'bad:' + ','.join(
                '{}:{}'.format(b, (type(rr[b]).__name__ + ('[' + '/'.join(sorted({type(x).__name__ for x in rr[b]})) + ']'
                                                           if isinstance(rr[b], tuple) else '')) if b in rr else '')
                for b in bad))
            qeff = 0.0 if mode == 'ideal' else ((0.0 if T == 1 else p) if q is None else q)
            idok = (r['code'] == code.label and r['n_k_d'] == code.n_k_d and r['time_steps'] == T and
                    r['error_model'] == em.label and r['decoder'] == dec.label and r['error_probability'] == p and
                    r['measurement_error_probability'] == qeff and r['n_run'] == r['n_success'] + r['n_fail'])
            impl += ' id=' + ('ok' if idok else 'bad')
        except QecsimError as ex:
            msg = str(ex)
            impl = 'QecsimError:{}:{}'.format('lc' if 'logical_commutations' in msg else 'cv', dec.i)
        except Exhausted:
            impl = 'needMore'
        except Exception as ex:  # any other exception out of the run loop
            impl = 'raised:{}:{}'.format(type(ex).__name__, '_'.join(str(ex).split())[:160])
        sc = lambda v, D: 'N' if v is None else ilist([int(Fraction(x) * D) for x in v])  # noqa: E731
        wire = '|'.join('{}:{}:{}:{}'.format(o[3], int(o[0]), sc(o[1], Dlc), sc(o[2], Dcv)) for o in outs)
        line = 'c04 run {} {} {} {} {}'.format(n, T, 'N' if mr is None else mr, 'N' if mf is None else mf, wire)

        def post(reply, n=n, T=T, Dlc=Dlc, Dcv=Dcv):
            t = reply.split()
            if t[0] != 'ok':
                return reply
            nrun, nsucc, nfail, lc, cv, tot, pvar, _lfr, _per = t[1:10]
            nrun_i, nfail_i, tot_i = int(nrun), int(nfail), int(tot)
            a, b = pvar.split('/')
            un = lambda s, D: s if s in ('N', '_') else ','.join(qs(Fraction(int(x), D)) for x in s.split(','))  # noqa
            return 'ok {} {} {} {} {} {} {} {} {} calls={} types=ok id=ok'.format(
                nrun, nsucc, nfail, un(lc, Dlc), un(cv, Dcv), tot, fhex(float(Fraction(int(a), int(b)))),
                fhex(nfail_i / nrun_i), fhex(tot_i / n / T / nrun_i), nrun)
        nt = any(not o[0] for o in outs) or kind == 'mismatch'
        ctx.case(line, impl, nontrivial=nt, post=post, meta=meta)
        ctx.count('mode', mode); ctx.count('limits', '{}/{}'.format(mr, mf)); ctx.count('kind', kind)
        ctx.count('outcome', impl.split()[0].split(':')[0]); ctx.count('len', length)
        ctx.count('lc-dtypes', info['lcmode']); ctx.count('cv-dtypes', info['cvmode'])
        ctx.count('success-flag', info['flagplan'])
        for dk in ('lcdt', 'cvdt'):
            ctx.count('first-dtype', info[dk][0])
    return ctx.finish(RULE, search=search)


def search(m):
    """evaluate the property directly: recompute stopping index and fold from the history (pure Python spec over exact
    integers / rationals)"""
    toks = m['op'].split()
    meta = m.get('meta') or {}
    Dlc, Dcv = int(meta.get('Dlc', 1)), int(meta.get('Dcv', 1))
    n, T = int(toks[2]), int(toks[3])
    mr = None if toks[4] == 'N' else int(toks[4]); mf = None if toks[5] == 'N' else int(toks[5])
    outs = []
    for o in toks[6].split('|'):
        ew, su, lc, cv = o.split(':')
        P = lambda s, D: None if s == 'N' else ([] if s == '_' else [Fraction(int(x), D) for x in s.split(',')])  # noqa
        outs.append((int(ew), su == '1', P(lc, Dlc), P(cv, Dcv)))

    def hist(upto):
        if not meta.get('flags'):
            return None
        rows = []
        for i, o in enumerate(outs[:upto]):
            f = lambda v, dt: 'None' if v is None else '{}{}'.format(dt, [float(x) if x.denominator > 1 else int(x)  # noqa
                                                                            for x in v])
            rows.append('run {}: success={}({}) logical_commutations={} custom_values={} error_weight={}'.format(
                i + 1, meta['flags'][i], (meta.get('flagvals') or {i: o[1]})[i], f(o[2], meta['lcdt'][i]),
                f(o[3], meta['cvdt'][i]), o[0]))
        if len(rows) > 14:
            rows = rows[:8] + ['… {} more runs …'.format(len(rows) - 12)] + rows[-4:]
        return rows
    if mr is None and mf is None:
        mr = 1
    N = None; fails = 0
    for j in range(0, len(outs) + 1):
        if (mr is not None and j >= mr) or (mf is not None and fails >= mf):
            N = j; break
        if j < len(outs):
            fails += (not outs[j][1])
    impl = m['impl'].split()
    shape = lambda v: None if v is None else len(v)  # noqa: E731
    first_bad = next((i for i, o in enumerate(outs) if shape(o[2]) != shape(outs[0][2]) or
                      shape(o[3]) != shape(outs[0][3])), None)
    if N is not None and (first_bad is None or first_bad >= N):
        if impl[0] != 'ok':
            return {'what': 'run did not return although a limit is reached with consistent arrays', 'op': m['op'],
                    'impl': m['impl'], 'expected_runs': N, 'history': hist(N)}
        run_ = outs[:N]
        exp = {'n_run': N, 'n_success': sum(o[1] for o in run_), 'n_fail': sum(not o[1] for o in run_),
               'total': sum(o[0] for o in run_)}
        try:
            got = {'n_run': int(impl[1]), 'n_success': int(impl[2]), 'n_fail': int(impl[3]), 'total': int(impl[6])}
        except ValueError:
            got = {'n_run': impl[1], 'n_success': impl[2], 'n_fail': impl[3], 'total': impl[6]}
        if got != exp:
            return {'what': 'stopping index / counts differ from the fold of the history', 'op': m['op'],
                    'got': got, 'expected': exp, 'history': hist(N)}
        for idx, col, name in ((4, 2, 'n_logical_commutations'), (5, 3, 'custom_totals')):
            e = None if run_[0][col] is None else [sum(o[col][i] for o in run_) for i in range(len(run_[0][col]))]
            e = qlist(e)
            if impl[idx] != e:
                return {'what': name + ' is not the element-wise sum of the per-run vectors', 'op': m['op'],
                        'got': impl[idx], 'expected': e, 'history': hist(N)}
        ws = [o[0] for o in run_]
        mu = Fraction(sum(ws), N)
        pv = float(sum((w - mu) ** 2 for w in ws) / N)
        if float.fromhex(impl[7]) != pv:
            return {'what': 'error_weight_pvar is not the population variance of the run weights', 'op': m['op'],
                    'got': float.fromhex(impl[7]), 'expected': pv, 'weights': ws}
        if float.fromhex(impl[8]) != exp['n_fail'] / N or float.fromhex(impl[9]) != exp['total'] / n / T / N:
            return {'what': 'rates are not n_fail/n_run and total/(n*T*n_run)', 'op': m['op']}
        for fl in impl[10:]:
            if fl.startswith('types=') and fl != 'types=ok':
                return {'what': 'aggregate contains values that are not plain JSON-serialisable scalars/tuples',
                        'op': m['op'], 'detail': fl, 'history': hist(N)}
            if fl.startswith('id=') and fl != 'id=ok':
                return {'what': 'identification fields do not echo the inputs', 'op': m['op']}
            if fl.startswith('calls=') and int(fl[6:]) != N:
                return {'what': 'number of runs performed differs from the stopping index', 'op': m['op'],
                        'calls': fl, 'expected': N}
    elif first_bad is not None and (N is None or first_bad < N):
        if impl[0] == 'ok':
            return {'what': 'inconsistent per-run arrays were summed instead of raising', 'op': m['op'],
                    'impl': m['impl'], 'first_inconsistent_run': first_bad + 1, 'history': hist(first_bad + 1)}
        if impl[0].startswith('raised:'):
            return {'what': 'inconsistent per-run arrays did not raise the documented QecsimError', 'op': m['op'],
                    'impl': m['impl'], 'first_inconsistent_run': first_bad + 1, 'history': hist(first_bad + 1)}
    elif impl[0].startswith('raised:'):
        return {'what': 'run loop raised an undocumented exception', 'op': m['op'], 'impl': m['impl']}
    return None


def replay(ctx, path):
    body = json.load(open(path)); bad = 0; monitor = False
    for v in body.get('violations', []):
        mm = v.get('first_mismatch')
        if mm:
            r = search(mm); print('replay', mm['op'][:160], '->', r); bad += bool(r)
        elif v.get('via') == 'monitor':
            monitor = True  # monitor findings are re-evaluated by the full deterministic re-run
    return 1 if bad else (None if monitor else 0)
