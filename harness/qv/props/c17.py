"""C17 — generated qubit and measurement errors follow their stated distributions
   (SimpleErrorModel.generate, paulitools.pauli_to_bsf, app._run_once against Model/Stream.lean)

What is a THEOREM (Props/C17.lean, about the model, for all n / distributions / streams): the error has length 2n,
qubit i is a function of the i-th consumed uniform only, the preimage of each Pauli under the inverse-CDF map is the
half-open interval [c_{P-1}, c_P) whose length is dist P (so a zero-probability Pauli is impossible), X/Z column
placement, same stream => same error, a measurement flip happens iff u >= 1-q (never and without draws for q = 0, always
for q = 1), and the order in which a multi-step / multi-run simulation consumes the stream.

What ties the model to the code (this module, exact comparison, no tolerance): the real `generate(code, p, rng)` of
every IID model and the `step_errors` / `step_measurement_errors` a recording decoder receives from
`run_once`, `run_once_ftp`, `run`, `run_ftp` must equal, bit for bit, what the model computes from the uniforms of a TWIN
generator (same seed) — the model is given the cdf numpy computed in floating point as exact rationals, and in parallel
the exact rational cdf of the float probabilities; the two may differ only where a uniform lies within 2^-48 of a
threshold (counted as float-boundary, never observed).

What is EXPLORED / TRUSTED rather than proved: that numpy's `Generator.choice(a, size, p)` is the inverse-CDF map of
`rng.random(size)` (assumption, re-checked on numpy alone at the start of every run); that PCG64 doubles are uniform
and independent (trusted; a chi-square frequency / pairwise-independence test over many real draws is run as a
supporting TEST and reported under coverage.explored, it is not the decision procedure).

The model universe contains USER-DEFINED IID models as well (user_specs: subclasses overriding
probability_distribution only; Pr(I) unrelated to 1 - p, zero entries, parameters that are not probabilities of error at
all: 2.5, pi, 1e6, -0.5); they go through the same exact twin-generator comparison as the built-in models.

Beyond single calls: (a) the error must be a function of (model, code, p, generator state) ONLY - the same
configurations are evaluated in fresh interpreters that differ in PYTHONHASHSEED (cross_process_cases) and inside call
histories in which the caller modifies, in place, the arrays earlier calls returned (history_cases: value checks against
the model, np.shares_memory freshness, held arrays unchanged; a failing history is re-run on its own in a fresh
interpreter so that the reported input stands alone); (b) the rare branches of tiny / near-1 probabilities are hit on
purpose by pre-advancing the generator to a uniform inside the rare interval (rare_cases, exact); (c) a statistical
monitor with a sound false-alarm bound (exact two-sided binomial test, alarm below 1e-9 per test) counts the flips
over millions of real syndrome bits at q = 7e-6 and 1 - 7e-6 (extreme_flip_test).  A mismatch of the exact-stream
comparison alone says only that the code consumes the generator differently from the documented rng.choice scheme - a
different but correct sampler would mismatch as well - so it is never reported as a failing input by itself: search()
turns it into one by evaluating the property on the real code (fresh-interpreter probe, the failing history on its own,
zero-probability / frequency checks, the extreme-q binomial test).
"""
import json
import math
import os
from fractions import Fraction

import numpy as np

from qv import core
from qv.core import bits, rat

LEVEL = 'proof'

RULE = ('every IID model of qecsim.models.generic (depolarizing, bit-flip, phase-flip, bit-phase-flip, biased '
        'depolarizing X/Y/Z x biases, biased-Y-X x biases, center-slice x limits x positions) x p in {0, 1e-12, 0.1, '
        '0.5, 0.9, 1} x codes with n = 4..400 (five-qubit, Steane, planar, toric, rotated planar, rotated toric, colour) '
        'x seeds, generator sometimes pre-advanced: the real generate() output, the Pauli string and the number of '
        'uniforms consumed compared exactly with the model applied to a twin generator\'s uniforms; recorded step errors '
        'and measurement flips of run_once / run_once_ftp / run / run_ftp (T in 1..5, q in {None, 0, 1e-12, 0.3, 1}, up '
        'to 3 runs from one seed) predicted from ONE stream; searchsorted primitive on random sorted cdfs with ties and '
        'uniforms exactly on thresholds; float cdf vs exact cdf within 2^-48. RARE BRANCHES on purpose: p / q in {7e-6, '
        '2^-17, 2^-18, 3e-6, 1e-5, 1e-4, 1.5*2^-16} and 1 minus these, the twin stream scanned for a uniform inside the '
        'rare interval and the generator pre-advanced so that a chosen qubit / syndrome bit of a chosen step consumes '
        'it (compared exactly). FRESH INTERPRETERS: every model x p (+0.3) x a code x a seed and random run_once_ftp '
        'configurations evaluated in one new interpreter per PYTHONHASHSEED in {1,2,3} and in this process, results '
        'identical. CALL HISTORIES around generate: 2-3 models (pure ones always) x 1-2 codes of 4..8 qubits x 2 '
        'probabilities, 10-40 calls, configurations repeated, between the calls the caller modifies returned errors in '
        'place (zero / flip / xor with another held one / fill) and converts Pauli strings itself: every call compared '
        'with the model from the bits it had when returned, zero-probability Paulis, same state => same error, '
        'results share no memory with arrays the caller holds, held arrays unchanged. EXTREME q statistically: exact '
        'binomial test (alarm below 1e-9) of the flip count over 3.6e6 real syndrome bits at q = 7e-6 / 1-7e-6 (thorough: '
        'also 2^-18, 1-2^-18). USER-DEFINED IID MODELS: subclasses of SimpleErrorModel / DepolarizingErrorModel / '
        'BitFlipErrorModel / PhaseFlipErrorModel that override probability_distribution only and inherit generate(): '
        'channel parameterisation (1-3p/4, p/4, p/4, p/4) up to p = 4/3, fidelity (p = Pr I), seven fixed distributions '
        'independent of p (uniform, zero entries, point masses on Y and on I), rotation angle about X/Y/Z (any real '
        'p), decay time (p up to 1e6), four arbitrary per-p tables in sixteenths with zero entries; parameters '
        'include 1.2, 4/3, 2.5, pi, 7, 40, 1e6, -0.5, -1 (generate() itself, the run functions only with p in [0,1]); '
        'treated exactly like the built-in models in the generate / fresh-interpreter / run / chi-square parts (Pr(I) '
        'is unrelated to 1-p, so the draw must use the distribution the model returns); generate() raising on a valid '
        'distribution is a failing input. non-trivial = a case in which at least one '
        'uniform is consumed and the distribution is not a point mass on I (p > 0) or, for runs, q > 0 or T > 1')

DEN = 2 ** 53
BAND = Fraction(1, 2 ** 48)
PS = [0.0, 1e-12, 0.1, 0.5, 0.9, 1.0]
P_CHI = 1e-9          # chi-square alarms only below this p-value (per test)

ASSUMPTIONS = [
    'numpy.random.Generator.choice(a, size=k, p=p) == a[searchsorted(cumsum(p)/cumsum(p)[-1], rng.random(k), '
    'side="right")] with exactly k doubles consumed, independent of chunking (numpy {}; re-checked on numpy alone at '
    'the start of this run: see coverage.explored.numpy_choice_contract)'.format(np.__version__),
    'numpy.random.Generator.random returns doubles k/2^53 in [0,1) (checked for every uniform sent to the model)',
    'uniformity and independence of the PCG64 stream (numpy contract, trusted; supported by the chi-square test)',
    'floating-point cumsum / division of numpy (the float cdf is recomputed with the same numpy calls and sent to '
    'the model as exact rationals; it is checked to lie within 2^-48 of the exact rational cdf)',
]


# ------------------------------------------------------------------------------------------ specs

def model_specs():
    specs = [('DepolarizingErrorModel', []), ('BitFlipErrorModel', []), ('PhaseFlipErrorModel', []),
             ('BitPhaseFlipErrorModel', [])]
    for axis in 'XYZ':
        for bias in (0.5, 3, 10, 100.0, 1e6):
            specs.append(('BiasedDepolarizingErrorModel', [bias, axis]))
    for bias in (0, 0.5, 1, 3, 10, 300.0):
        specs.append(('BiasedYXErrorModel', [bias]))
    for lim in ((0, 0, 1), (1, 0, 0), (0, 1, 0), (0.5, 0.5, 0), (1, 0, 2), (0, 3, 1)):
        for pos in (-1.0, -0.5, 0.0, 0.25, 1.0):
            specs.append(('CenterSliceErrorModel', [list(lim), pos]))
    return specs


def make_model(spec):
    import qecsim.models.generic as g
    name, args = spec
    if name == USER:
        return user_model(*args)
    args = [tuple(a) if isinstance(a, list) else a for a in args]
    return getattr(g, name)(*args)


# ------------------------------------------------------------------------------------------ user-defined IID models
# The property quantifies over EVERY IID model, not only the ones shipped with qecsim: a user writes a subclass of
# SimpleErrorModel (or of one of the built-in models), overrides probability_distribution and inherits generate().
# Nothing ties Pr(I) of such a model to 1 - probability, and `probability` need not be a probability of error at all (a
# channel parameter, a fidelity, a rotation angle, a time) - generate() must draw from whatever valid distribution
# probability_distribution returns.  spec = ('UserIID', [kind, param, base class name]).

USER = 'UserIID'


def user_dist(kind, param, p):
    """single-qubit distribution (Pr I, X, Y, Z) of the user model `kind` at parameter p (plain python floats)"""
    p = float(p)
    if kind == 'channel':        # rho -> (1-p) rho + p I/2 ; valid for p in [0, 4/3]
        return 1 - 3 * p / 4, p / 4, p / 4, p / 4
    if kind == 'fidelity':       # p IS Pr(I)
        return p, (1 - p) / 3, (1 - p) / 3, (1 - p) / 3
    if kind == 'fixed':          # the same distribution whatever p
        return tuple(float(x) for x in param)
    if kind == 'angle':          # rotation by the angle p about one axis: any real p
        c = math.cos(p / 2) ** 2
        d = [c, 0.0, 0.0, 0.0]; d['IXYZ'.index(param)] = 1 - c
        return tuple(d)
    if kind == 'decay':          # depolarizing for a time p >= 0
        e = math.exp(-p)
        return (1 + 3 * e) / 4, (1 - e) / 4, (1 - e) / 4, (1 - e) / 4
    if kind == 'table':          # an arbitrary distribution per (param, p): sixteenths, entries zero with chance 0.3
        import random
        rr = random.Random('c17-table|{}|{!r}'.format(param, p))
        w = [0 if rr.random() < 0.3 else rr.randrange(1, 17) for _ in range(4)]
        if sum(w) == 0:
            w[rr.randrange(4)] = 1
        return tuple(x / sum(w) for x in w)
    raise ValueError(kind)


USER_PS = {
    'channel': PS + [0.3, 0.6, 1.2, 4 / 3],
    'fidelity': PS + [0.3, 0.6],
    'fixed': PS + [0.3, 2.5, -1.0, 1e6],
    'angle': [0.0, 1e-12, 0.1, 0.5, 1.0, 2.5, math.pi, 7.0, -0.5],
    'decay': [0.0, 1e-12, 0.1, 0.5, 1.0, 2.5, 40.0, 1e6],
    'table': PS + [0.3, 0.6, 2.5, -0.5],
}

_user_classes = {}


def user_model(kind, param=None, base='SimpleErrorModel'):
    import qecsim.models.generic as g
    if base not in _user_classes:
        class UserIID(getattr(g, base)):
            """what a user of qecsim writes: probability_distribution (and label) only; generate() is inherited"""

            def __init__(self, kind, param):
                self.kind, self.param = kind, param

            def probability_distribution(self, probability):
                return user_dist(self.kind, self.param, probability)

            @property
            def label(self):
                return 'User IID {} {}'.format(self.kind, self.param)

        _user_classes[base] = UserIID
    return _user_classes[base](kind, param)


def user_specs():
    specs = [(USER, ['channel', None, 'SimpleErrorModel']), (USER, ['channel', None, 'DepolarizingErrorModel']),
             (USER, ['fidelity', None, 'SimpleErrorModel']), (USER, ['decay', None, 'SimpleErrorModel']),
             (USER, ['decay', None, 'BitFlipErrorModel'])]
    for d in ((0.25, 0.25, 0.25, 0.25), (0.0, 0.5, 0.5, 0.0), (0.5, 0.0, 0.0, 0.5), (0.0, 0.0, 1.0, 0.0),
              (0.125, 0.5, 0.375, 0.0), (0.0, 1 / 3, 1 / 3, 1 / 3), (1.0, 0.0, 0.0, 0.0)):
        specs.append((USER, ['fixed', list(d), 'SimpleErrorModel']))
    for axis in 'XYZ':
        specs.append((USER, ['angle', axis, 'SimpleErrorModel']))
    for salt in range(4):
        specs.append((USER, ['table', salt, 'PhaseFlipErrorModel' if salt == 3 else 'SimpleErrorModel']))
    return specs


def ps_for(mspec):
    """the parameter values a model is evaluated at (generate() itself does not restrict the parameter)"""
    return USER_PS[mspec[1][0]] if mspec[0] == USER else PS


def ps_unit(mspec):
    """... those the run functions of qecsim.app accept (they require 0 <= error_probability <= 1)"""
    return [p for p in ps_for(mspec) if 0 <= p <= 1]


def code_specs():
    return [('basic.FiveQubitCode', []), ('basic.SteaneCode', []), ('rotatedtoric.RotatedToricCode', [2, 2]),
            ('planar.PlanarCode', [2, 2]), ('planar.PlanarCode', [3, 5]), ('planar.PlanarCode', [10, 10]),
            ('planar.PlanarCode', [14, 15]), ('toric.ToricCode', [2, 2]), ('toric.ToricCode', [3, 4]),
            ('toric.ToricCode', [14, 14]), ('rotatedplanar.RotatedPlanarCode', [3, 3]),
            ('rotatedplanar.RotatedPlanarCode', [7, 9]), ('rotatedplanar.RotatedPlanarCode', [20, 20]),
            ('rotatedtoric.RotatedToricCode', [4, 6]), ('rotatedtoric.RotatedToricCode', [20, 20]),
            ('color.Color666Code', [3]), ('color.Color666Code', [7]), ('color.Color666Code', [21])]


_codes = {}


def make_code(spec):
    import importlib
    key = json.dumps(spec)
    if key not in _codes:
        mod, cls = spec[0].split('.')
        _codes[key] = getattr(importlib.import_module('qecsim.models.' + mod), cls)(*spec[1])
    return _codes[key]


# ------------------------------------------------------------------------------------------ numpy side

def float_cdf(p):
    """exactly what Generator.choice computes from p"""
    cdf = np.array([float(x) for x in p], dtype=np.float64).cumsum()
    cdf /= cdf[-1]
    return cdf


def ratlist(xs):
    xs = list(xs)
    return ','.join(rat(Fraction(float(x))) for x in xs) if xs else '_'


def stream_wire(u):
    ks = []
    for x in u:
        x = float(x)
        k = int(x * DEN)
        if not (0 <= k < DEN and k / DEN == x):
            raise core.Infra('rng.random returned a value that is not k/2^53 in [0,1): {!r}'.format(x))
        ks.append(k)
    return '{}:{}'.format(DEN, ','.join(map(str, ks)) if ks else '_')


def locate(u, value, start):
    """index at which `value` (the real generator's next double) sits in the twin stream"""
    for i in range(start, len(u)):
        if u[i] == value:
            return i
    return -1


def dist_valid(dist):
    d = [float(x) for x in dist]
    return all(x >= 0 for x in d) and all(math.isfinite(x) for x in d) and abs(sum(d) - 1) < 1e-8


def check_numpy_contract(ctx):
    """the stated assumption, on numpy alone (independent of qecsim and of the Lean model)"""
    r = ctx.rng
    n_checked = 0
    for it in range(ctx.scale(300, 3000)):
        k = r.choice([2, 4, 4, 4])
        p = [r.random() if r.random() < 0.75 else 0.0 for _ in range(k)]
        if sum(p) == 0:
            p[r.randrange(k)] = 1.0
        s = sum(p); p = [x / s for x in p]
        if r.random() < 0.2:
            p = [1.0 if i == r.randrange(k) else 0.0 for i in range(k)]
            if sum(p) != 1.0:
                p = [1.0] + [0.0] * (k - 1)
        n = r.choice([1, 4, 5, 7, 13, 100, 400])
        a = ('I', 'X', 'Y', 'Z') if k == 4 else (0, 1)
        seed = r.randrange(2 ** 32)
        g = np.random.default_rng(seed); t = np.random.default_rng(seed)
        pre = r.choice([0, 0, 3, 17])
        if pre:
            g.random(pre); t.random(pre)
        if r.random() < 0.3 and n > 1:     # chunked
            c = r.randrange(1, n)
            out = np.concatenate([g.choice(a, size=c, p=p), g.choice(a, size=(n - c,), p=p)])
        else:
            out = g.choice(a, size=n, p=p)
        u = t.random(n)
        exp = np.array(a)[float_cdf(p).searchsorted(u, side='right')]
        if not (exp == out).all() or g.random() != t.random():
            raise core.Infra('assumption broken: numpy Generator.choice is not the inverse-CDF of rng.random '
                             '(seed={}, p={}, n={})'.format(seed, p, n))
        n_checked += 1
    ctx.explored['numpy_choice_contract'] = {
        'evaluations': n_checked, 'exhaustive': False,
        'rule': 'random p (k = 2 or 4, zeros and point masses included), sizes 1..400, pre-advanced and chunked calls: '
                'Generator.choice == a[searchsorted(cumsum(p)/last, twin.random(n), "right")] and both generators in '
                'the same state afterwards; a failure is an infrastructure error (assumption), not a qecsim violation'}


# ------------------------------------------------------------------------------------------ chi-square (support)

def chi2_pvalue(obs, exp):
    """Pearson chi-square p-value; cells with expectation < 5 are pooled; expectation 0 with a hit => 0.0"""
    from scipy.stats import chi2
    for o, e in zip(obs, exp):
        if e == 0 and o > 0:
            return 0.0
    big = [(o, e) for o, e in zip(obs, exp) if e >= 5]
    small = [(o, e) for o, e in zip(obs, exp) if 0 < e < 5]
    if small:
        so, se = sum(o for o, _ in small), sum(e for _, e in small)
        big.append((so, se))
    big = [(o, e) for o, e in big if e > 0]
    if len(big) < 2:
        return 1.0
    x = sum((o - e) ** 2 / e for o, e in big)
    return float(chi2.sf(x, len(big) - 1))


def freq_test(em, code, p, seeds):
    """real draws only: single-qubit and disjoint-adjacent-pair frequencies against dist / dist x dist.
       returns (p_single, p_pair, n_draws, detail)"""
    dist = [float(x) for x in em.probability_distribution(p)]
    n = code.n_k_d[0]
    single = [0] * 4; pair = [0] * 16; nd = 0; npairs = 0
    for sd in seeds:
        e = em.generate(code, p, np.random.default_rng(sd))
        e = np.asarray(e)
        if e.shape != (2 * n,):
            return 0.0, 0.0, nd, 'shape {}'.format(e.shape)
        idx = e[:n] * 1 + e[n:] * 2          # I=0 X=1 Z=2 Y=3
        idx = np.array([0, 1, 3, 2])[idx]    # -> I X Y Z order
        cnt = np.bincount(idx, minlength=4)
        for k in range(4):
            single[k] += int(cnt[k])
        m2 = (n // 2) * 2
        pr = idx[0:m2:2] * 4 + idx[1:m2:2]
        pc = np.bincount(pr, minlength=16)
        for k in range(16):
            pair[k] += int(pc[k])
        nd += n; npairs += m2 // 2
    ps = chi2_pvalue(single, [nd * d for d in dist])
    pp = chi2_pvalue(pair, [npairs * dist[a] * dist[b] for a in range(4) for b in range(4)])
    return ps, pp, nd, {'single_counts_IXYZ': single, 'dist': dist, 'draws': nd,
                        'pair_diag_counts': [pair[0], pair[5], pair[10], pair[15]], 'pairs': npairs}


def make_recorders():
    from qecsim.model import Decoder, DecoderFTP, DecodeResult, ErrorModel

    class RecDec(Decoder, DecoderFTP):
        def __init__(self):
            self.calls = []

        def _rec(self, kw):
            self.calls.append({'step_errors': [np.array(e) for e in kw['step_errors']],
                               'meas': [np.array(x) for x in kw['step_measurement_errors']],
                               'q': kw['measurement_error_probability']})
            return DecodeResult(success=True)

        def decode(self, code, syndrome, **kw):
            return self._rec(kw)

        def decode_ftp(self, code, time_steps, syndrome, **kw):
            return self._rec(kw)

        label = 'c17-recorder'

    class RecEM(ErrorModel):
        """delegates to the real model; remembers the generator the run loop hands over"""

        def __init__(self, em):
            self.em = em; self.rng = None

        def probability_distribution(self, probability):
            return self.em.probability_distribution(probability)

        def generate(self, code, probability, rng=None):
            self.rng = rng
            return self.em.generate(code, probability, rng)

        @property
        def label(self):
            return self.em.label

    return RecDec, RecEM


def flip_freq_test(em, code, p, q, T, seeds):
    """real run_once_ftp only: flip frequency against q; returns (pvalue, n_bits, ones)"""
    from qecsim import app
    RecDec, _ = make_recorders()
    ones = 0; nb = 0
    for sd in seeds:
        dec = RecDec()
        app.run_once_ftp(code, T, em, dec, p, q, np.random.default_rng(sd))
        for f in dec.calls[0]['meas']:
            f = np.asarray(f); ones += int(f.sum()); nb += f.size
    qq = (0.0 if T == 1 else p) if q is None else q
    return chi2_pvalue([nb - ones, ones], [nb * (1 - qq), nb * qq]), nb, ones


# ------------------------------------------------------------------------------------------ case builders

def show_runs(calls):
    rs = []
    for c in calls:
        steps = ['{}|{}'.format(bits(e), bits(f)) for e, f in zip(c['step_errors'], c['meas'])]
        rs.append(','.join(steps) if steps else '.')
    return ';'.join(rs) if rs else '-'


def gen_case(ctx, mspec, cspec, p, seed, pre):
    em = make_model(mspec); code = make_code(cspec)
    n = code.n_k_d[0]
    try:
        dist = em.probability_distribution(p)
    except Exception:
        ctx.count('skipped', 'dist-raises'); return
    if not dist_valid(dist):
        ctx.count('skipped', 'invalid-dist(C16)'); return
    rng = np.random.default_rng(seed); twin = np.random.default_rng(seed)
    if pre:
        rng.random(pre)
    u = twin.random(pre + n + 3)
    inp = {'model': mspec, 'code': cspec, 'p': p, 'seed': seed, 'pre': pre}
    try:
        err = em.generate(code, p, rng)
    except Exception as ex:
        ctx.monitor_fail('generate raised {!r} although probability_distribution({!r}) = {} is a valid distribution'
                         .format(ex, p, tuple(float(x) for x in dist))[:400], inp, key='generate-raises')
        return
    consumed = locate(u, rng.random(), pre)
    err = np.asarray(err)
    # -- direct monitors (property itself, independent of the model)
    if err.shape != (2 * n,) or not np.isin(err, (0, 1)).all():
        ctx.monitor_fail('generated error is not a binary vector of length 2n', inp, key='generate-shape')
        return
    letters = pauli_letters(err, n)
    for k, ch in enumerate('IXYZ'):
        if float(dist[k]) == 0 and ch in letters:
            ctx.monitor_fail('Pauli {} has probability 0 under {} at p={} but appears in the generated error'.format(
                ch, em.label, p), dict(inp, error=bits(err)), key='zero-prob-pauli')
            return
    rng2 = np.random.default_rng(seed)
    if pre:
        rng2.random(pre)
    if not np.array_equal(err, np.asarray(em.generate(code, p, rng2))):
        ctx.monitor_fail('same generator state gives a different error', inp, key='generate-nondeterministic')
        return
    # -- correspondence
    cdf = float_cdf(dist)
    off = max(0, pre - 5) if pre > 64 else 0      # far pre-advanced generators: send a window of the stream
    us = stream_wire(u[off:])
    line = 'c17 gen {} {} {} {} {}'.format(n, ratlist(dist), ratlist(cdf), us, pre - off)
    b = bits(err)
    post = make_post_gen(ctx, [Fraction(float(x)) for x in u[pre:pre + n]], [Fraction(float(c)) for c in cdf])
    nontrivial = p > 0 and n > 0
    ctx.case(line, 'ok {} {} {}'.format(b, b, consumed - off if consumed >= 0 else 'unknown'), nontrivial=nontrivial,
             meta=dict(inp, kind='gen'), post=post)
    ctx.case('c17 pauli {} {} {} {}'.format(n, ratlist(cdf), us, pre - off), 'ok ' + letters, nontrivial=nontrivial,
             meta=dict(inp, kind='gen'))
    ctx.count('model', mspec[0]); ctx.count('p', p); ctx.count('n', n); ctx.count('pre', pre if pre <= 64 else '>64')
    return letters


def pauli_letters(err, n):
    x = err[:n]; z = err[n:]
    return ''.join('IXZY'[int(a) + 2 * int(b)] for a, b in zip(x, z)) or '_'


def make_post_gen(ctx, us, cdf):
    def post(reply):
        parts = reply.split()
        if len(parts) == 4 and parts[0] == 'ok' and parts[1] != parts[2] and len(parts[1]) == len(parts[2]):
            n = len(parts[1]) // 2
            diff = [i for i in range(n) if parts[1][i] != parts[2][i] or parts[1][n + i] != parts[2][n + i]]
            if all(min(abs(us[i] - c) for c in cdf) <= BAND for i in diff):
                ctx.count('float-boundary', 'gen'); parts[2] = parts[1]
        return ' '.join(parts)
    return post


def run_case(ctx, mspec, cspec, p, q, T, R, seed, api, pre=0):
    """api in once_ftp / ftp / once / run; pre = number of doubles the generator handed to run_once(_ftp) has
    already produced (once_ftp / once only)"""
    from qecsim import app
    RecDec, RecEM = make_recorders()
    em = make_model(mspec); code = make_code(cspec)
    n = code.n_k_d[0]; m = code.stabilizers.shape[0]
    try:
        dist = em.probability_distribution(p)
    except Exception:
        ctx.count('skipped', 'dist-raises'); return
    if not dist_valid(dist):
        ctx.count('skipped', 'invalid-dist(C16)'); return
    dec = RecDec(); rem = RecEM(em)
    inp = {'model': mspec, 'code': cspec, 'p': p, 'q': q, 'T': T, 'R': R, 'seed': seed, 'api': api}
    rng = np.random.default_rng(seed)
    if pre:
        assert api in ('once_ftp', 'once')
        rng.random(pre); inp['pre'] = pre
    try:
        with core.TimeLimit(120):
            if api == 'once_ftp':
                app.run_once_ftp(code, T, rem, dec, p, q, rng)
            elif api == 'ftp':
                app.run_ftp(code, T, rem, dec, p, q, max_runs=R, random_seed=seed)
            elif api == 'once':
                app.run_once(code, rem, dec, p, rng)
            else:
                app.run(code, rem, dec, p, max_runs=R, random_seed=seed)
    except ValueError as ex:
        # all arguments are in their documented domains and the distribution is valid: nothing may be rejected
        ctx.monitor_fail('{} raised {!r} although p, q are in [0,1] and probability_distribution({!r}) = {} is a valid '
                         'distribution'.format(api, ex, p, tuple(float(x) for x in dist))[:400], inp,
                         key='generate-raises')
        return
    qq_expected = (0.0 if T == 1 else p) if q is None else q
    if api in ('once', 'run'):
        qq_expected = 0.0
    twin = np.random.default_rng(seed)
    total = R * T * (n + m) + 3
    u = twin.random(pre + total)[pre:]
    consumed = locate(u, rem.rng.random(), 0)
    # -- direct monitors
    for c in dec.calls:
        if len(c['meas']) != T or len(c['step_errors']) != T:
            ctx.monitor_fail('decoder context does not hold T step errors / measurement errors', inp,
                             key='run-context-shape'); return
        for f in c['meas']:
            f = np.asarray(f)
            if f.shape != (m,) or not np.isin(f, (0, 1)).all():
                ctx.monitor_fail('measurement error is not a binary vector over the syndrome bits', inp,
                                 key='meas-shape'); return
            if qq_expected == 0 and f.any():
                ctx.monitor_fail('measurement error probability 0 but a syndrome bit was flipped', inp,
                                 key='meas-q0'); return
            if qq_expected == 1 and not f.all():
                ctx.monitor_fail('measurement error probability 1 but a syndrome bit was not flipped', inp,
                                 key='meas-q1'); return
        for e in c['step_errors']:
            if np.asarray(e).shape != (2 * n,):
                ctx.monitor_fail('step error is not of length 2n', inp, key='generate-shape'); return
    qf = Fraction(float(dec.calls[0]['q'])) if dec.calls else None
    cdfE = float_cdf(dist)
    cdfM = float_cdf((1 - qq_expected, qq_expected)) if qq_expected else np.array([1.0, 1.0])
    qw = 'N' if q is None else rat(Fraction(float(q)))
    if api in ('once', 'run'):
        qw = '0/1'
    line = 'c17 run {} {} {} {} {} {} {} {} {} {}'.format(
        R, T, n, m, rat(Fraction(float(p))), qw, ratlist(dist), ratlist(cdfE), ratlist(cdfM), stream_wire(u))
    runs = show_runs(dec.calls)
    cons = consumed if consumed >= 0 else 'unknown'
    impl = 'ok q={} {} {} {} {}'.format(rat(qf) if qf is not None else 'none', runs, cons, runs, cons)
    used = [Fraction(float(x)) for x in u[:max(consumed, 0)]]
    thr = [Fraction(float(c)) for c in list(cdfE) + list(cdfM)]

    def post(reply):
        parts = reply.split()
        if len(parts) == 6 and parts[0] == 'ok' and (parts[2], parts[3]) != (parts[4], parts[5]):
            if any(min(abs(x - c) for c in thr) <= BAND for x in used):
                ctx.count('float-boundary', 'run'); parts[4], parts[5] = parts[2], parts[3]
        return ' '.join(parts)
    ctx.case(line, impl, nontrivial=(qq_expected > 0 or T > 1 or p > 0), meta=dict(inp, kind='run'), post=post)
    ctx.count('api', api); ctx.count('T', T); ctx.count('q', q); ctx.count('R', R)
    ctx.count('flip-branch', 'draws' if qq_expected else 'no-draws')


def idx_cases(ctx):
    r = ctx.rng
    for it in range(ctx.scale(400, 4000)):
        k = r.choice([0, 1, 2, 4, 4, 6])
        vals = sorted(Fraction(r.randrange(0, 17), 16) for _ in range(k))
        u = Fraction(r.randrange(0, 17), 16) if r.random() < 0.7 else Fraction(r.randrange(DEN), DEN)
        exp = int(np.searchsorted(np.array([float(v) for v in vals], dtype=np.float64), float(u), side='right'))
        ctx.case('c17 idx {} {}'.format(','.join(rat(v) for v in vals) if vals else '_', rat(u)),
                 '{} {}'.format(exp, exp), nontrivial=(k > 0))
    ctx.count('primitive', 'searchsorted')


def cdf_cases(ctx, dists):
    for dist in dists:
        cdf = [Fraction(float(c)) for c in float_cdf(dist)]

        def post(reply, cdf=cdf):
            try:
                ex = [Fraction(int(a), int(b)) for a, b in (t.split('/') for t in reply.split(','))]
            except Exception:
                return reply
            if len(ex) == len(cdf) and all(abs(a - b) <= BAND for a, b in zip(ex, cdf)) and ex[-1] == 1:
                return 'within-2^-48'
            return 'exact cdf {} vs float cdf {}'.format(reply, ','.join(rat(c) for c in cdf))
        ctx.case('c17 cdf ' + ratlist(dist), 'within-2^-48', nontrivial=True, post=post)



# ------------------------------------------------------------------------------------------ rare branches, exactly

def rare_cases(ctx):
    """probabilities so small (or so close to 1) that the rare branch is practically never taken by a random seed:
    the twin stream is scanned for a uniform that falls into the rare interval and the generator is pre-advanced so
    that exactly this uniform is consumed by a chosen qubit / syndrome bit; compared exactly with the model"""
    r = ctx.rng
    small_codes = [('basic.FiveQubitCode', []), ('basic.SteaneCode', []), ('toric.ToricCode', [3, 4]),
                   ('planar.PlanarCode', [3, 5]), ('rotatedplanar.RotatedPlanarCode', [3, 3]),
                   ('color.Color666Code', [3])]
    for it in range(ctx.scale(16, 120)):
        tiny = r.choice([7e-6, 2.0 ** -17, 2.0 ** -18, 3e-6, 1e-5, 1e-4, 2.0 ** -16 * 1.5])
        near_one = r.random() < 0.5
        v = 1.0 - tiny if near_one else tiny
        seed = r.randrange(2 ** 32)
        cspec = r.choice(small_codes); code = make_code(cspec)
        n = code.n_k_d[0]; m = code.stabilizers.shape[0]
        K = int(min(12 / tiny, 4e6))
        u = np.random.default_rng(seed).random(K)
        if r.random() < 0.6:
            # measurement flips: flip iff searchsorted(cdf, u, 'right') == 1 iff u >= cdf[0]
            thr = float_cdf((1 - v, v))[0]
            T = r.choice([1, 2, 3]); t = r.randrange(T); i = r.randrange(m)
            pos = t * (n + m) + n + i
            idx = np.nonzero(u < thr)[0] if near_one else np.nonzero(u >= thr)[0]
            idx = idx[(idx >= pos) & (idx < K - T * (n + m) - 8)]
            if not len(idx):
                ctx.count('rare', 'none-in-stream'); continue
            j = int(idx[r.randrange(len(idx))])
            mspec = r.choice([('DepolarizingErrorModel', []), ('BitFlipErrorModel', []),
                              ('BiasedDepolarizingErrorModel', [10, 'Z'])])
            run_case(ctx, mspec, cspec, r.choice([0.0, 0.1, 0.5]), v, T, 1, seed, 'once_ftp', pre=j - pos)
            ctx.count('rare', 'no-flip-at-q-near-1' if near_one else 'flip-at-tiny-q')
        else:
            mspec = r.choice([('DepolarizingErrorModel', []), ('BitFlipErrorModel', []), ('PhaseFlipErrorModel', []),
                              ('BitPhaseFlipErrorModel', []), ('BiasedDepolarizingErrorModel', [3, 'X']),
                              ('BiasedYXErrorModel', [3])])
            dist = make_model(mspec).probability_distribution(v)
            if not dist_valid(dist):
                continue
            thr = float_cdf(dist)[0]
            i = r.randrange(n)
            idx = np.nonzero(u < thr)[0] if near_one else np.nonzero(u >= thr)[0]
            idx = idx[(idx >= i) & (idx < K - n - 8)]
            if not len(idx):
                ctx.count('rare', 'none-in-stream'); continue
            j = int(idx[r.randrange(len(idx))])
            letters = gen_case(ctx, mspec, cspec, v, seed, j - i)
            ctx.count('rare', 'identity-at-p-near-1' if near_one else 'non-identity-at-tiny-p')
            if letters and ((letters[i] == 'I') != near_one):
                ctx.monitor_fail('qubit {} consumed the uniform {!r} which lies {} the identity threshold {!r} of {} at '
                                 'p={!r} but the generated Pauli is {}'.format(
                                     i, float(u[j]), 'below' if near_one else 'at or above', float(thr), mspec, v,
                                     letters[i]),
                                 {'model': mspec, 'code': cspec, 'p': v, 'seed': seed, 'pre': j - i, 'qubit': i},
                                 key='rare-branch-qubit')


# ------------------------------------------------------------------------------------------ extreme q, statistically

def binom_two_sided(k, N, q):
    """exact two-sided binomial p-value 2*min(P(K<=k), P(K>=k)) (<= 1): under K ~ Bin(N, q) the probability that it
    is <= a is at most a, so alarming below a has false-alarm probability <= a"""
    from scipy.stats import binom
    return float(min(1.0, 2 * min(binom.cdf(k, N, q), binom.sf(k - 1, N, q))))


EXTREME_CODE = ('planar.PlanarCode', [7, 7])
EXTREME_T = 500


def extreme_flip_test(q, seed, lam=25.0):
    """real run_once_ftp calls only: N >= lam / min(q, 1-q) syndrome bits drawn with measurement error probability q;
    returns (two-sided exact binomial p-value, N, flips, runs)"""
    from qecsim import app
    from qecsim.model import DecoderFTP, DecodeResult

    class Count(DecoderFTP):
        def __init__(self):
            self.nb = 0; self.ones = 0; self.bad = False

        def decode_ftp(self, code, time_steps, syndrome, **kw):
            a = np.asarray(kw['step_measurement_errors'])
            self.bad = self.bad or not np.isin(a, (0, 1)).all()
            self.nb += a.size; self.ones += int(a.sum())
            return DecodeResult(success=True)

        label = 'c17-count'

    code = make_code(EXTREME_CODE); em = make_model(('BitFlipErrorModel', []))
    m = code.stabilizers.shape[0]
    runs = int(math.ceil(lam / min(q, 1 - q) / (m * EXTREME_T)))
    dec = Count(); rng = np.random.default_rng(seed)
    for _ in range(runs):
        app.run_once_ftp(code, EXTREME_T, em, dec, 0.0, q, rng)
    if dec.bad:
        return 0.0, dec.nb, dec.ones, runs
    return binom_two_sided(dec.ones, dec.nb, q), dec.nb, dec.ones, runs


def extreme_flip_failure(q, seed, lam=25.0):
    pv, nb, ones, runs = extreme_flip_test(q, seed, lam)
    if pv < P_CHI:
        return {'what': 'measurement_error_probability={!r}: {} of {} syndrome bits flipped over {} run_once_ftp calls '
                        '({} steps each, one generator default_rng({})); expected {:.1f} {}; exact two-sided binomial '
                        'p-value {:.3g} (alarm below {:g})'.format(
                            q, ones, nb, runs, EXTREME_T, seed, nb * min(q, 1 - q),
                            'flips' if q < 0.5 else 'bits left unflipped', pv, P_CHI),
                'model': ['BitFlipErrorModel', []], 'code': list(EXTREME_CODE), 'p': 0.0, 'q': q, 'T': EXTREME_T,
                'runs': runs, 'seed': seed, 'flips': ones, 'bits': nb, 'kind': 'extreme-q', 'key': 'extreme-q-flips'}
    return None


# ------------------------------------------------------------------------------------------ other interpreter, same state

_CHILD = r"""
import json, os, sys
sys.path.insert(0, sys.argv[1])
import qecsim
from qv.props import c17
cfgs = json.load(sys.stdin)
print(json.dumps({'qecsim': os.path.realpath(os.path.dirname(qecsim.__file__)),
                  'hashseed': os.environ.get('PYTHONHASHSEED'), 'res': [c17.eval_cfg(c) for c in cfgs]}))
"""


def eval_cfg(c):
    """the real code on one configuration; the result as text (also run in fresh interpreters)"""
    import logging
    logging.disable(logging.WARNING)
    try:
        em = make_model(tuple(c['model'])); code = make_code(c['code'])
        rng = np.random.default_rng(c['seed'])
        if c.get('pre'):
            rng.random(c['pre'])
        if c['kind'] == 'gen':
            e = np.asarray(em.generate(code, c['p'], rng))
            n = code.n_k_d[0]
            return pauli_letters(e, n) if e.shape == (2 * n,) else 'shape{}'.format(e.shape)
        from qecsim import app
        RecDec, _ = make_recorders()
        dec = RecDec()
        app.run_once_ftp(code, c['T'], em, dec, c['p'], c['q'], rng)
        return show_runs(dec.calls)
    except Exception as ex:
        return 'raised:' + type(ex).__name__


def run_children(cfgs, hashseeds):
    """eval_cfg of every configuration in one fresh interpreter per PYTHONHASHSEED value"""
    import subprocess
    import sys
    import qecsim
    here = os.path.realpath(os.path.dirname(qecsim.__file__))
    harness = os.path.abspath(os.path.join(os.path.dirname(__file__), '..', '..'))
    out = {}
    for hs in hashseeds:
        env = dict(os.environ, PYTHONHASHSEED=str(hs))
        r = subprocess.run([sys.executable, '-c', _CHILD, harness], input=json.dumps(cfgs), env=env,
                           stdout=subprocess.PIPE, stderr=subprocess.PIPE, text=True, timeout=900)
        try:
            body = json.loads(r.stdout.strip().splitlines()[-1])
        except (ValueError, IndexError):
            raise core.Infra('child interpreter (PYTHONHASHSEED={}) failed: rc={} {}'.format(
                hs, r.returncode, r.stderr[-400:]))
        if body['qecsim'] != here or body['hashseed'] != str(hs) or len(body['res']) != len(cfgs):
            raise core.Infra('child interpreter bound to {} (PYTHONHASHSEED {}), expected {}'.format(
                body['qecsim'], body['hashseed'], here))
        out[str(hs)] = body['res']
    return out


def cross_process_failure(cfgs, hashseeds):
    """first configuration on which two fresh interpreters disagree, as a failing input of the clause 'the same
    supplied generator state reproduces the same error'"""
    res = run_children(cfgs, hashseeds)
    ks = [str(h) for h in hashseeds]
    for i, c in enumerate(cfgs):
        for k in ks[1:]:
            if res[k][i] != res[ks[0]][i]:
                what = ('generate(code, p, default_rng({}){})'.format(c['seed'], ' advanced by {} doubles'.format(
                    c['pre']) if c.get('pre') else '') if c['kind'] == 'gen' else
                        'run_once_ftp(code, T={}, ..., p, q={!r}, default_rng({})) (recorded step errors | flips)'.format(
                            c['T'], c['q'], c['seed']))
                return dict(c, what='the same generator state gives different errors in two fresh interpreter '
                                    'processes: {} of {} at p={!r} on {} returned {} under PYTHONHASHSEED={} and {} '
                                    'under PYTHONHASHSEED={}'.format(what, c['model'], c['p'], c['code'],
                                                                     res[ks[0]][i][:80], ks[0], res[k][i][:80], k),
                            PYTHONHASHSEED=[ks[0], k], results=[res[ks[0]][i][:400], res[k][i][:400]],
                            key='same-state-different-interpreter')
    return None


HASHSEEDS = (1, 2, 3)


def cross_process_cfgs(ctx):
    r = ctx.rng
    quick = ctx.quick()
    codes = [('basic.FiveQubitCode', []), ('basic.SteaneCode', []), ('planar.PlanarCode', [3, 5]),
             ('toric.ToricCode', [3, 4]), ('rotatedplanar.RotatedPlanarCode', [7, 9]), ('color.Color666Code', [7]),
             ('planar.PlanarCode', [10, 10])]
    cfgs = []
    for mspec in model_specs() + user_specs():
        for p in (PS + [0.3] if mspec[0] != USER else ps_for(mspec)):
            try:
                if not dist_valid(make_model(mspec).probability_distribution(p)):
                    continue
            except Exception:
                continue
            for _ in range(1 if quick else 3):
                cfgs.append({'kind': 'gen', 'model': list(mspec), 'code': list(r.choice(codes)), 'p': p,
                             'seed': r.randrange(2 ** 32), 'pre': r.choice([0, 0, 3])})
    for _ in range(ctx.scale(30, 200)):
        mspec = r.choice(model_specs() + user_specs())
        p = r.choice(ps_unit(mspec))
        try:
            if not dist_valid(make_model(mspec).probability_distribution(p)):
                continue
        except Exception:
            continue
        cfgs.append({'kind': 'run', 'model': list(mspec), 'code': list(r.choice(codes[:4])), 'p': p,
                     'q': r.choice([None, 0.0, 0.3, 1.0, 1e-12]), 'T': r.choice([1, 2, 3]),
                     'seed': r.randrange(2 ** 32), 'pre': 0})
    return cfgs


def cross_process_cases(ctx):
    cfgs = cross_process_cfgs(ctx)
    res = run_children(cfgs, HASHSEEDS)
    here = [eval_cfg(c) for c in cfgs]
    ks = [str(h) for h in HASHSEEDS]
    n_zero = 0
    for i, c in enumerate(cfgs):
        dist = [float(x) for x in make_model(tuple(c['model'])).probability_distribution(c['p'])]
        n_zero += any(d == 0 for d in dist)
        vals = [res[k][i] for k in ks]
        if len(set(vals)) > 1:
            f = cross_process_failure([c], HASHSEEDS) or {}
            ctx.monitor_fail(f.get('what', 'fresh interpreters disagree: {}'.format(vals)[:300]),
                             dict(c, PYTHONHASHSEED=ks, results=[v[:400] for v in vals]),
                             key='same-state-different-interpreter')
            break
        if here[i] != vals[0]:
            ctx.monitor_fail('the same generator state gives {} in this (long-running) process and {} in a fresh '
                             'interpreter'.format(here[i][:80], vals[0][:80]),
                             dict(c, results=[here[i][:400], vals[0][:400]]), key='same-state-different-process')
            break
    ctx.explored['fresh_interpreters'] = {
        'evaluations': len(cfgs) * len(ks), 'configurations': len(cfgs), 'with_zero_probability_entry': n_zero,
        'PYTHONHASHSEED': ks, 'exhaustive': False,
        'rule': 'every IID model x p in {0, 1e-12, 0.1, 0.3, 0.5, 0.9, 1} x a code x a seed (generate) and random '
                'run_once_ftp configurations, evaluated by the real code in one fresh interpreter per PYTHONHASHSEED '
                'value and in this process: all results identical (the error is a function of model, code, p and '
                'generator state only)'}
    ctx.count('cross-process', 'configs={}'.format(len(cfgs)))


# ------------------------------------------------------------------------------------------ caller-owned results

HIST_CODES = [('basic.FiveQubitCode', []), ('basic.SteaneCode', []), ('toric.ToricCode', [2, 2]),
              ('planar.PlanarCode', [2, 2]), ('rotatedtoric.RotatedToricCode', [2, 2]), ('color.Color666Code', [3])]
HIST_MUT = ['none', 'xor-held', 'flip-all', 'flip-one', 'zero', 'fill-1', 'xor-held', 'flip-all']


def gen_history(r):
    """a call history around generate(): few small codes / models / probabilities (so the same Pauli strings recur),
    some configurations (model, code, p, seed, pre) repeated later; between the calls the caller modifies returned
    errors in place (they are the caller's arrays) and converts Pauli strings of its own"""
    pure = [('BitFlipErrorModel', []), ('PhaseFlipErrorModel', []), ('BitPhaseFlipErrorModel', []),
            ('BiasedYXErrorModel', [0]), ('CenterSliceErrorModel', [[0, 0, 1], 1.0])]
    other = [('DepolarizingErrorModel', []), ('BiasedDepolarizingErrorModel', [10, 'Z']), ('BiasedYXErrorModel', [3]),
             ('CenterSliceErrorModel', [[0.5, 0.5, 0], 0.25])]
    models = r.sample(pure, 2) + r.sample(other, r.choice([0, 1]))
    codes = r.sample(HIST_CODES, r.choice([1, 1, 2]))
    ps = r.sample([0.0, 1e-12, 0.05, 0.1, 0.3, 1.0], 2)
    steps = []; cfgs = []
    for _ in range(r.randint(10, 40)):
        if cfgs and r.random() < 0.3:
            c = r.choice(cfgs)
        else:
            c = ['gen', list(r.choice(models)), list(r.choice(codes)), r.choice(ps), r.randrange(2 ** 32),
                 r.choice([0, 0, 2])]
            cfgs.append(c)
        steps.append(list(c))
        if r.random() < 0.7:
            steps.append(['mut', r.choice(HIST_MUT), r.choice(['last', 'last', 'any']), r.randrange(1 << 16)])
        if r.random() < 0.1:
            steps.append(['tobsf', r.choice(['identity', 'last']), r.choice(HIST_MUT), r.randrange(1 << 16)])
    return steps


def _mutate(how, arr, held, salt):
    if how == 'zero':
        arr ^= arr
    elif how == 'flip-all':
        arr ^= 1
    elif how == 'flip-one' and arr.size:
        arr[salt % arr.size] ^= 1
    elif how == 'xor-held':
        same = [h for h in held if h is not arr and h.shape == arr.shape]
        if same:
            arr ^= same[salt % len(same)]
        else:
            arr ^= 1
    elif how == 'fill-1':
        arr[:] = 1


def exec_history(steps):
    """run the history on the real code.  returns (records of the generate calls, failure or None); a record =
    (step index, config, bits at return time).  The failure is the PROPERTY evaluated on the real outputs: shape,
    zero-probability Paulis, same generator state => same error - whatever the caller did to earlier results."""
    from qecsim import paulitools as pt
    held = []; snaps = []; last = None
    first = {}; recs = []
    value_fail = alias_fail = None

    def note_alias(a, si, who):
        nonlocal alias_fail
        if alias_fail is None and any(h.size and a.size and np.shares_memory(h, a) for h in held):
            alias_fail = {'what': '{} (step {}) returned an array that shares memory with an array returned earlier, '
                                  'which the caller owns and may modify'.format(who, si), 'step': si,
                          'key': 'generate-result-aliased'}

    for si, st in enumerate(steps):
        if st[0] == 'gen':
            _, mspec, cspec, p, seed, pre = st
            em = make_model(tuple(mspec)); code = make_code(cspec)
            n = code.n_k_d[0]
            dist = [float(x) for x in em.probability_distribution(p)]
            if not dist_valid(dist):
                continue
            rng = np.random.default_rng(seed)
            if pre:
                rng.random(pre)
            e = em.generate(code, p, rng)
            a = np.asarray(e)
            cfg = json.dumps(st)
            fail = None
            if a.shape != (2 * n,) or not np.isin(a, (0, 1)).all():
                fail = 'generated error is not a binary vector of length 2n: {}'.format(str(a)[:80])
                b = 'bad-shape'
            else:
                b = bits(a); letters = pauli_letters(a, n)
                for k, ch in enumerate('IXYZ'):
                    if dist[k] == 0 and ch in letters:
                        fail = ('Pauli {} has probability 0 under {} at p={!r} (distribution {}) but generate returned '
                                '{}'.format(ch, em.label, p, dist, letters))
                        break
                if fail is None and cfg in first and first[cfg][1] != b:
                    fail = ('the same generator state (default_rng({}) advanced by {}) gave {} at step {} and gives {} '
                            'now ({} at p={!r} on {})'.format(seed, pre, first[cfg][2], first[cfg][0], letters,
                                                               em.label, p, cspec))
                first.setdefault(cfg, (si, b, letters))
            recs.append((si, st, b))
            if fail and value_fail is None:
                value_fail = {'what': 'step {}: {}; before, the caller had modified arrays returned by earlier calls in '
                                      'place'.format(si, fail), 'step': si, 'key': 'generate-depends-on-caller-history'}
            if any(h.tolist() != sn for h, sn in zip(held, snaps)) and value_fail is None:
                value_fail = {'what': 'step {}: generate changed an array returned by an earlier call'.format(si),
                              'step': si, 'key': 'generate-depends-on-caller-history'}
            if isinstance(e, np.ndarray) and a.ndim == 1:
                note_alias(e, si, 'generate')
                if e.flags.writeable and np.issubdtype(e.dtype, np.integer):
                    held.append(e); snaps.append(e.tolist()); last = len(held) - 1
        elif st[0] == 'mut' and held:
            _, how, which, salt = st
            i = last if (which == 'last' and last is not None) else salt % len(held)
            _mutate(how, held[i], held, salt)
            snaps[:] = [h.tolist() for h in held]
        elif st[0] == 'tobsf':
            _, what, how, salt = st
            if what == 'last' and last is not None and held[last].size % 2 == 0:
                n = held[last].size // 2
                sstr = pauli_letters(np.asarray(snaps[last]) % 2, n)
            else:
                sstr = 'I' * (held[last].size // 2 if last is not None else 5)
            a = pt.pauli_to_bsf(sstr)
            if isinstance(a, np.ndarray) and a.flags.writeable:
                note_alias(a, si, 'paulitools.pauli_to_bsf')
                held.append(a)
                _mutate(how, a, held, salt)
                snaps[:] = [h.tolist() for h in held]
    return recs, (value_fail or alias_fail)


_CHILD_HIST = r"""
import json, os, sys
sys.path.insert(0, sys.argv[1])
import qecsim
from qv.props import c17
recs, fail = c17.exec_history(json.load(sys.stdin))
print(json.dumps({'qecsim': os.path.realpath(os.path.dirname(qecsim.__file__)), 'fail': fail}))
"""


def standalone_failure(steps):
    """the history on its own, in a fresh interpreter: its failure or None"""
    import subprocess
    import sys
    import qecsim
    harness = os.path.abspath(os.path.join(os.path.dirname(__file__), '..', '..'))
    r = subprocess.run([sys.executable, '-c', _CHILD_HIST, harness], input=json.dumps(steps), stdout=subprocess.PIPE,
                       stderr=subprocess.PIPE, text=True, timeout=300)
    try:
        out = json.loads(r.stdout.strip().splitlines()[-1])
    except (ValueError, IndexError):
        return None
    if out.get('qecsim') != os.path.realpath(os.path.dirname(qecsim.__file__)):
        return None
    return out.get('fail')


def history_cases(ctx):
    r = ctx.rng
    n_alone = 0
    for it in range(ctx.scale(60, 600)):
        steps = gen_history(r)
        recs, fail = exec_history(steps)
        # every call of the history against the model (twin generator), from the bits it had when it was returned
        for si, st, b in recs:
            _, mspec, cspec, p, seed, pre = st
            em = make_model(tuple(mspec)); n = make_code(cspec).n_k_d[0]
            dist = em.probability_distribution(p); cdf = float_cdf(dist)
            u = np.random.default_rng(seed).random(pre + n)
            post = make_post_gen(ctx, [Fraction(float(x)) for x in u[pre:pre + n]], [Fraction(float(c)) for c in cdf])
            ctx.case('c17 gen {} {} {} {} {}'.format(n, ratlist(dist), ratlist(cdf), stream_wire(u), pre),
                     'ok {} {} {}'.format(b, b, pre + n), nontrivial=(p > 0), post=post,
                     meta={'kind': 'history', 'model': mspec, 'code': cspec, 'p': p, 'seed': seed, 'pre': pre,
                           'history': steps, 'step': si})
        ctx.count('history-len', len(recs))
        ctx.count('history-mutations', sum(1 for st in steps if st[0] == 'mut' and st[1] != 'none'))
        ctx.count('history-repeated-strings', len(recs) - len(set((json.dumps(st[2]), b) for _, st, b in recs)))
        if fail:
            alone = None; ran = False
            if n_alone < 6:
                n_alone += 1; ran = True
                alone = standalone_failure(steps)
            rec = dict(alone or fail, history=steps,
                       fresh_interpreter=('reproduced' if alone else 'not re-run' if not ran else
                                          'fails only after the earlier histories of this run'))
            key = rec.pop('key', None)
            if alone:
                ctx.counterexamples.insert(0, {'what': rec['what'], 'input': rec, 'key': key})
            else:
                ctx.monitor_fail(rec['what'], rec, key=key)


# ------------------------------------------------------------------------------------------ run

def run(ctx):
    from qecsim import paulitools as pt
    r = ctx.rng
    ctx.assumptions = list(ASSUMPTIONS)
    check_numpy_contract(ctx)
    mspecs = model_specs(); cspecs = code_specs(); uspecs = user_specs()
    quick = ctx.quick()

    # A. generate(): every model x every p x codes x seeds
    dists = []
    for mspec in mspecs + uspecs:
        for p in ps_for(mspec):
            try:
                d = make_model(mspec).probability_distribution(p)
                if dist_valid(d):
                    dists.append(tuple(float(x) for x in d))
            except Exception:
                pass
            codes = r.sample(cspecs, 6) if quick else cspecs
            for cspec in codes:
                for _ in range(2 if quick else 3):
                    gen_case(ctx, mspec, cspec, p, r.randrange(2 ** 32), r.choice([0, 0, 1, 5, 64]))
    cdf_cases(ctx, sorted(set(dists)))

    # A2. the same (model, code, p, generator state) in fresh interpreters (different PYTHONHASHSEED) and here
    cross_process_cases(ctx)

    # B. whole runs: recorded step errors and measurement flips from one stream
    small = [c for c in cspecs if make_code(c).n_k_d[0] <= (60 if quick else 200)]
    for it in range(ctx.scale(600, 4000)):
        mspec = r.choice(mspecs if r.random() < 0.75 else uspecs); cspec = r.choice(small)
        p = r.choice(ps_unit(mspec)); T = r.choice([1, 1, 2, 3, 5]); q = r.choice([None, None, 0.0, 1e-12, 0.3, 1.0, 0])
        api = r.choice(['once_ftp', 'once_ftp', 'ftp', 'ftp', 'once', 'run'])
        R = r.choice([1, 2, 3]) if api in ('ftp', 'run') else 1
        if api in ('once', 'run'):
            T = 1
        run_case(ctx, mspec, cspec, p, q, T, R, r.randrange(2 ** 32), api)

    # B2. rare branches (tiny / near-1 probabilities) hit on purpose by pre-advancing the generator
    rare_cases(ctx)

    # C. primitives
    idx_cases(ctx)
    for it in range(ctx.scale(100, 1000)):
        n = r.choice([1, 2, 5, 9])
        s = ''.join(r.choice('IXYZ') for _ in range(n))
        ctx.case('c17 tobsf ' + s, bits(pt.pauli_to_bsf(s)), nontrivial=True)

    # D. supporting TEST (not the decision procedure): chi-square frequencies / pairwise independence / flips
    n_tests = 0; n_draws = 0; min_p = 1.0
    big = ('rotatedplanar.RotatedPlanarCode', [20, 20])
    for mspec in (r.sample(mspecs, 6) + r.sample(uspecs, 3) if quick else mspecs + uspecs):
        p = r.choice([0.1, 0.5, 0.9] if mspec[0] != USER else [x for x in ps_for(mspec) if x not in (0.0, 1e-12)])
        em = make_model(mspec)
        try:
            if not dist_valid(em.probability_distribution(p)):
                continue
        except Exception:
            continue
        seeds = [r.randrange(2 ** 32) for _ in range(ctx.scale(100, 500))]
        try:
            ps_, pp_, nd, detail = freq_test(em, make_code(big), p, seeds)
        except ValueError as ex:
            ctx.monitor_fail('generate raised {!r} although probability_distribution({!r}) of {} is a valid distribution'
                             .format(ex, p, mspec)[:400], {'model': mspec, 'code': big, 'p': p, 'seed': seeds[0]},
                             key='generate-raises')
            continue
        n_tests += 2; n_draws += nd; min_p = min(min_p, ps_, pp_)
        if ps_ < P_CHI or pp_ < P_CHI:
            ctx.monitor_fail('TEST: empirical {} frequencies of {} at p={} inconsistent with the distribution '
                             '(chi-square p-value single={:.3g} pair={:.3g})'.format(
                                 'single-qubit' if ps_ < P_CHI else 'pairwise', em.label, p, ps_, pp_),
                             {'model': mspec, 'code': big, 'p': p, 'seeds': seeds[:5], 'detail': detail},
                             key='chi-square-qubits')
    for q in (None, 0.3, 0.05):
        T = 3; p = 0.2
        em = make_model(('DepolarizingErrorModel', [])); code = make_code(('planar.PlanarCode', [10, 10]))
        seeds = [r.randrange(2 ** 32) for _ in range(ctx.scale(60, 400))]
        pv, nb, ones = flip_freq_test(em, code, p, q, T, seeds)
        n_tests += 1; n_draws += nb; min_p = min(min_p, pv)
        if pv < P_CHI:
            ctx.monitor_fail('TEST: empirical measurement-flip frequency {}/{} inconsistent with q={} (p-value {:.3g})'
                             .format(ones, nb, q, pv), {'q': q, 'T': T, 'p': p, 'seeds': seeds[:5]},
                             key='chi-square-flips')
    # D2. extreme measurement error probabilities: exact binomial test over millions of real syndrome bits
    ext = []
    for q in ([r.choice([7e-6, 1 - 7e-6])] if quick else [7e-6, 1 - 7e-6, 2.0 ** -18, 1 - 2.0 ** -18]):
        sd = r.randrange(2 ** 32)
        f = extreme_flip_failure(q, sd)
        ext.append(q)
        if f:
            key = f.pop('key'); what = f.pop('what')
            ctx.monitor_fail('TEST: ' + what, f, key=key)
    ctx.explored['extreme_q_flip_test'] = {
        'evaluations': len(ext), 'q': ext, 'alarm_below': P_CHI, 'exhaustive': False,
        'rule': 'TEST, supporting only: run_once_ftp on {} with {} steps per run and as many runs as give 25 expected '
                'flips (q tiny) / unflipped bits (q close to 1); the flip count must pass the exact two-sided binomial '
                'test at {:g} (false-alarm probability per test at most that)'.format(EXTREME_CODE, EXTREME_T, P_CHI)}

    # E. call histories: the caller modifies returned errors in place, the same Pauli strings recur
    history_cases(ctx)

    ctx.explored['chi_square_support_test'] = {
        'evaluations': n_tests, 'draws': n_draws, 'min_p_value': min_p, 'alarm_below': P_CHI, 'exhaustive': False,
        'rule': 'TEST, supporting only: Pearson chi-square of single-qubit Pauli counts and of disjoint adjacent-pair '
                'counts (against dist x dist) over real generate() calls on a 400-qubit code, and of measurement-flip '
                'counts over real run_once_ftp calls; oracle = scipy.stats.chi2'}
    return ctx.finish(RULE, search=search)


# ------------------------------------------------------------------------------------------ failing-input search

def property_check(meta, seeds_base=12345, n_seeds=150):
    """evaluate the PROPERTY on the real code only, for the configuration of a disagreeing case (and near variants).
       returns a dict describing a concrete failing input, or None."""
    from qecsim import app
    mspec, cspec, p = meta['model'], meta['code'], meta['p']
    em = make_model(mspec); code = make_code(cspec)
    n = code.n_k_d[0]
    dist = [float(x) for x in em.probability_distribution(p)]
    base = {'model': mspec, 'code': cspec, 'p': p}
    # zero-probability Paulis / shape / determinism on a handful of seeds
    if not dist_valid(dist):
        return None
    for sd in [meta.get('seed', 0)] + list(range(seeds_base, seeds_base + 20)):
        try:
            e = np.asarray(em.generate(code, p, np.random.default_rng(sd)))
        except Exception as ex:
            return dict(base, what='generate raised {!r} although probability_distribution({!r}) = {} is a valid '
                                   'distribution'.format(ex, p, dist)[:400], seed=sd, key='generate-raises')
        if e.shape != (2 * n,) or not np.isin(e, (0, 1)).all():
            return dict(base, what='generated error is not a binary vector of length 2n', seed=sd, error=str(e)[:200])
        letters = pauli_letters(e, n)
        for k, ch in enumerate('IXYZ'):
            if dist[k] == 0 and ch in letters:
                return dict(base, what='Pauli {} has probability 0 under {} (dist {}) but generate() returned {}'.format(
                    ch, em.label, dist, letters[:60]), seed=sd, key='zero-prob-pauli')
        e2 = np.asarray(em.generate(code, p, np.random.default_rng(sd)))
        if not np.array_equal(e, e2):
            return dict(base, what='same generator seed gives different errors', seed=sd)
    # measurement flips: never for 0, always for 1, frequency q otherwise
    if meta.get('kind') == 'run':
        RecDec, _ = make_recorders()
        T = max(int(meta.get('T', 2)), 2)
        for q, want in ((0.0, 0), (1.0, 1)):
            dec = RecDec()
            app.run_once_ftp(code, T, em, dec, p, q, np.random.default_rng(seeds_base))
            for t, f in enumerate(dec.calls[0]['meas']):
                f = np.asarray(f)
                if (f != want).any():
                    return dict(base, what='run_once_ftp with measurement_error_probability={} : step {} flips {} — '
                                            'every syndrome bit must {} be flipped'.format(
                                                q, t, bits(f)[:60], 'always' if want else 'never'),
                                q=q, T=T, seed=seeds_base, key='meas-q{}'.format(want))
        for q in (0.3, None, meta.get('q')):
            if q in (0, 1) or (q is None and p in (0, 1)):
                continue
            pv, nb, ones = flip_freq_test(em, code, p, q, T, range(seeds_base, seeds_base + n_seeds))
            if pv < P_CHI:
                return dict(base, what='run_once_ftp measurement flips: {} of {} syndrome bits flipped with q={} '
                                        '(chi-square p-value {:.3g})'.format(ones, nb, q, pv), q=q, T=T,
                            seeds='{}..{}'.format(seeds_base, seeds_base + n_seeds - 1), key='chi-square-flips')
    # frequencies / pairwise independence of the qubits
    for cs in (cspec, ('rotatedplanar.RotatedPlanarCode', [20, 20])):
        c = make_code(cs)
        ps_, pp_, nd, detail = freq_test(em, c, p, range(seeds_base, seeds_base + n_seeds))
        if ps_ < P_CHI or pp_ < P_CHI:
            return dict(base, code=cs, what='{} frequencies over {} real draws inconsistent with dist {} '
                                            '(chi-square p-value single={:.3g}, adjacent pairs vs product={:.3g})'.format(
                                                'single-qubit' if ps_ < P_CHI else 'pairwise (independence)', nd,
                                                dist, ps_, pp_),
                        detail=detail, seeds='{}..{}'.format(seeds_base, seeds_base + n_seeds - 1),
                        key='chi-square-qubits')
    return None


_probe_cache = {}


def family_probe(meta):
    """near variants across the model family, evaluated once per process: the pure / strongly biased models on the
    mismatching case's code (zero-probability Paulis, frequencies) and a multi-step run (flip rules)"""
    key = json.dumps(meta.get('code'))
    if key not in _probe_cache:
        found = None
        for mspec in (('BitFlipErrorModel', []), ('PhaseFlipErrorModel', []), ('BitPhaseFlipErrorModel', []),
                      ('BiasedDepolarizingErrorModel', [100.0, 'Z']), ('BiasedDepolarizingErrorModel', [100.0, 'X'])):
            found = property_check({'model': mspec, 'code': meta['code'], 'p': 0.5, 'kind': 'run', 'T': 2, 'q': 0.3,
                                    'seed': 777}, n_seeds=80)
            if found:
                break
        _probe_cache[key] = found
    return _probe_cache[key]


_search_state = {'fresh': 0, 'extreme': None}


def rule_deviation(m):
    """diagnostic for a mismatching run case (NOT a failing input of the property: a correct sampler that consumes the
    generator differently deviates too): the first recorded bit that differs from what the documented scheme
    (rng.choice over the twin stream: Pauli by inverse cdf, flip iff u >= 1-q) yields, with the uniform it compares"""
    try:
        op = m['op'].split(); imp = m['impl'].split(); mod = m['model'].split()
        if op[:2] != ['c17', 'run'] or imp[0] != 'ok' or mod[0] != 'ok':
            return None
        T, n, ms = int(op[3]), int(op[4]), int(op[5])
        den, ks = op[11].split(':')
        ks = [int(k) for k in ks.split(',')] if ks != '_' else []
        qq = Fraction(mod[1][2:])
        step_len = n + (ms if qq != 0 else 0)
        ri = imp[2].split(';'); rm = mod[2].split(';')
        for r_, (a, b) in enumerate(zip(ri, rm)):
            for t, (sa, sb) in enumerate(zip(a.split(','), b.split(','))):
                if sa == sb or '|' not in sa or '|' not in sb:
                    continue
                (ea, fa), (eb, fb) = sa.split('|'), sb.split('|')
                base = (r_ * T + t) * step_len
                if ea != eb and len(ea) == len(eb) == 2 * n:
                    i = next(i for i in range(n) if (ea[i], ea[n + i]) != (eb[i], eb[n + i]))
                    return ('run {} step {} qubit {}: implementation x|z bits {}{}, documented scheme {}{} from uniform '
                            '#{} = {!r}'.format(r_, t, i, ea[i], ea[n + i], eb[i], eb[n + i], base + i,
                                                ks[base + i] / int(den)))
                if fa != fb and len(fa) == len(fb):
                    i = next(i for i in range(len(fa)) if fa[i] != fb[i])
                    return ('run {} step {} syndrome bit {}: implementation flip={}, documented scheme flip={} (flip iff '
                            'u >= 1-q with q={!r}, uniform #{} = {!r})'.format(
                                r_, t, i, fa[i], fb[i], float(qq), base + n + i, ks[base + n + i] / int(den)))
    except Exception:
        return None
    return None


def fresh_interpreter_probe(meta):
    """the mismatching configuration (and the pure models on its code with its seed) in fresh interpreters with
    different PYTHONHASHSEED: a disagreement is a failing input of 'same generator state => same error' that does not
    depend on anything this process did before.  At most three probes per process."""
    if _search_state['fresh'] >= 3:
        return None
    _search_state['fresh'] += 1
    seed = int(meta.get('seed', 777)); pre = int(meta.get('pre', 0) or 0)
    cfgs = []
    if meta.get('kind') in ('gen', 'history'):
        cfgs.append({'kind': 'gen', 'model': list(meta['model']), 'code': list(meta['code']), 'p': meta['p'],
                     'seed': seed, 'pre': pre})
    elif meta.get('kind') == 'run':
        cfgs.append({'kind': 'run', 'model': list(meta['model']), 'code': list(meta['code']), 'p': meta['p'],
                     'q': meta.get('q'), 'T': int(meta.get('T', 1)), 'seed': seed, 'pre': pre})
    for mspec in (('BitFlipErrorModel', []), ('PhaseFlipErrorModel', []), ('BitPhaseFlipErrorModel', []),
                  ('BiasedYXErrorModel', [0]), ('DepolarizingErrorModel', [])):
        for p in (0.1, 1.0):
            cfgs.append({'kind': 'gen', 'model': list(mspec), 'code': list(meta['code']), 'p': p, 'seed': seed,
                         'pre': 0})
    return cross_process_failure(cfgs, HASHSEEDS)


def extreme_q_probe():
    """once per process: tiny / near-1 measurement error probabilities over millions of real syndrome bits"""
    if _search_state['extreme'] is None:
        found = False
        for q, sd in ((7e-6, 20240), (1 - 7e-6, 20241)):
            found = extreme_flip_failure(q, sd)
            if found:
                break
        _search_state['extreme'] = found or False
    return _search_state['extreme'] or None


def search(m):
    meta = m.get('meta') or {}
    if meta.get('kind') == 'history':
        f = standalone_failure(meta['history'])
        if f:
            return dict(f, history=meta['history'], fresh_interpreter='reproduced')
    if 'model' not in meta:
        return None
    if meta.get('kind') == 'extreme-q':
        return extreme_flip_failure(meta['q'], int(meta['seed']))
    found = fresh_interpreter_probe(meta)
    if found:
        return found
    found = property_check(meta)
    if found:
        return found
    if meta.get('kind') == 'run':
        found = extreme_q_probe()
        if found:
            dev = rule_deviation(m) if 'op' in m else None
            return dict(found, exact_stream_diagnostic=dev) if dev else found
    found = family_probe(meta)
    if found:
        return found
    # near variants: the same model at the other probabilities
    for p in (0.5, 0.1, 0.9, 1.0):
        if p != meta['p']:
            found = property_check(dict(meta, p=p), n_seeds=60)
            if found:
                return found
    return None


def replay(ctx, path):
    body = json.load(open(path)); bad = 0
    for v in body.get('violations', []):
        ce = v.get('counterexample') or {}
        inp = ce.get('input') if isinstance(ce.get('input'), dict) else ce
        meta = None
        if isinstance(inp, dict) and 'history' in inp:
            f = standalone_failure(inp['history'])
            print('replay history ({} steps) in a fresh interpreter ->'.format(len(inp['history'])), f)
            bad += bool(f)
            continue
        if isinstance(inp, dict) and 'model' in inp and 'code' in inp and 'p' in inp:
            meta = dict(inp)
            meta.setdefault('kind', 'run' if ('q' in inp or 'T' in inp) else 'gen')
        elif v.get('first_mismatch') and (v['first_mismatch'].get('meta') or {}).get('model'):
            meta = v['first_mismatch']['meta']
        if meta:
            try:
                r = search({'meta': meta})
            except Exception as ex:
                r = None; print('replay error', repr(ex)[:200])
            print('replay', {k: meta.get(k) for k in ('model', 'code', 'p', 'q', 'T')}, '->', r)
            bad += bool(r)
    return 1 if bad else 0       # core.do_replay prints the VIOLATION line (and re-runs the whole check when 0)
